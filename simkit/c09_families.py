"""C09 harness: worker processes inside the real engine + reference counter
models for every capacity primitive (DESIGN.md section 5, C09).

One *family* per primitive.  A family builds the real primitive(s), interprets
the JSON op lists of the generated worker processes (harness entities whose
handler is a generator, exactly as a user would write it), keeps the holder
log and the reference model, and checks the fine invariants

  * at op time            (inside the worker, e.g. wake order at a release),
  * after every delivery  (Monitor invariant),
  * at the end of every instant (control.on_time_advance: the state it sees is
    the state after the last delivery of the previous clock value),
  * at quiescence.

Only the public API of the primitives is used to observe them (available,
waiters, is_locked, active_readers, total_connections, stats, ...).

Signatures:  C09/<invariant>/<PrimitiveClass>/<small normalised detail>
"""
from __future__ import annotations

import collections
import hashlib

from simkit import repo

repo.activate()

from happysimulator.core.entity import Entity  # noqa: E402
from happysimulator.core.event import Event  # noqa: E402
from happysimulator.core.temporal import Instant  # noqa: E402

from simkit.world import InvalidScenario, Violation  # noqa: E402


def bad(inv: str, cls: str, detail: str, msg: str):
    raise Violation(f"C09/{inv}/{cls}/{detail}", msg)


def secs(ns: int) -> float:
    return ns / 1e9


class Worker(Entity):
    """A user-style process: handle_event returns a generator."""

    def __init__(self, name: str, idx: int, t_ns: int, ops: list, fam: "Family"):
        super().__init__(name)
        self.idx = idx
        self.t_ns = t_ns
        self.ops = ops
        self.fam = fam
        self.cur = "start"      # op the process is currently inside (for spin signatures)
        self.done = False

    def handle_event(self, event):
        return self._body()

    def _body(self):
        yield from self.fam.process(self)
        self.cur = "done"
        self.done = True
        return None


def drive(gen, on_first):
    """`yield from gen`, but tell the caller what happened at the first step.

    on_first(finished: bool) is called right after the generator ran to its
    first yield (finished=False) or returned without yielding (finished=True).
    """
    try:
        y = next(gen)
    except StopIteration as e:
        on_first(True)
        return e.value
    on_first(False)
    while True:
        s = yield y
        try:
            y = gen.send(s)
        except StopIteration as e:
            return e.value


class Req:
    __slots__ = ("rid", "w", "kind", "amount", "prio", "fut", "blocked", "t_req", "order", "resumed", "extra")

    def __init__(self, rid, w, kind="x", amount=1, prio=0.0):
        self.rid = rid
        self.w = w
        self.kind = kind
        self.amount = amount
        self.prio = prio
        self.fut = None
        self.blocked = False
        self.t_req = 0
        self.order = 0
        self.resumed = False
        self.extra = None


class Family:
    CLS = "?"
    NEEDS_END = None  # seconds of end_time, or None for auto-termination

    def __init__(self, sc: dict):
        self.sc = sc
        self.cfg = sc["cfg"]
        self.counters = collections.Counter()
        self.states: set = set()
        self.workers: list[Worker] = []
        self.sim = None
        self.mon = None
        self._rid = 0
        self.nlog = 0           # holder-log entries (grant/release), for the digest + non-triviality
        self._lh = hashlib.blake2b(digest_size=8)
        self.max_blocked = 0

    # -- construction -----------------------------------------------------
    def build(self) -> list:
        raise NotImplementedError

    def extra_events(self) -> list:
        return []

    def make_workers(self):
        for i, w in enumerate(self.sc["workers"]):
            if not isinstance(w.get("ops"), list) or int(w.get("t", -1)) < 0:
                raise InvalidScenario("worker without ops/t")
            self.workers.append(Worker(f"w{i}", i, int(w["t"]), w["ops"], self))
        return self.workers

    # -- helpers ----------------------------------------------------------
    def now_ns(self) -> int:
        return self.sim._clock.now.nanoseconds if self.sim is not None else 0

    def rid(self) -> int:
        self._rid += 1
        return self._rid

    def note(self, w: int, what: str, detail=0):
        """Append to the holder log (only a running hash + count are kept)."""
        self.nlog += 1
        self._lh.update(f"{self.now_ns()}|{w}|{what}|{detail}\n".encode())

    @property
    def loghash(self) -> str:
        return self._lh.hexdigest()

    DEEP = ("blocked_then_granted", "waited_across_time", "chain_handoff")

    def probe(self, name: str):
        self.counters["probe." + name] = 1
        if name in self.DEEP:
            self.counters[f"probe.{self.sc['family']}.{name}"] = 1

    # -- hooks ------------------------------------------------------------
    def process(self, w: Worker):
        raise NotImplementedError
        yield  # pragma: no cover

    def after(self, ev, mon):
        pass

    def eoi(self):
        pass

    def final(self):
        pass

    def hold(self, w: Worker, ns: int):
        w.cur = "hold"
        yield secs(int(ns))


# =========================================================================
# Resource
# =========================================================================

class ResourceFam(Family):
    CLS = "Resource"

    def build(self):
        from happysimulator.components.resource import Resource

        cap = self.cfg["capacity"]
        if cap <= 0:
            raise InvalidScenario("capacity")
        self.res = Resource("res", cap)
        self.cap = cap
        self.open: list[Req] = []          # requests issued, worker not yet resumed (blocking order)
        self.held: dict[int, float] = {}    # rid -> amount (worker resumed, not released)
        self.seen_grants: set[int] = set()
        self.keep: list = []               # keep grant objects alive (id() uniqueness)
        return [self.res]

    # model quantities
    def _held_total(self):
        return sum(self.held.values()) + sum(r.amount for r in self.open if r.fut.is_resolved)

    def _unresolved_blocked(self):
        return [r for r in self.open if r.blocked and not r.fut.is_resolved]

    def process(self, w):
        slots: dict = {}
        res = self.res
        for op in w.ops:
            k = op.get("op")
            if k == "hold":
                yield from self.hold(w, op["ns"])
            elif k in ("acq", "try"):
                a = op["a"]
                if not (0 < a <= self.cap):
                    raise InvalidScenario("amount")
                s = op.get("slot", 0)
                if s in slots:
                    continue  # slot busy: generator never does this; shrinker may
                if k == "try":
                    w.cur = "try_acquire"
                    avail0 = res.available
                    g = res.try_acquire(a)
                    self.counters["op.try"] += 1
                    if g is not None:
                        if avail0 < a:
                            bad("over-admit", self.CLS, "try_acquire", f"try_acquire({a}) granted with available={avail0}")
                        self._register_grant(w, g, a, slots, s)
                    else:
                        self.probe("try_refused")
                        if avail0 >= a and not self._unresolved_blocked():
                            # nothing is queued and capacity is free: refusing is an under-admission,
                            # not forbidden by the statement; only counted
                            self.counters["note.try_refused_with_capacity"] += 1
                    continue
                w.cur = "acquire"
                r = Req(self.rid(), w.idx, "acq", a)
                queued0 = len(self._unresolved_blocked())
                avail0 = res.available
                r.fut = res.acquire(a)
                r.t_req = self.now_ns()
                self.counters["op.acquire"] += 1
                r.blocked = not r.fut.is_resolved
                if r.blocked:
                    self.counters["blocked"] += 1
                    if avail0 >= a and queued0 == 0:
                        # capacity was free and nobody was queued ahead, yet the caller was made to wait
                        bad("head-waiter-served", self.CLS, "queued-with-capacity",
                            f"acquire({a}) queued although available={avail0}")
                else:
                    if avail0 < a:
                        bad("over-admit", self.CLS, "acquire-immediate", f"acquire({a}) granted immediately with available={avail0}")
                    if queued0:
                        self.probe("barging")
                self.open.append(r)
                self.max_blocked = max(self.max_blocked, len(self._unresolved_blocked()))
                grant = yield r.fut
                # resumed
                if r.resumed:
                    bad("granted-once", self.CLS, "resumed-twice", f"request {r.rid} resumed twice")
                r.resumed = True
                self.open.remove(r)
                if r.blocked:
                    self.probe("blocked_then_granted")
                    if self.now_ns() > r.t_req:
                        self.probe("waited_across_time")
                self._register_grant(w, grant, a, slots, s)
            elif k in ("rel", "rel2"):
                s = op.get("slot", 0)
                if s not in slots:
                    continue
                g, rid = slots.pop(s)
                w.cur = "release"
                self._release(w, g, rid)
                if k == "rel2":
                    self.probe("double_release")
                    av = res.available
                    g.release()
                    if res.available != av:
                        bad("release-capped", self.CLS, "double-release",
                            f"second release() of the same grant changed available {av} -> {res.available}")
        for s in sorted(slots):
            g, rid = slots[s]
            w.cur = "release"
            self._release(w, g, rid)

    def _register_grant(self, w, g, a, slots, s):
        if g is None or id(g) in self.seen_grants:
            bad("granted-once", self.CLS, "grant-object-reused", f"worker {w.idx} received {g!r} a second time")
        self.seen_grants.add(id(g))
        self.keep.append(g)
        if g.amount != a or g.released:
            bad("granted-once", self.CLS, "grant-mismatch", f"asked {a}, got {g!r}")
        rid = self.rid()
        self.held[rid] = a
        slots[s] = (g, rid)
        self.note(w.idx, "grant", a)
        if sum(self.held.values()) > self.cap:
            bad("over-admit", self.CLS, "holders-exceed-capacity",
                f"holder log: {sum(self.held.values())} outstanding > capacity {self.cap}")

    def _release(self, w, g, rid):
        before = self._unresolved_blocked()
        del self.held[rid]
        self.note(w.idx, "release", g.amount)
        g.release()
        self.counters["op.release"] += 1
        # wake order: the requests resolved by this release are a prefix of the blocked queue
        seen_unresolved = None
        woke = 0
        for r in before:
            if r.fut.is_resolved:
                woke += 1
                if seen_unresolved is not None:
                    bad("fifo", self.CLS, "release-woke-later-waiter",
                        f"release woke request {r.rid} (amount {r.amount}) while earlier blocked request "
                        f"{seen_unresolved.rid} (amount {seen_unresolved.amount}) still waits")
            elif seen_unresolved is None:
                seen_unresolved = r
        if woke:
            self.probe("release_woke_waiter")
        if woke > 1:
            self.probe("release_woke_several")
        if seen_unresolved is not None and woke == 0 and len(before) > 1:
            if any(x.amount <= self.res.available for x in before[1:]):
                self.probe("strict_fifo_head_blocks_smaller")

    def after(self, ev, mon):
        res = self.res
        avail = res.available
        held = self._held_total()
        if held > self.cap:
            bad("over-admit", self.CLS, "outstanding-exceeds-capacity", f"outstanding {held} > capacity {self.cap}")
        if avail < 0 or avail > self.cap:
            bad("release-capped", self.CLS, "available-out-of-range", f"available={avail} capacity={self.cap}")
        if held + avail != self.cap:
            bad("conservation", self.CLS, "held-plus-available" + ("-high" if held + avail > self.cap else "-low"),
                f"held {held} + available {avail} != capacity {self.cap}")
        ub = self._unresolved_blocked()
        if res.waiters != len(ub):
            bad("conservation", self.CLS, "waiter-count", f"waiters={res.waiters} but {len(ub)} requests are blocked")
        if ub and ub[0].amount <= avail:
            bad("head-waiter-served", self.CLS, "head-fits", f"head waiter needs {ub[0].amount}, available {avail}")
        self.states.add(f"res:{min(len(ub), 4)}:{'full' if avail == 0 else 'part' if avail < self.cap else 'free'}")

    def eoi(self):
        for r in self.open:
            if r.fut.is_resolved:
                bad("served-eventually", self.CLS, "resolved-not-resumed",
                    f"request {r.rid} was granted but its process was not resumed within the instant")

    def final(self):
        self.eoi()
        # quiescence: whoever still waits is legitimately blocked (checked by head-fits after the last delivery);
        # all finished workers released everything
        if not self.open and (self.held or self.res.available != self.cap):
            bad("conservation", self.CLS, "leak-at-quiescence", f"all processes done, available={self.res.available}/{self.cap}")
        if self.open:
            self.probe("deadlock_left_waiters")


# =========================================================================
# sync primitives: common machinery (count-based observation through .waiters)
# =========================================================================

class SyncFam(Family):
    """Shared machinery for primitives whose acquire() is a generator.

    `blockedq` holds blocked requests in blocking order whose process has not
    come back yet.  g = len(blockedq) - prim.waiters of them have been granted
    by the primitive (they are no longer queued inside it); by FIFO they must be
    the first g.
    """

    def _init_sync(self):
        self.blockedq: list[Req] = []
        self.came_from_queue: set[int] = set()   # workers whose current holding was obtained by waiting

    def note_release_woke(self, w):
        """A release woke a waiter; if the releaser itself had waited for what it releases: hand-off chain."""
        self.probe("release_woke_waiter")
        if w.idx in self.came_from_queue:
            self.probe("chain_handoff")

    def waiters_of(self) -> int:
        raise NotImplementedError

    def granted_unresumed(self) -> int:
        return len(self.blockedq) - self.waiters_of()

    def on_resume_blocked(self, r: Req):
        g = self.granted_unresumed()
        p = self.blockedq.index(r)
        if g < 1:
            bad("granted-once", self.CLS, "resumed-without-grant",
                f"blocked request {r.rid} ({r.kind}) came back although the primitive still queues all {len(self.blockedq)} waiters")
        if p >= g:
            ahead = self.blockedq[0]
            bad("fifo", self.CLS, f"{r.kind}-overtook-{ahead.kind}",
                f"request {r.rid} ({r.kind}, blocked {p + 1}th) was granted while only {g} grant(s) were made; "
                f"request {ahead.rid} blocked earlier still waits")
        self.blockedq.pop(p)
        self.probe("blocked_then_granted")
        if self.now_ns() > r.t_req:
            self.probe("waited_across_time")

    def acquire_via(self, w, r: Req, gen, granted_now):
        """Run a generator-style acquire. granted_now() is called when the grant
        is visible to the caller (immediately at first step, or at return)."""
        w0 = self.waiters_of()
        state = {}

        def first(finished):
            state["finished"] = finished
            r.blocked = (not finished) and self.waiters_of() == w0 + 1
            r.t_req = self.now_ns()
            if r.blocked:
                self.counters["blocked"] += 1
                self.blockedq.append(r)
                self.max_blocked = max(self.max_blocked, self.waiters_of())
            else:
                granted_now()

        res = yield from drive(gen, first)
        if r.blocked:
            self.on_resume_blocked(r)
            granted_now()
            self.came_from_queue.add(w.idx)
        else:
            self.came_from_queue.discard(w.idx)
        return res


# =========================================================================
# Mutex
# =========================================================================

class MutexFam(SyncFam):
    CLS = "Mutex"

    def build(self):
        from happysimulator.components.sync import Mutex

        self.m = Mutex("mutex")
        self.holder = None
        self._init_sync()
        return [self.m]

    def waiters_of(self):
        return self.m.waiters

    def _take(self, w, how):
        if self.holder is not None:
            bad("over-admit", self.CLS, how, f"worker {w.idx} entered the critical section while worker {self.holder} holds the lock")
        self.holder = w.idx
        self.note(w.idx, "grant")

    def process(self, w):
        m = self.m
        mine = False
        for op in w.ops:
            k = op.get("op")
            if k == "hold":
                yield from self.hold(w, op["ns"])
            elif k == "acq" and not mine:
                w.cur = "acquire"
                self.counters["op.acquire"] += 1
                r = Req(self.rid(), w.idx, "acquire")
                yield from self.acquire_via(w, r, m.acquire(owner=w.name), lambda: self._take(w, "acquire"))
                mine = True
            elif k == "try" and not mine:
                w.cur = "try_acquire"
                self.counters["op.try"] += 1
                free = self.holder is None and self.granted_unresumed() == 0
                ok = m.try_acquire(owner=w.name)
                if ok:
                    if not free:
                        bad("over-admit", self.CLS, "try_acquire", "try_acquire succeeded while the lock is held or handed off")
                    self._take(w, "try_acquire")
                    mine = True
                else:
                    self.probe("try_refused")
            elif k == "rel" and mine:
                w.cur = "release"
                evs = self._release(w)
                mine = False
                if evs:
                    yield 0.0, evs
            elif k == "badrel" and not mine:
                # release by a non-holder while the lock is free must be refused
                if self.holder is None and self.granted_unresumed() == 0 and not m.is_locked:
                    self.probe("release_unlocked_refused")
                    try:
                        m.release()
                    except RuntimeError:
                        pass
                    else:
                        bad("release-capped", self.CLS, "release-when-unlocked", "release() of an unlocked mutex did not raise")
        if mine:
            w.cur = "release"
            self._release(w)

    def _release(self, w):
        self.holder = None
        self.note(w.idx, "release")
        wq = self.m.waiters
        evs = self.m.release()
        self.counters["op.release"] += 1
        if wq:
            self.note_release_woke(w)
            if self.m.waiters != wq - 1:
                bad("fifo", self.CLS, "release-handoff-count", f"release with {wq} waiters left {self.m.waiters} queued")
        return evs

    def after(self, ev, mon):
        m = self.m
        g = self.granted_unresumed()
        if g < 0:
            bad("conservation", self.CLS, "waiter-count", f"waiters={m.waiters} but only {len(self.blockedq)} requests are blocked")
        h = int(self.holder is not None)
        if h + g > 1:
            bad("over-admit", self.CLS, "two-grants", f"holder={self.holder} and {g} hand-off(s) outstanding")
        if m.is_locked != bool(h + g):
            bad("conservation", self.CLS, "locked-flag" + ("-leak" if m.is_locked else "-free-while-held"),
                f"is_locked={m.is_locked} but holder={self.holder}, hand-offs={g}")
        if m.waiters > 0 and not m.is_locked:
            bad("head-waiter-served", self.CLS, "waiting-on-free-lock", f"{m.waiters} waiters while the lock is free")
        self.states.add(f"mx:{h}:{g}:{min(m.waiters, 4)}")

    def eoi(self):
        if self.granted_unresumed() > 0:
            bad("served-eventually", self.CLS, "woken-not-resumed", "a waiter was handed the lock but did not resume within the instant")

    def final(self):
        self.eoi()
        if self.blockedq:
            bad("served-eventually", self.CLS, "waiter-left-at-quiescence", f"{len(self.blockedq)} waiter(s) never served; holder={self.holder}")
        if self.m.is_locked or self.holder is not None:
            bad("conservation", self.CLS, "leak-at-quiescence", "all processes finished but the mutex is still locked")


# =========================================================================
# Semaphore
# =========================================================================

class SemaphoreFam(SyncFam):
    CLS = "Semaphore"

    def build(self):
        from happysimulator.components.sync import Semaphore

        cap = int(self.cfg["capacity"])
        if cap < 1:
            raise InvalidScenario("capacity")
        self.cap = cap
        self.s = Semaphore("sem", cap)
        self.held = 0
        self._init_sync()
        return [self.s]

    def waiters_of(self):
        return self.s.waiters

    def _take(self, w, n, how):
        self.held += n
        self.note(w.idx, "grant", n)
        if self.held > self.cap:
            bad("over-admit", self.CLS, how, f"holder log: {self.held} permits outstanding > capacity {self.cap}")

    def process(self, w):
        s = self.s
        mine: list[int] = []
        for op in w.ops:
            k = op.get("op")
            if k == "hold":
                yield from self.hold(w, op["ns"])
            elif k == "acq":
                n = int(op["a"])
                if not (1 <= n <= self.cap):
                    raise InvalidScenario("count")
                w.cur = "acquire"
                self.counters["op.acquire"] += 1
                r = Req(self.rid(), w.idx, "acquire", n)
                av0, q0 = s.available, s.waiters
                yield from self.acquire_via(w, r, s.acquire(n), lambda n=n: self._take(w, n, "acquire"))
                if not r.blocked and q0:
                    self.probe("barging")
                if not r.blocked and av0 < n:
                    bad("over-admit", self.CLS, "acquire-immediate", f"acquire({n}) granted immediately with available={av0}")
                mine.append(n)
            elif k == "try":
                n = int(op["a"])
                w.cur = "try_acquire"
                self.counters["op.try"] += 1
                av0 = s.available
                if s.try_acquire(n):
                    if av0 < n:
                        bad("over-admit", self.CLS, "try_acquire", f"try_acquire({n}) with available={av0}")
                    self._take(w, n, "try_acquire")
                    mine.append(n)
                else:
                    self.probe("try_refused")
            elif k == "rel" and mine:
                w.cur = "release"
                n = mine.pop(0)
                if op.get("split") and n > 1:
                    self.probe("split_release")
                    self._release(w, 1)
                    self._release(w, n - 1)
                else:
                    self._release(w, n)
            elif k == "overrel":
                # releasing more than is outstanding must be refused and change nothing
                if self.held == 0 and self.granted_unresumed() == 0 and s.available == self.cap:
                    self.probe("over_release_refused")
                    try:
                        s.release(1)
                    except ValueError:
                        pass
                    if s.available > self.cap:
                        bad("release-capped", self.CLS, "release-above-capacity", f"available={s.available} > capacity {self.cap}")
        while mine:
            w.cur = "release"
            self._release(w, mine.pop(0))

    def _release(self, w, n):
        self.held -= n
        self.note(w.idx, "release", n)
        q0 = self.s.waiters
        self.s.release(n)
        self.counters["op.release"] += 1
        woke = q0 - self.s.waiters
        if woke:
            self.note_release_woke(w)
        if woke > 1:
            self.probe("release_woke_several")

    def after(self, ev, mon):
        s = self.s
        g = self.granted_unresumed()
        if g < 0:
            bad("conservation", self.CLS, "waiter-count", f"waiters={s.waiters} but only {len(self.blockedq)} requests are blocked")
        handed = sum(r.amount for r in self.blockedq[:g])
        out = self.held + handed
        av = s.available
        if out > self.cap:
            bad("over-admit", self.CLS, "outstanding-exceeds-capacity", f"{out} permits outstanding > capacity {self.cap}")
        if av < 0 or av > self.cap:
            bad("release-capped", self.CLS, "available-out-of-range", f"available={av} capacity={self.cap}")
        if out + av != self.cap:
            bad("conservation", self.CLS, "held-plus-available" + ("-high" if out + av > self.cap else "-low"),
                f"held {self.held} + handed-off {handed} + available {av} != capacity {self.cap}")
        if s.waiters > 0:
            head = self.blockedq[g]
            if head.amount <= av:
                bad("head-waiter-served", self.CLS, "head-fits", f"head waiter needs {head.amount}, available {av}")
            if any(x.amount <= av for x in self.blockedq[g + 1:]):
                self.probe("strict_fifo_head_blocks_smaller")
        self.states.add(f"sem:{min(s.waiters, 4)}:{'full' if av == 0 else 'part' if av < self.cap else 'free'}:{min(g, 2)}")

    def eoi(self):
        if self.granted_unresumed() > 0:
            bad("served-eventually", self.CLS, "woken-not-resumed", "a waiter was granted permits but did not resume within the instant")

    def final(self):
        self.eoi()
        if self.blockedq:
            # every program acquires <= capacity once per cycle and always releases: no deadlock is possible
            bad("served-eventually", self.CLS, "waiter-left-at-quiescence", f"{len(self.blockedq)} waiter(s) never served, available={self.s.available}")
        if self.held or self.s.available != self.cap:
            bad("conservation", self.CLS, "leak-at-quiescence", f"all processes done, available={self.s.available}/{self.cap}")


# =========================================================================
# RWLock
# =========================================================================

class RWLockFam(SyncFam):
    CLS = "RWLock"

    def build(self):
        from happysimulator.components.sync import RWLock

        mr = self.cfg.get("max_readers")
        if mr is not None and mr < 1:
            raise InvalidScenario("max_readers")
        self.mr = mr
        self.l = RWLock("rw", max_readers=mr)
        self.readers: list[int] = []
        self.writer = None
        self._init_sync()
        return [self.l]

    def waiters_of(self):
        return self.l.waiters

    def _take_r(self, w, how):
        if self.writer is not None:
            bad("over-admit", self.CLS, f"reader-with-writer/{how}", f"reader {w.idx} admitted while writer {self.writer} holds the lock")
        self.readers.append(w.idx)
        if self.mr is not None and len(self.readers) > self.mr:
            bad("over-admit", self.CLS, f"max-readers/{how}", f"{len(self.readers)} readers > max_readers {self.mr}")
        if len(self.readers) > 1:
            self.probe("readers_overlap")
        self.note(w.idx, "grant-r")

    def _take_w(self, w, how):
        if self.writer is not None:
            bad("over-admit", self.CLS, f"two-writers/{how}", f"writer {w.idx} admitted while writer {self.writer} holds the lock")
        if self.readers:
            bad("over-admit", self.CLS, f"writer-with-readers/{how}", f"writer {w.idx} admitted while readers {self.readers} hold the lock")
        self.writer = w.idx
        self.note(w.idx, "grant-w")

    def process(self, w):
        l = self.l
        mode = None
        for op in w.ops:
            k = op.get("op")
            if k == "hold":
                yield from self.hold(w, op["ns"])
            elif k == "rd" and mode is None:
                w.cur = "acquire_read"
                self.counters["op.acquire_read"] += 1
                r = Req(self.rid(), w.idx, "reader")
                yield from self.acquire_via(w, r, l.acquire_read(), lambda: self._take_r(w, "acquire_read"))
                if r.blocked and self.mr is not None:
                    self.probe("reader_blocked")
                mode = "r"
            elif k == "wr" and mode is None:
                w.cur = "acquire_write"
                self.counters["op.acquire_write"] += 1
                r = Req(self.rid(), w.idx, "writer")
                yield from self.acquire_via(w, r, l.acquire_write(), lambda: self._take_w(w, "acquire_write"))
                if r.blocked and self.now_ns() > r.t_req:
                    self.probe("writer_granted_after_waiting_across_time")
                mode = "w"
            elif k == "tryrd" and mode is None:
                w.cur = "try_acquire_read"
                self.counters["op.try"] += 1
                if l.try_acquire_read():
                    self._take_r(w, "try_acquire_read")
                    mode = "r"
                else:
                    self.probe("try_refused")
            elif k == "trywr" and mode is None:
                w.cur = "try_acquire_write"
                self.counters["op.try"] += 1
                if l.try_acquire_write():
                    self._take_w(w, "try_acquire_write")
                    mode = "w"
                else:
                    self.probe("try_refused")
            elif k == "rel" and mode is not None:
                w.cur = "release"
                self._release(w, mode)
                mode = None
        if mode is not None:
            w.cur = "release"
            self._release(w, mode)

    def _release(self, w, mode):
        q0 = self.l.waiters
        if mode == "r":
            self.readers.remove(w.idx)
            self.note(w.idx, "release-r")
            self.l.release_read()
        else:
            self.writer = None
            self.note(w.idx, "release-w")
            self.l.release_write()
        self.counters["op.release"] += 1
        woke = q0 - self.l.waiters
        if woke:
            self.note_release_woke(w)
        if woke > 1:
            self.probe("release_woke_reader_batch")

    def after(self, ev, mon):
        l = self.l
        g = self.granted_unresumed()
        if g < 0:
            bad("conservation", self.CLS, "waiter-count", f"waiters={l.waiters} but only {len(self.blockedq)} requests are blocked")
        gr = sum(1 for r in self.blockedq[:g] if r.kind == "reader")
        gw = g - gr
        nr = len(self.readers) + gr
        nw = int(self.writer is not None) + gw
        if nw > 1:
            bad("over-admit", self.CLS, "two-writers", f"writer={self.writer}, {gw} writer hand-off(s)")
        if nw and nr:
            bad("over-admit", self.CLS, "writer-with-readers", f"writers={nw} readers={nr}")
        if self.mr is not None and nr > self.mr:
            bad("over-admit", self.CLS, "max-readers", f"{nr} readers > max_readers {self.mr}")
        if l.active_readers != nr:
            bad("conservation", self.CLS, "active-readers" + ("-leak" if l.active_readers > nr else "-low"),
                f"active_readers={l.active_readers} but holder log has {len(self.readers)} readers + {gr} hand-offs")
        if l.is_write_locked != bool(nw):
            bad("conservation", self.CLS, "write-locked-flag" + ("-leak" if l.is_write_locked else "-low"),
                f"is_write_locked={l.is_write_locked} but writer={self.writer}, hand-offs={gw}")
        if l.waiters > 0:
            head = self.blockedq[g]
            if head.kind == "writer":
                if not (l.is_write_locked or l.active_readers > 0):
                    bad("head-waiter-served", self.CLS, "writer-waits-on-free-lock", "head waiter is a writer and the lock is free")
                self.probe("writer_waits_behind_readers" if l.active_readers else "writer_waits_behind_writer")
                if any(x.kind == "reader" for x in self.blockedq[g + 1:]) and not l.is_write_locked:
                    self.probe("reader_queued_behind_waiting_writer")
            else:
                full = self.mr is not None and l.active_readers >= self.mr
                if full and not l.is_write_locked:
                    self.probe("reader_wake_capped_by_max_readers")
                if not (l.is_write_locked or full):
                    bad("head-waiter-served", self.CLS, "reader-waits-on-readable-lock",
                        f"head waiter is a reader, no writer holds the lock, active_readers={l.active_readers}, max={self.mr}")
        self.states.add(f"rw:{min(nr, 3)}:{nw}:{min(l.waiters, 4)}:{min(g, 2)}")

    def eoi(self):
        if self.granted_unresumed() > 0:
            bad("served-eventually", self.CLS, "woken-not-resumed", "a waiter was granted the lock but did not resume within the instant")

    def final(self):
        self.eoi()
        if self.blockedq:
            bad("served-eventually", self.CLS, "waiter-left-at-quiescence", f"{len(self.blockedq)} waiter(s) never served")
        if self.l.active_readers or self.l.is_write_locked:
            bad("conservation", self.CLS, "leak-at-quiescence", "all processes finished but the lock is still held")


# =========================================================================
# Barrier
# =========================================================================

class BarrierFam(Family):
    """wait() in generated rounds, plus the maintenance methods reset()/abort() at generated instants (also while
    parties wait), followed by continued use.

    Model of what the docstrings promise, weaker reading where they are silent: a round forms from `parties`
    consecutive wait() calls made while the barrier is not broken; reset()/abort() abandon the forming round: its
    waiting parties come back within the instant (either by RuntimeError or by returning - both accepted), they do
    not count for any later round; after abort() every wait() raises RuntimeError until reset(); reset() makes the
    barrier usable again with an empty round.
    """

    CLS = "Barrier"

    def build(self):
        from happysimulator.components.sync import Barrier

        n = int(self.cfg["parties"])
        if n < 1:
            raise InvalidScenario("parties")
        self.n = n
        self.b = Barrier("barrier", n)
        self.passed = 0
        self.trips = 0
        self.bumps = 0             # generation increments expected (trips + resets)
        self.cur_gen: list[dict] = []   # records of parties waiting in the forming round
        self.released = 0          # released by a trip / reset / abort, not yet resumed
        self.broken = False
        return [self.b]

    def _abandon(self, how):
        for rec in self.cur_gen:
            rec["abandoned"] = how
        if self.cur_gen:
            self.probe(f"barrier_{how}_with_waiters")
        self.released += len(self.cur_gen)
        self.cur_gen = []

    def process(self, w):
        b = self.b
        for op in w.ops:
            k = op.get("op")
            if k == "hold":
                yield from self.hold(w, op["ns"])
            elif k == "reset":
                w.cur = "reset"
                self.counters["op.reset"] += 1
                self._abandon("reset")
                b.reset()
                self.broken = False
                self.bumps += 1
                if b.waiting != 0 or b.broken:
                    bad("maintenance", self.CLS, "reset-left-state", f"after reset(): waiting={b.waiting} broken={b.broken}")
            elif k == "abort":
                w.cur = "abort"
                self.counters["op.abort"] += 1
                self._abandon("abort")
                b.abort()
                self.broken = True
                if b.waiting != 0 or not b.broken:
                    bad("maintenance", self.CLS, "abort-left-state", f"after abort(): waiting={b.waiting} broken={b.broken}")
            elif k == "wait":
                w.cur = "wait"
                self.counters["op.wait"] += 1
                rec = {"w": w.idx, "tripped": False, "abandoned": None, "finished": None}
                t0 = self.now_ns()
                was_broken = self.broken

                def first(finished, rec=rec):
                    rec["finished"] = finished
                    self.note(w.idx, "arrive")
                    if self.broken:
                        bad("maintenance", self.CLS, "wait-on-aborted-barrier",
                            "wait() on an aborted barrier did not raise" + (" and returned at once" if finished else " and queued the caller"))
                    if finished:
                        # last party: trips the barrier
                        if len(self.cur_gen) + 1 < self.n:
                            bad("over-admit", self.CLS, "passed-before-all-arrived",
                                f"wait() returned at once with only {len(self.cur_gen) + 1} of {self.n} parties in this round")
                        self.trips += 1
                        self.bumps += 1
                        for r2 in self.cur_gen:
                            r2["tripped"] = True
                        self.released += len(self.cur_gen)
                        self.cur_gen = []
                        self.probe("tripped")
                        if self.bumps > self.trips:
                            self.probe("barrier_tripped_after_reset")
                        if self.trips >= 3:
                            self.probe("barrier_generations_ge_3")
                        if len(self.workers) > self.n > 1:
                            self.probe("barrier_more_workers_than_parties")
                    else:
                        if len(self.cur_gen) + 1 >= self.n:
                            bad("head-waiter-served", self.CLS, "last-party-blocked",
                                f"party {len(self.cur_gen) + 1} of {self.n} arrived but was made to wait")
                        self.cur_gen.append(rec)
                        self.max_blocked = max(self.max_blocked, len(self.cur_gen))

                try:
                    yield from drive(b.wait(), first)
                except RuntimeError:
                    if rec["finished"] is None:
                        # raised at the call
                        if not was_broken:
                            bad("maintenance", self.CLS, "wait-raised-on-healthy-barrier", "wait() raised RuntimeError although the barrier is not broken")
                        self.probe("wait_on_aborted_raised")
                        continue
                    if not rec["abandoned"]:
                        bad("maintenance", self.CLS, "waiter-raised-without-reset", "a waiting party got RuntimeError without reset()/abort()")
                    self.released -= 1
                    self.probe("abandoned_party_raised")
                    continue
                self.passed += 1
                self.note(w.idx, "pass")
                if not rec["finished"]:
                    if not rec["tripped"] and not rec["abandoned"]:
                        bad("over-admit", self.CLS, "released-before-trip",
                            f"worker {w.idx} passed the barrier although its round has only {len(self.cur_gen)} of {self.n} parties")
                    self.released -= 1
                    if self.released < 0:
                        bad("granted-once", self.CLS, "released-more-than-waiting", "more parties came back than were released")
                    if rec["abandoned"]:
                        self.probe("abandoned_party_returned_normally")
                    else:
                        if self.now_ns() > t0:
                            self.probe("waited_across_time")
                        self.probe("blocked_then_granted")

    def after(self, ev, mon):
        b = self.b
        if b.waiting != len(self.cur_gen):
            bad("conservation", self.CLS, "waiting-count", f"waiting={b.waiting} but {len(self.cur_gen)} parties wait in the forming round")
        if b.generation != self.bumps:
            bad("conservation", self.CLS, "generation", f"generation={b.generation} after {self.trips} trips and {self.bumps - self.trips} resets")
        if b.broken != self.broken:
            bad("conservation", self.CLS, "broken-flag", f"broken={b.broken}, expected {self.broken}")
        self.states.add(f"bar:{min(len(self.cur_gen), 4)}:{min(self.released, 3)}:{min(self.trips, 3)}:{int(self.broken)}:{min(self.bumps - self.trips, 2)}")

    def eoi(self):
        if self.released > 0:
            bad("served-eventually", self.CLS, "released-not-resumed", f"{self.released} released parties did not come back within the instant")

    def final(self):
        self.eoi()
        if self.cur_gen:
            self.probe("incomplete_generation_left")


# =========================================================================
# Condition (+ its Mutex)
# =========================================================================

class ConditionFam(Family):
    CLS = "Condition"

    def build(self):
        from happysimulator.components.sync import Condition, Mutex

        self.m = Mutex("cmutex")
        self.c = Condition("cond", self.m)
        self.items = 0
        self.holder = None
        self.cond_order: list[int] = []   # wait() ordinals still inside wait()
        self.n_wait = 0                  # wait() calls so far
        self.woken = 0                   # sum of waiters removed by notify/notify_all
        self.returned: set[int] = set()
        return [self.c, self.m]

    def _enter(self, w, how):
        if self.holder is not None:
            bad("over-admit", "Mutex", how, f"worker {w.idx} holds the condition's mutex together with worker {self.holder}")
        self.holder = w.idx
        self.note(w.idx, "grant")

    def _leave(self, w):
        self.holder = None
        self.note(w.idx, "release")

    def _lock(self, w):
        w.cur = "acquire"
        yield from drive(self.m.acquire(owner=w.name), lambda fin: None)
        self._enter(w, "acquire")

    def process(self, w):
        m, c = self.m, self.c
        for op in w.ops:
            k = op.get("op")
            if k == "hold":
                yield from self.hold(w, op["ns"])
            elif k == "consume":
                self.counters["op.consume"] += 1
                yield from self._lock(w)
                rounds = 0
                while self.items <= 0 and rounds < int(op.get("max_waits", 3)):
                    rounds += 1
                    if rounds >= 2:
                        self.probe("condition_wait_rounds_ge_2")
                    w.cur = "wait"
                    ordinal = self.n_wait
                    self.n_wait += 1
                    q0 = c.waiters
                    t0 = self.now_ns()

                    def first(fin, ordinal=ordinal, q0=q0):
                        # wait() released the mutex on our behalf and queued us on the condition
                        self._leave(w)
                        if fin or c.waiters != q0 + 1:
                            bad("conservation", self.CLS, "wait-not-queued", f"wait() did not queue the caller (waiters {q0} -> {c.waiters})")
                        self.cond_order.append(ordinal)
                        self.max_blocked = max(self.max_blocked, c.waiters)

                    yield from drive(c.wait(), first)
                    # back from wait(): we must have been notified and we hold the mutex again
                    if ordinal >= self.woken:
                        bad("granted-once", self.CLS, "returned-without-notify",
                            f"wait() #{ordinal} returned although only {self.woken} waiters were ever notified (FIFO)")
                    self.cond_order.remove(ordinal)
                    self._enter(w, "reacquire-after-wait")
                    self.probe("blocked_then_granted")
                    if self.now_ns() > t0:
                        self.probe("waited_across_time")
                if self.items > 0:
                    self.items -= 1
                    self.probe("consumed")
                w.cur = "release"
                self._leave(w)
                m.release()
            elif k == "produce":
                self.counters["op.produce"] += 1
                yield from self._lock(w)
                self.items += int(op.get("n", 1))
                q0 = c.waiters
                if op.get("all"):
                    c.notify_all()
                    want = 0
                    self.probe("notify_all")
                else:
                    nn = int(op.get("notify", 1))
                    c.notify(nn)
                    want = max(0, q0 - nn)
                if c.waiters != want:
                    bad("fifo", self.CLS, "notify-count", f"notify left {c.waiters} waiters, expected {want} (had {q0})")
                self.woken += q0 - c.waiters
                if q0 - c.waiters:
                    self.probe("release_woke_waiter")
                else:
                    self.probe("notify_without_waiters")
                if q0 - c.waiters >= 2:
                    self.probe("notify_woke_several")
                if op.get("hold_ns"):
                    yield from self.hold(w, op["hold_ns"])
                w.cur = "release"
                self._leave(w)
                m.release()

    def after(self, ev, mon):
        m, c = self.m, self.c
        inside = len(self.cond_order)
        notified_inside = sum(1 for o in self.cond_order if o < self.woken)
        if c.waiters != inside - notified_inside:
            bad("conservation", self.CLS, "waiter-count", f"cond.waiters={c.waiters}, inside wait()={inside}, notified={notified_inside}")
        if self.holder is not None and not m.is_locked:
            bad("conservation", "Mutex", "locked-flag-free-while-held", f"worker {self.holder} is in the critical section, is_locked=False")
        if m.waiters > 0 and not m.is_locked:
            bad("head-waiter-served", "Mutex", "waiting-on-free-lock", f"{m.waiters} waiters while the condition's mutex is free")
        if notified_inside >= 2 and m.waiters >= 1:
            self.probe("woken_waiters_contend_for_mutex")
        self.states.add(f"cv:{min(c.waiters, 3)}:{min(m.waiters, 3)}:{int(m.is_locked)}:{min(self.items, 2)}")

    def eoi(self):
        # everybody who was notified comes back once the mutex is free; the mutex cannot stay
        # locked without a holder across an instant boundary
        if self.m.is_locked and self.holder is None:
            bad("conservation", "Mutex", "locked-flag-leak", "condition's mutex locked at end of instant with no holder")

    def final(self):
        notified_inside = [o for o in self.cond_order if o < self.woken]
        if notified_inside:
            bad("served-eventually", self.CLS, "notified-never-returned", f"wait() calls {notified_inside} were notified but never returned")
        if self.m.is_locked:
            bad("conservation", "Mutex", "leak-at-quiescence", "condition's mutex still locked at quiescence")
        if self.cond_order:
            self.probe("unnotified_waiter_left")


# =========================================================================
# ConnectionPool
# =========================================================================

class _Sink(Entity):
    def handle_event(self, event):
        return None


class PoolFam(SyncFam):
    CLS = "ConnectionPool"

    def build(self):
        from happysimulator.components.client.connection_pool import ConnectionPool
        from happysimulator.distributions.constant import ConstantLatency

        c = self.cfg
        self.maxc = int(c["max"])
        self.minc = int(c.get("min", 0))
        self.timeout_ns = int(c["timeout_ns"])
        self.idle_ns = int(c["idle_ns"])
        self.setup_ns = int(c["setup_ns"])
        if self.maxc < 1 or self.minc < 0 or self.minc > self.maxc or self.timeout_ns <= 0 or self.idle_ns <= 0 or self.setup_ns < 0:
            raise InvalidScenario("pool cfg")
        self.sink = _Sink("backend")
        self.p = ConnectionPool(
            "pool", target=self.sink, min_connections=self.minc, max_connections=self.maxc,
            connection_timeout=secs(self.timeout_ns), idle_timeout=secs(self.idle_ns),
            connection_latency=ConstantLatency(secs(self.setup_ns)),
        )
        self.poll_ns = int(min(0.1, secs(self.timeout_ns) / 10) * 1e9)
        self.held: dict[int, int] = {}     # connection id -> worker
        self.creating = 0
        self.prev_total = 0
        self.prev_closed = 0
        self.setup_overlap = False          # a connection set-up began while another one was in flight
        self.prev_pending = 0
        self.worker_touched_queue = False   # a worker released or timed out during the current delivery
        self.stale_ids: set[int] = set()    # connections closed by close_all() while somebody still had them
        self.closed_all_now = False
        self._init_sync()
        return [self.p, self.sink]

    def extra_events(self):
        if self.cfg.get("warmup"):
            ev = self.p.warmup()
            return [ev]
        return []

    def waiters_of(self):
        return self.p.pending_requests

    def process(self, w):
        p = self.p
        conn = None
        for op in w.ops:
            k = op.get("op")
            if k == "hold":
                yield from self.hold(w, op["ns"])
            elif k == "acq" and conn is None:
                w.cur = "acquire"
                self.counters["op.acquire"] += 1
                r = Req(self.rid(), w.idx, "acquire")
                st = {}
                t0 = self.now_ns()
                w0 = p.pending_requests

                def first(fin, r=r, st=st, w0=w0):
                    st["fin"] = fin
                    r.t_req = self.now_ns()
                    if fin:
                        self.probe("reused_idle")
                        return
                    r.blocked = p.pending_requests == w0 + 1
                    if r.blocked:
                        self.counters["blocked"] += 1
                        self.blockedq.append(r)
                        self.max_blocked = max(self.max_blocked, p.pending_requests)
                        if self.creating:
                            self.probe("arrival_blocked_during_setup")
                    else:
                        st["creating"] = True
                        if self.creating:
                            self.probe("arrival_during_setup")
                        if self.creating or (self.cfg.get("warmup") and self.now_ns() <= self.minc * self.setup_ns):
                            self.setup_overlap = True
                        self.creating += 1

                try:
                    conn = yield from drive(p.acquire(), first)
                except TimeoutError:
                    if r.extra == "closed":
                        # close_all() told this waiter that no connection will come
                        self.probe("waiter_released_by_close_all")
                        self.worker_touched_queue = True
                        conn = None
                        continue
                    if not r.blocked:
                        bad("served-eventually", self.CLS, "timeout-without-waiting", "TimeoutError for a request that never queued")
                    waited = self.now_ns() - t0
                    self.blockedq.remove(r)
                    self.worker_touched_queue = True
                    self.probe("timeout")
                    if waited < self.timeout_ns - 1000:
                        bad("served-eventually", self.CLS, "timeout-early", f"timed out after {waited}ns < connection_timeout {self.timeout_ns}ns")
                    if waited > self.timeout_ns + 2 * self.poll_ns + 1000:
                        bad("served-eventually", self.CLS, "timeout-late", f"timed out after {waited}ns, timeout {self.timeout_ns}ns, poll {self.poll_ns}ns")
                    conn = None
                    continue
                if st.get("creating"):
                    self.creating -= 1
                    self.probe("created")
                if r.extra == "closed":
                    # handed a connection before close_all(), which then closed it: the holder has a dead handle
                    if conn is not None:
                        self.stale_ids.add(conn.id)
                    continue_stale = True
                else:
                    continue_stale = False
                if continue_stale:
                    continue
                if r.blocked:
                    self.on_resume_blocked(r)
                    self.probe("handoff")
                if conn is None or conn.id in self.held:
                    bad("over-admit", self.CLS, "connection-shared",
                        f"worker {w.idx} received connection {getattr(conn, 'id', None)} which worker {self.held.get(getattr(conn, 'id', None))} still holds")
                self.held[conn.id] = w.idx
                self.note(w.idx, "grant", conn.id)
            elif k == "rel" and conn is not None:
                w.cur = "release"
                evs = self._release(w, conn)
                conn = None
                if evs:
                    yield 0.0, evs
            elif k == "close_all":
                w.cur = "close_all"
                self.counters["op.close_all"] += 1
                self.probe("close_all")
                if self.held:
                    self.probe("close_all_with_active_connections")
                if self.blockedq:
                    self.probe("close_all_with_waiters")
                self.stale_ids |= set(self.held)
                self.held = {}
                for r_ in self.blockedq:
                    r_.extra = "closed"
                self.blockedq = []
                p.close_all()
                self.closed_all_now = True
                self.worker_touched_queue = True
                if p.active_connections or p.idle_connections or p.pending_requests:
                    bad("maintenance", self.CLS, "close-all-left-state",
                        f"after close_all(): active={p.active_connections} idle={p.idle_connections} pending={p.pending_requests}")
        if conn is not None:
            w.cur = "release"
            evs = self._release(w, conn)
            if evs:
                yield 0.0, evs

    def _release(self, w, conn):
        if conn.id not in self.held:
            # the connection was closed by close_all() under its holder: releasing it must change nothing
            p = self.p
            before = (p.total_connections, p.active_connections, p.idle_connections, p.pending_requests)
            evs = p.release(conn)
            self.probe("release_of_closed_connection")
            now = (p.total_connections, p.active_connections, p.idle_connections, p.pending_requests)
            if now != before or evs:
                bad("maintenance", self.CLS, "release-of-closed-connection", f"release() of a connection closed by close_all() changed the pool {before} -> {now}")
            return []
        del self.held[conn.id]
        self.note(w.idx, "release", conn.id)
        q0 = self.p.pending_requests
        evs = self.p.release(conn)
        self.worker_touched_queue = True
        self.counters["op.release"] += 1
        if q0:
            self.probe("release_woke_waiter")
            if self.p.pending_requests != q0 - 1:
                bad("fifo", self.CLS, "release-handoff-count", f"release with {q0} waiters left {self.p.pending_requests}")
        return evs

    def after(self, ev, mon):
        p = self.p
        tot, act, idle = p.total_connections, p.active_connections, p.idle_connections
        if tot > self.maxc:
            bad("over-admit", self.CLS, "total-exceeds-max" + ("-after-overlapping-setups" if self.setup_overlap else ""),
                f"total_connections={tot} > max_connections={self.maxc} (active={act}, idle={idle}); "
                f"set-up latency {self.setup_ns}ns" + (", acquirers arrived while a set-up was in flight" if self.setup_overlap else ""))
        if act > self.maxc or len(self.held) > self.maxc:
            bad("over-admit", self.CLS, "active-exceeds-max", f"active={act}, {len(self.held)} holders > max={self.maxc}")
        g = self.granted_unresumed()
        if g < 0:
            bad("conservation", self.CLS, "waiter-count", f"pending_requests={p.pending_requests} but {len(self.blockedq)} blocked")
        if act != len(self.held) + g:
            bad("conservation", self.CLS, "active-count" + ("-leak" if act > len(self.held) + g else "-low"),
                f"active={act} but {len(self.held)} held + {g} handed off")
        # a connection being established may or may not be counted in total_connections (both readings are accepted)
        in_setup = self.creating + (1 if self.cfg.get("warmup") else 0)
        if not (act + idle <= tot <= act + idle + in_setup):
            bad("conservation", self.CLS, "total-vs-active-idle" + ("-high" if tot > act + idle else "-low"),
                f"total={tot} active={act} idle={idle} set-ups in flight<={in_setup}")
        if p.pending_requests > 0 and idle > 0:
            bad("head-waiter-served", self.CLS, "waiting-with-idle-connection", f"{p.pending_requests} waiters, {idle} idle connections")
        closed = p.stats.connections_closed
        if closed > self.prev_closed and self.closed_all_now:
            pass
        elif closed > self.prev_closed:
            self.probe("idle_expired")
            if self.prev_total - (closed - self.prev_closed) < self.minc:
                bad("conservation", self.CLS, "closed-below-min", f"closed a connection with total={self.prev_total}, min={self.minc}")
        self.prev_total, self.prev_closed = tot, closed
        if p.pending_requests < self.prev_pending and not self.worker_touched_queue:
            self.probe("warmup_handed_connection_to_waiter")
        self.prev_pending = p.pending_requests
        self.worker_touched_queue = False
        self.closed_all_now = False
        self.states.add(f"pool:{min(act, 3)}:{min(idle, 3)}:{min(p.pending_requests, 3)}:{min(self.creating, 3)}:{min(g, 2)}")

    def final(self):
        p = self.p
        if self.blockedq or self.held or p.active_connections or p.pending_requests:
            bad("conservation", self.CLS, "leak-at-quiescence",
                f"end of run: held={len(self.held)} active={p.active_connections} pending={p.pending_requests} blocked={len(self.blockedq)}")
        if p.total_connections != p.idle_connections:
            bad("conservation", self.CLS, "total-vs-active-idle-at-quiescence", f"end of run: total={p.total_connections} idle={p.idle_connections}")
        if p.total_connections > max(self.minc, 0) and not self.cfg.get("short_end"):
            bad("conservation", self.CLS, "idle-not-expired", f"end of run: total={p.total_connections} idle connections never expired (min={self.minc})")


# =========================================================================
# Bulkhead
# =========================================================================

class _Service(Entity):
    def __init__(self, name, fam):
        super().__init__(name)
        self.fam = fam

    def handle_event(self, event):
        return self.fam.serve(event)


class BulkheadFam(Family):
    CLS = "Bulkhead"

    def build(self):
        from happysimulator.components.resilience.bulkhead import Bulkhead

        c = self.cfg
        self.maxc = int(c["max"])
        self.maxq = int(c.get("queue", 0))
        self.wait_ns = c.get("wait_ns")
        if self.maxc < 1 or self.maxq < 0 or (self.wait_ns is not None and self.wait_ns <= 0):
            raise InvalidScenario("bulkhead cfg")
        self.svc = _Service("svc", self)
        self.bh = Bulkhead("bh", self.svc, max_concurrent=self.maxc, max_wait_queue=self.maxq,
                           max_wait_time=None if self.wait_ns is None else secs(self.wait_ns))
        self.in_service: dict[int, int] = {}
        self.started: set[int] = set()
        self.finished = 0
        self.fate: dict[int, str] = {}       # id -> forwarded/queued/rejected
        self.queued_order: list[int] = []    # ids queued, not yet started / timed out
        self.t_arr: dict[int, int] = {}
        self.prev = (0, 0, 0, 0)
        self.dequeued = 0                    # taken from the wait queue, forwarded event not yet delivered
        return [self.bh, self.svc]

    def make_workers(self):
        return []

    def extra_events(self):
        evs = []
        for i, rq in enumerate(self.sc["requests"]):
            if rq["t"] < 0 or rq["ns"] < 0:
                raise InvalidScenario("request")
            evs.append(Event(time=Instant(int(rq["t"])), event_type="req", target=self.bh,
                             context={"metadata": {"rid": i, "hold_ns": int(rq["ns"])}}))
        self.n_req = len(evs)
        return evs

    def serve(self, event):
        md = event.context.get("metadata", {})
        rid = md["rid"]
        if rid in self.started:
            bad("granted-once", self.CLS, "forwarded-twice", f"request {rid} reached the target twice")
        self.started.add(rid)
        self.in_service[rid] = self.now_ns()
        self.note(rid, "grant")
        if len(self.in_service) > self.maxc:
            bad("over-admit", self.CLS, "in-service-exceeds-max", f"{len(self.in_service)} requests in service, max_concurrent={self.maxc}")
        if self.fate.get(rid) == "queued":
            if not self.queued_order or self.queued_order[0] != rid:
                bad("fifo", self.CLS, "queued-overtaken", f"queued request {rid} started before earlier queued {self.queued_order[:3]}")
            self.queued_order.pop(0)
            self.dequeued -= 1
            self.probe("blocked_then_granted")
            waited = self.now_ns() - self.t_arr[rid]
            if waited > 0:
                self.probe("waited_across_time")
            if self.wait_ns is not None and waited > self.wait_ns:
                bad("served-eventually", self.CLS, "served-after-wait-timeout", f"request {rid} forwarded after waiting {waited}ns > max_wait_time {self.wait_ns}ns")
        yield secs(md["hold_ns"])
        del self.in_service[rid]
        self.finished += 1
        self.note(rid, "release")
        return None

    def after(self, ev, mon):
        bh = self.bh
        st = bh.stats
        cur = (st.accepted_requests, st.queued_requests, st.rejected_requests, st.timed_out_requests)
        if ev.target is bh and ev.event_type == "req":
            rid = ev.context.get("metadata", {}).get("rid")
            da, dq, dr = cur[0] - self.prev[0], cur[1] - self.prev[1], cur[2] - self.prev[2]
            if (da, dq, dr) == (1, 0, 0):
                self.fate[rid] = "forwarded"
            elif (da, dq, dr) == (0, 1, 0):
                self.fate[rid] = "queued"
                self.queued_order.append(rid)
                self.t_arr[rid] = self.now_ns()
                self.max_blocked = max(self.max_blocked, bh.queue_depth)
                self.counters["blocked"] += 1
            elif (da, dq, dr) == (0, 0, 1):
                self.fate[rid] = "rejected"
                self.probe("rejected")
            else:
                bad("conservation", self.CLS, "arrival-accounting", f"arrival {rid}: accepted/queued/rejected deltas {(da, dq, dr)}")
        elif cur[0] > self.prev[0]:
            self.dequeued += cur[0] - self.prev[0]
        if cur[3] > self.prev[3]:
            self.probe("timeout")
            # the timed-out request is the one whose deadline passed: drop from our queue view (front-most expired)
            now = self.now_ns()
            for _ in range(cur[3] - self.prev[3]):
                victim = None
                for rid in self.queued_order:
                    if self.wait_ns is not None and now - self.t_arr[rid] >= self.wait_ns:
                        victim = rid
                        break
                if victim is None:
                    bad("served-eventually", self.CLS, "timeout-early", "a queued request was timed out before max_wait_time")
                self.queued_order.remove(victim)
                self.fate[victim] = "timed_out"
        self.prev = cur
        act = bh.active_count
        if act > self.maxc:
            bad("over-admit", self.CLS, "active-exceeds-max", f"active_count={act} > max_concurrent={self.maxc}")
        if act < len(self.in_service):
            bad("conservation", self.CLS, "active-count-low", f"active_count={act} < {len(self.in_service)} in service")
        if bh.queue_depth > self.maxq:
            bad("over-admit", self.CLS, "queue-exceeds-max", f"queue_depth={bh.queue_depth} > max_wait_queue={self.maxq}")
        if bh.queue_depth != len(self.queued_order) - self.dequeued:
            bad("conservation", self.CLS, "queue-count",
                f"queue_depth={bh.queue_depth} but {len(self.queued_order)} requests wait ({self.dequeued} of them already forwarded)")
        if bh.queue_depth > 0 and act < self.maxc:
            bad("head-waiter-served", self.CLS, "queued-with-free-slot", f"{bh.queue_depth} queued while active_count={act} < {self.maxc}")
        if st.total_requests != cur[0] + cur[2] + cur[3] + bh.queue_depth:
            bad("conservation", self.CLS, "request-accounting",
                f"total={st.total_requests} accepted={cur[0]} rejected={cur[2]} timed_out={cur[3]} queued={bh.queue_depth}")
        if bh.available_permits != self.maxc - act:
            bad("conservation", self.CLS, "held-plus-available", f"available_permits={bh.available_permits} active={act} max={self.maxc}")
        self.states.add(f"bh:{min(act, 3)}:{min(bh.queue_depth, 3)}:{min(len(self.in_service), 3)}")

    def eoi(self):
        if self.bh.active_count != len(self.in_service):
            bad("conservation", self.CLS, "active-count-leak", f"end of instant: active_count={self.bh.active_count}, in service {len(self.in_service)}")

    def final(self):
        self.eoi()
        if self.in_service or self.bh.queue_depth or self.bh.active_count:
            bad("served-eventually", self.CLS, "left-at-quiescence",
                f"in_service={len(self.in_service)} queued={self.bh.queue_depth} active={self.bh.active_count}")
        acc = sum(1 for f in self.fate.values() if f in ("forwarded", "queued"))
        if self.finished != len(self.started) or len(self.started) != self.bh.stats.accepted_requests:
            bad("conservation", self.CLS, "accepted-vs-served", f"accepted={self.bh.stats.accepted_requests} started={len(self.started)} finished={self.finished}")
        if len(self.fate) != self.n_req:
            bad("conservation", self.CLS, "request-lost", f"{self.n_req} requests sent, {len(self.fate)} accounted")
        del acc


# =========================================================================
# ThreadPool
# =========================================================================

class ThreadPoolFam(Family):
    CLS = "ThreadPool"

    def build(self):
        from happysimulator.components.server.thread_pool import ThreadPool

        c = self.cfg
        self.nw = int(c["workers"])
        self.qcap = c.get("queue")
        if self.nw < 1 or (self.qcap is not None and self.qcap < 1):
            raise InvalidScenario("threadpool cfg")
        self.started: list[int] = []
        self.tp = ThreadPool("tp", num_workers=self.nw, queue_capacity=self.qcap,
                             processing_time_extractor=self._extract)
        self.strand_seen = False
        return [self.tp]

    def make_workers(self):
        return []

    def _extract(self, task):
        md = task.context.get("metadata", {})
        rid = md["rid"]
        if rid in self.started:
            bad("granted-once", self.CLS, "task-started-twice", f"task {rid} started twice")
        if self.started and self.rank[rid] < self.rank[self.started[-1]]:
            bad("fifo", self.CLS, "task-overtaken", f"task {rid} started after task {self.started[-1]} which arrived later")
        self.started.append(rid)
        self.note(rid, "grant")
        return secs(md["hold_ns"])

    def extra_events(self):
        evs = []
        for i, rq in enumerate(self.sc["requests"]):
            if rq["t"] < 0 or rq["ns"] < 0:
                raise InvalidScenario("request")
            evs.append(Event(time=Instant(int(rq["t"])), event_type="task", target=self.tp,
                             context={"metadata": {"rid": i, "hold_ns": int(rq["ns"])}}))
        self.n_req = len(evs)
        order = sorted(range(len(evs)), key=lambda i: (int(self.sc["requests"][i]["t"]), i))
        self.rank = {rid: k for k, rid in enumerate(order)}
        return evs

    def after(self, ev, mon):
        tp = self.tp
        act, idle = tp.active_workers, tp.idle_workers
        if act > self.nw:
            bad("over-admit", self.CLS, "active-exceeds-workers", f"active_workers={act} > num_workers={self.nw}")
        if act + idle != self.nw:
            bad("conservation", self.CLS, "held-plus-available", f"active={act} idle={idle} workers={self.nw}")
        running = len(self.started) - tp.stats.tasks_completed
        if running > self.nw:
            bad("over-admit", self.CLS, "running-exceeds-workers", f"{running} tasks running on {self.nw} workers")
        if running != act:
            bad("conservation", self.CLS, "active-count", f"active_workers={act} but {running} tasks are running")
        if self.qcap is not None and tp.queued_tasks > self.qcap:
            bad("over-admit", self.CLS, "queue-exceeds-capacity", f"queued={tp.queued_tasks} > {self.qcap}")
        if tp.queued_tasks:
            self.max_blocked = max(self.max_blocked, tp.queued_tasks)
        self.states.add(f"tp:{min(act, 3)}:{min(tp.queued_tasks, 3)}")

    def eoi(self):
        tp = self.tp
        if tp.queued_tasks > 0 and tp.idle_workers > 0:
            bad("head-waiter-served", self.CLS, "queued-while-worker-idle",
                f"end of instant: {tp.queued_tasks} tasks queued while {tp.idle_workers} of {self.nw} workers are idle")
        if tp.queued_tasks > 0:
            self.probe("waited_across_time")

    def final(self):
        tp = self.tp
        if tp.queued_tasks or tp.active_workers:
            bad("served-eventually", self.CLS, "left-at-quiescence", f"queued={tp.queued_tasks} active={tp.active_workers}")
        st = tp.stats
        dropped = tp.stats_dropped
        if dropped:
            self.probe("rejected")
        if st.tasks_rejected:
            self.probe("worker_acquire_failed")
        if st.tasks_completed + st.tasks_rejected + dropped != self.n_req:
            bad("conservation", self.CLS, "task-accounting",
                f"submitted={self.n_req} completed={st.tasks_completed} rejected={st.tasks_rejected} dropped={dropped}")
        if len(self.started) != st.tasks_completed:
            bad("conservation", self.CLS, "started-vs-completed", f"started={len(self.started)} completed={st.tasks_completed}")


# =========================================================================
# concurrency models (plain objects used by servers)
# =========================================================================

class ConcurrencyFam(Family):
    CLS = "Concurrency"

    def build(self):
        from happysimulator.components.server.concurrency import DynamicConcurrency, FixedConcurrency, WeightedConcurrency

        c = self.cfg
        kind = c["kind"]
        self.kind = kind
        lim = int(c["limit"])
        if lim < 1:
            raise InvalidScenario("limit")
        if kind == "fixed":
            self.cm = FixedConcurrency(lim)
        elif kind == "dynamic":
            self.lo, self.hi = int(c.get("lo", 1)), c.get("hi")
            if self.lo < 1 or lim < self.lo or (self.hi is not None and (self.hi < self.lo or lim > self.hi)):
                raise InvalidScenario("dynamic bounds")
            self.cm = DynamicConcurrency(lim, min_limit=self.lo, max_limit=self.hi)
        elif kind == "weighted":
            self.cm = WeightedConcurrency(lim)
        else:
            raise InvalidScenario("kind")
        self.CLS = type(self.cm).__name__
        self.limit = lim
        self.used = 0
        self.usedw = 0
        return []

    def process(self, w):
        cm = self.cm
        mine: list[int] = []
        for op in w.ops:
            k = op.get("op")
            if k == "hold":
                yield from self.hold(w, op["ns"])
            elif k == "acq":
                # every request carries a weight; Fixed/Dynamic document that they ignore it (one slot per request),
                # Weighted consumes it.  Both accountings are accepted for Fixed/Dynamic as long as they are consistent:
                # `used` counts slots by the documented unit, `usedw` by weight.
                wt = int(op.get("a", 1))
                if wt < 1:
                    raise InvalidScenario("weight")
                unit = wt if self.kind == "weighted" else 1
                if wt > 1:
                    self.probe("weighted_request")
                w.cur = "acquire"
                self.counters["op.acquire"] += 1
                room1 = self.used + unit <= self.limit
                roomw = self.usedw + wt <= self.limit
                hc = cm.has_capacity(wt)
                ok = cm.acquire(wt)
                if ok and not (room1 or roomw):
                    bad("over-admit", self.CLS, "acquire", f"acquire({wt}) succeeded with {self.used} slots / weight {self.usedw} of {self.limit} in use")
                if not ok and room1 and roomw:
                    bad("head-waiter-served", self.CLS, "refused-with-capacity", f"acquire({wt}) refused with {self.used} slots / weight {self.usedw} of {self.limit} in use")
                if hc != ok:
                    bad("conservation", self.CLS, "has-capacity", f"has_capacity({wt})={hc} but acquire({wt})={ok} with {self.used} of {self.limit} in use")
                if ok:
                    self.used += unit
                    self.usedw += wt
                    mine.append((unit, wt))
                    self.note(w.idx, "grant", wt)
                else:
                    self.probe("try_refused")
            elif k == "rel" and mine:
                unit, wt = mine.pop(0)
                w.cur = "release"
                self.counters["op.release"] += 1
                self.used -= unit
                self.usedw -= wt
                self.note(w.idx, "release", wt)
                cm.release(wt)
            elif k == "rel2" and not mine and self.used == 0:
                # a stray release with nothing outstanding must not create capacity
                self.probe("double_release")
                cm.release(1)
            elif k == "limit" and self.kind == "dynamic":
                new = int(op["to"])
                self.probe("limit_changed")
                how = op.get("how", "set")
                if how == "set":
                    cm.set_limit(new)
                    tgt = new
                elif how == "up":
                    cm.scale_up(new)
                    tgt = self.limit + new
                else:
                    cm.scale_down(new)
                    tgt = self.limit - new
                tgt = max(self.lo, tgt)
                if self.hi is not None:
                    tgt = min(self.hi, tgt)
                self.limit = tgt
                if self.used > self.limit:
                    self.probe("limit_below_active")
            self._check()
        while mine:
            unit, wt = mine.pop(0)
            self.used -= unit
            self.usedw -= wt
            cm.release(wt)
            self._check()

    def _check(self):
        cm = self.cm
        if cm.limit != self.limit:
            bad("conservation", self.CLS, "limit", f"limit={cm.limit}, expected {self.limit}")
        if cm.active not in (self.used, self.usedw):
            bad("conservation", self.CLS, "active" + ("-high" if cm.active > max(self.used, self.usedw) else "-low"),
                f"active={cm.active}, holder log says {self.used} requests of total weight {self.usedw}"
                + (" (nothing outstanding: everything must be free)" if self.usedw == 0 else ""))
        if cm.active <= self.limit:
            if cm.active + cm.available != cm.limit:
                bad("conservation", self.CLS, "held-plus-available", f"active={cm.active} available={cm.available} limit={cm.limit}")
        elif cm.available != 0:
            bad("over-admit", self.CLS, "available-while-over-limit", f"available={cm.available} with active={cm.active} > limit={cm.limit}")
        if cm.available < 0 or cm.available > cm.limit:
            bad("release-capped", self.CLS, "available-out-of-range", f"available={cm.available} limit={cm.limit}")

    def after(self, ev, mon):
        self._check()
        self.states.add(f"cc:{self.kind}:{'full' if self.used >= self.limit else 'part' if self.used else 'free'}")

    def final(self):
        if self.used != 0 or self.cm.active != 0:
            bad("conservation", self.CLS, "leak-at-quiescence", f"active={self.cm.active} at quiescence")


# =========================================================================
# PreemptibleResource
# =========================================================================

class PreemptFam(Family):
    CLS = "PreemptibleResource"

    def build(self):
        from happysimulator.components.industrial.preemptible_resource import PreemptibleResource

        cap = int(self.cfg["capacity"])
        if cap < 1:
            raise InvalidScenario("capacity")
        self.cap = cap
        self.res = PreemptibleResource("pres", cap)
        self.open: list[Req] = []
        self.held: dict[int, tuple] = {}     # hid -> (amount, prio, worker)
        self.cur_req = None
        self.seen: set[int] = set()
        self.keep: list = []
        self.preempts_in_call = 0
        self.preempt_this_delivery = False
        return [self.res]

    def _key(self, r):
        return (r.prio, r.order)

    def _unresolved(self):
        return sorted([r for r in self.open if r.blocked and not r.fut.is_resolved], key=self._key)

    def _resolved_grant_live(self, r):
        """resolved, not yet resumed, and the grant has not been preempted meanwhile"""
        if not r.fut.is_resolved:
            return False
        g = r.fut.value
        return not g.released

    def _held_total(self):
        return sum(a for a, _, _ in self.held.values()) + sum(r.amount for r in self.open if self._resolved_grant_live(r))

    def _on_preempt(self, hid_box, prio):
        def cb():
            self.preempts_in_call += 1
            self.probe("preempted")
            req = self.cur_req
            if req is None:
                bad("over-admit", self.CLS, "preempt-outside-acquire", "on_preempt fired outside an acquire call")
            if not (prio > req.prio):
                bad("over-admit", self.CLS, "preempted-not-lower-priority", f"holder with priority {prio} preempted by request with priority {req.prio}")
            hid = hid_box[0]
            if hid is not None:
                if hid not in self.held:
                    bad("granted-once", self.CLS, "preempted-after-release", "a released grant was preempted")
                del self.held[hid]
                self.note(-1, "preempt", hid)
        return cb

    def process(self, w):
        res = self.res
        slots: dict = {}
        for op in w.ops:
            k = op.get("op")
            if k == "hold":
                yield from self.hold(w, op["ns"])
            elif k == "acq":
                s = op.get("slot", 0)
                if s in slots:
                    continue
                a, prio, pre = int(op["a"]), float(op.get("p", 0.0)), bool(op.get("pre", True))
                if not (1 <= a <= self.cap):
                    raise InvalidScenario("amount")
                w.cur = "acquire"
                self.counters["op.acquire"] += 1
                r = Req(self.rid(), w.idx, "acq", a, prio)
                r.order = r.rid
                hid_box = [None]
                avail0 = res.available
                self.cur_req = r
                self.preempts_in_call = 0
                lower = sum(x[0] for x in self.held.values() if x[1] > prio)
                r.fut = res.acquire(a, priority=prio, preempt=pre, on_preempt=self._on_preempt(hid_box, prio))
                self.cur_req = None
                r.t_req = self.now_ns()
                r.blocked = not r.fut.is_resolved
                if self.preempts_in_call:
                    self.preempt_this_delivery = True
                    if not pre:
                        bad("over-admit", self.CLS, "preempted-without-preempt-flag", "acquire(preempt=False) evicted a holder")
                    if avail0 >= a:
                        bad("over-admit", self.CLS, "preempted-with-capacity", f"holder evicted although available={avail0} >= {a}")
                    if res.available > 0 and not r.blocked:
                        self.probe("preempt_freed_excess")
                    if r.blocked:
                        self.probe("preempt_insufficient")
                if r.blocked:
                    self.counters["blocked"] += 1
                    if pre and lower + avail0 >= a and self.preempts_in_call == 0 and lower > 0:
                        self.probe("could_preempt_but_waited")
                self.open.append(r)
                self.max_blocked = max(self.max_blocked, len(self._unresolved()))
                g = yield r.fut
                if r.resumed:
                    bad("granted-once", self.CLS, "resumed-twice", f"request {r.rid} resumed twice")
                r.resumed = True
                self.open.remove(r)
                if id(g) in self.seen:
                    bad("granted-once", self.CLS, "grant-object-reused", f"{g!r} delivered twice")
                self.seen.add(id(g))
                self.keep.append(g)
                if g.amount != a:
                    bad("granted-once", self.CLS, "grant-mismatch", f"asked {a}, got {g!r}")
                if r.blocked:
                    self.probe("blocked_then_granted")
                    if self.now_ns() > r.t_req:
                        self.probe("waited_across_time")
                if g.preempted:
                    # evicted between grant and resumption: nothing is held
                    self.probe("preempted_before_resume")
                    continue
                hid = self.rid()
                hid_box[0] = hid
                self.held[hid] = (a, prio, w.idx)
                slots[s] = (g, hid)
                self.note(w.idx, "grant", a)
            elif k in ("rel", "rel2"):
                s = op.get("slot", 0)
                if s not in slots:
                    continue
                g, hid = slots.pop(s)
                w.cur = "release"
                self._release(w, g, hid)
                if k == "rel2":
                    self.probe("double_release")
                    av = res.available
                    g.release()
                    if res.available != av:
                        bad("release-capped", self.CLS, "double-release", f"second release changed available {av} -> {res.available}")
        for s in sorted(slots):
            g, hid = slots[s]
            w.cur = "release"
            self._release(w, g, hid)

    def _release(self, w, g, hid):
        before = self._unresolved()
        av = self.res.available
        if hid in self.held:
            del self.held[hid]
            self.note(w.idx, "release", g.amount)
        else:
            self.probe("release_after_preempt")
            if not g.preempted:
                bad("conservation", self.CLS, "holder-lost", "grant vanished from the holder log without preemption")
        g.release()
        self.counters["op.release"] += 1
        if g.preempted and self.res.available != av:
            bad("release-capped", self.CLS, "release-after-preempt", f"release() of a preempted grant changed available {av} -> {self.res.available}")
        blocked_unres = None
        woke = 0
        for r in before:
            if r.fut.is_resolved:
                woke += 1
                if blocked_unres is not None:
                    bad("fifo", self.CLS, "release-woke-later-waiter",
                        f"release woke request {r.rid} (prio {r.prio}) while request {blocked_unres.rid} (prio {blocked_unres.prio}) ahead of it waits")
            elif blocked_unres is None:
                blocked_unres = r
        if woke:
            self.probe("release_woke_waiter")

    def after(self, ev, mon):
        res = self.res
        avail = res.available
        held = self._held_total()
        if held > self.cap:
            bad("over-admit", self.CLS, "outstanding-exceeds-capacity", f"outstanding {held} > capacity {self.cap}")
        if avail < 0 or avail > self.cap:
            bad("release-capped", self.CLS, "available-out-of-range", f"available={avail} capacity={self.cap}")
        if held + avail != self.cap:
            bad("conservation", self.CLS, "held-plus-available" + ("-high" if held + avail > self.cap else "-low"),
                f"held {held} + available {avail} != capacity {self.cap}")
        ub = self._unresolved()
        if ub and ub[0].amount <= avail:
            detail = "head-fits-after-preempt" if self.preempt_this_delivery else "head-fits"
            bad("head-waiter-served", self.CLS, detail,
                f"highest-priority waiter needs {ub[0].amount} (priority {ub[0].prio}), available {avail}"
                + (" after a preempting acquire freed more than it took" if self.preempt_this_delivery else ""))
        self.preempt_this_delivery = False
        self.states.add(f"pre:{min(len(ub), 3)}:{'full' if avail == 0 else 'part' if avail < self.cap else 'free'}:{min(res.stats.preemptions, 2)}")

    def eoi(self):
        for r in self.open:
            if r.fut.is_resolved:
                bad("served-eventually", self.CLS, "resolved-not-resumed", f"request {r.rid} granted but not resumed within the instant")

    def final(self):
        self.eoi()
        if self.open:
            # one grant per process at a time and every holder releases: no deadlock is possible
            bad("served-eventually", self.CLS, "waiter-left-at-quiescence", f"{len(self.open)} request(s) never served, available={self.res.available}")
        if self.held or self.res.available != self.cap:
            bad("conservation", self.CLS, "leak-at-quiescence", f"all processes done, available={self.res.available}/{self.cap}")


FAMILIES = {
    "resource": ResourceFam,
    "mutex": MutexFam,
    "semaphore": SemaphoreFam,
    "rwlock": RWLockFam,
    "barrier": BarrierFam,
    "condition": ConditionFam,
    "pool": PoolFam,
    "bulkhead": BulkheadFam,
    "threadpool": ThreadPoolFam,
    "concurrency": ConcurrencyFam,
    "preemptible": PreemptFam,
}


# =========================================================================
# Server with a concurrency model (limit raised / lowered mid-run under backlog)
# =========================================================================

def _seq_latency(values_ns, on_sample):
    from happysimulator.core.temporal import Duration
    from happysimulator.distributions.latency_distribution import LatencyDistribution

    class SeqLatency(LatencyDistribution):
        """Harness stub: service times from a generated list (cycled); tells the model that a request started."""

        def __init__(self):
            super().__init__(secs(values_ns[0]))
            self.k = 0

        def get_latency(self, current_time):
            v = values_ns[self.k % len(values_ns)]
            self.k += 1
            on_sample()
            return Duration(int(v))

    return SeqLatency()


class _Done(Entity):
    def __init__(self, name, fam):
        super().__init__(name)
        self.fam = fam

    def handle_event(self, event):
        self.fam.completed(event)
        return None


class ServerFam(Family):
    """A real Server (Queue + QueueDriver) with a Fixed / Dynamic / Weighted concurrency model in front of a sink.

    Every request carries metadata["weight"] (1 for most).  Fixed/Dynamic document that they ignore the weight (one slot
    per request), Weighted consumes it; for Fixed/Dynamic both accountings are accepted as long as they are consistent
    (active equals either the number or the total weight of the requests in service) - so "nothing in service => active
    == 0 and everything free" always holds.
    """

    CLS = "Server"

    def build(self):
        from happysimulator.components.server.concurrency import DynamicConcurrency, FixedConcurrency, WeightedConcurrency
        from happysimulator.components.server.server import Server

        c = self.cfg
        self.kind = c["kind"]
        lim = int(c["limit"])
        svc = [int(x) for x in c["service_ns"]]
        if lim < 1 or not svc or min(svc) < 0:
            raise InvalidScenario("server cfg")
        if self.kind == "dynamic":
            self.lo, self.hi = int(c.get("lo", 1)), c.get("hi")
            if self.lo < 1 or lim < self.lo or (self.hi is not None and (self.hi < self.lo or lim > self.hi)):
                raise InvalidScenario("dynamic bounds")
            self.cm = DynamicConcurrency(lim, min_limit=self.lo, max_limit=self.hi)
            conc = self.cm
        elif self.kind == "fixed":
            self.cm = FixedConcurrency(lim)
            conc = self.cm
        elif self.kind == "int":
            conc = lim              # Server wraps the int in a FixedConcurrency itself
            self.cm = None
        elif self.kind == "weighted":
            self.cm = WeightedConcurrency(lim)
            conc = self.cm
        else:
            raise InvalidScenario("kind")
        self.limit = lim
        self.qcap = c.get("queue")
        if self.qcap is not None and self.qcap < 1:
            raise InvalidScenario("queue")
        self.fifo: list[int] = []        # accepted by the queue, not yet started / discarded (arrival order)
        self.running: dict[int, int] = {}  # rid -> weight
        self.weights: dict[int, int] = {}
        self.n_started = 0
        self.discarded: list[int] = []
        self.done_ids: list[int] = []
        self.raised_at = -1        # instant of the last limit raise
        self._inst = -1            # instant of the last delivery
        self.prev = (0, 0, 0)      # accepted, dropped, rejected
        self.sink = _Done("done", self)
        self.srv = Server("srv", concurrency=conc, service_time=_seq_latency(svc, self._on_start),
                          queue_capacity=self.qcap, downstream=self.sink)
        self.cm = self.srv.concurrency_model
        self.CLS = type(self.cm).__name__
        return [self.srv, self.sink]

    def _on_start(self):
        if not self.fifo:
            bad("granted-once", self.CLS, "start-without-queued-request", "a request started although none is waiting")
        rid = self.fifo.pop(0)
        self.running[rid] = self.weights[rid]
        self.n_started += 1
        self.note(rid, "grant", self.weights[rid])
        cm = self.cm
        if cm.active > cm.limit:
            bad("over-admit", self.CLS, "started-above-limit", f"a request started with active={cm.active} > limit={cm.limit}")

    def completed(self, event):
        rid = event.context.get("metadata", {}).get("rid")
        if rid in self.done_ids:
            bad("granted-once", self.CLS, "request-completed-twice", f"request {rid} completed twice")
        if rid not in self.running:
            bad("granted-once", self.CLS, "completed-without-start", f"request {rid} completed but never started")
        del self.running[rid]
        self.done_ids.append(rid)
        self.note(rid, "release")

    def extra_events(self):
        evs = []
        for i, rq in enumerate(self.sc["requests"]):
            wt = int(rq.get("w", 1))
            if rq["t"] < 0 or wt < 1:
                raise InvalidScenario("request")
            self.weights[i] = wt
            evs.append(Event(time=Instant(int(rq["t"])), event_type="req", target=self.srv,
                             context={"metadata": {"rid": i, "weight": wt}}))
        self.n_req = len(evs)
        return evs

    def process(self, w):
        cm = self.cm
        for op in w.ops:
            k = op.get("op")
            if k == "hold":
                yield from self.hold(w, op["ns"])
            elif k == "limit" and self.kind == "dynamic":
                w.cur = "set_limit"
                new = int(op["to"])
                how = op.get("how", "set")
                old = self.limit
                if how == "set":
                    cm.set_limit(new)
                    tgt = new
                elif how == "up":
                    cm.scale_up(new)
                    tgt = old + new
                else:
                    cm.scale_down(new)
                    tgt = old - new
                tgt = max(self.lo, tgt)
                if self.hi is not None:
                    tgt = min(self.hi, tgt)
                self.limit = tgt
                self.counters["op.limit"] += 1
                if tgt > old:
                    self.raised_at = self.now_ns()
                    self.probe("limit_raised")
                    if self.srv.depth > 0:
                        self.probe("limit_raised_under_backlog")
                elif tgt < old:
                    self.probe("limit_lowered")
                    if cm.active > tgt:
                        self.probe("limit_below_active")

    def after(self, ev, mon):
        cm, srv = self.cm, self.srv
        self._inst = ev.time.nanoseconds
        cur = (srv.stats_accepted, srv.stats_dropped, srv.stats.requests_rejected)
        if ev.target is srv and ev.event_type == "req" and "rid" in ev.context.get("metadata", {}) and not self._is_forward(ev):
            rid = ev.context["metadata"]["rid"]
            da, dd = cur[0] - self.prev[0], cur[1] - self.prev[1]
            if (da, dd) == (1, 0):
                self.fifo.append(rid)
            elif (da, dd) == (0, 1):
                self.probe("rejected")
            else:
                bad("conservation", self.CLS, "arrival-accounting", f"arrival {rid}: accepted/dropped deltas {(da, dd)}")
        discarded_msg = None
        for _ in range(cur[2] - self.prev[2]):
            # the worker could not take the request it was handed: the request is discarded (counted as rejected)
            if not self.fifo:
                bad("conservation", self.CLS, "rejected-without-request", "requests_rejected grew although nothing was waiting")
            rid = self.fifo.pop(0)
            self.discarded.append(rid)
            self.probe("request_discarded_by_worker")
            if self.weights[rid] <= self.limit and discarded_msg is None:
                discarded_msg = (f"request {rid} (weight {self.weights[rid]}, limit {self.limit}) waited in the queue, reached the head "
                                 f"while active={cm.active} and was discarded instead of waiting for capacity")
        self.prev = cur
        if cm.limit != self.limit:
            bad("conservation", self.CLS, "limit", f"limit={cm.limit}, expected {self.limit}")
        n, wsum = len(self.running), sum(self.running.values())
        # between the worker's release and the sink's delivery a finished request is still in `running`
        fin = self.n_started - srv.stats.requests_completed
        pend = [self.running[r] for r in list(self.running)[: max(0, n - fin)]] if fin < n else None
        ok_vals = {n, wsum} if self.kind != "weighted" else {wsum}
        if fin < n:
            # some request finished in this instant and its completion event has not reached the sink yet
            ok_vals = None
        if ok_vals is not None and cm.active not in ok_vals:
            bad("conservation", self.CLS, "active" + ("-high" if cm.active > max(ok_vals) else "-low"),
                f"active={cm.active} but {n} requests of total weight {wsum} are in service"
                + (" (nothing in service: everything must be free)" if n == 0 else ""))
        if cm.active <= cm.limit:
            if cm.active + cm.available != cm.limit:
                bad("conservation", self.CLS, "held-plus-available", f"active={cm.active} available={cm.available} limit={cm.limit}")
        elif cm.available != 0:
            bad("over-admit", self.CLS, "available-while-over-limit", f"available={cm.available} with active={cm.active} > limit={cm.limit}")
        if self.qcap is not None and srv.depth > self.qcap:
            bad("over-admit", self.CLS, "queue-exceeds-capacity", f"depth={srv.depth} > {self.qcap}")
        if srv.depth:
            self.max_blocked = max(self.max_blocked, srv.depth)
            self.counters["blocked"] = 1
        if wsum > n:
            self.probe("weighted_request_in_service")
        del pend
        if discarded_msg is not None:
            # judged last: the counters above must be right even in the delivery that discards a request (recorded defect)
            bad("served-eventually", self.CLS, "queued-request-discarded-at-head", discarded_msg)
        self.states.add(f"srv:{self.kind}:{min(cm.active, 3)}:{min(srv.depth, 3)}:{'over' if cm.active > self.limit else 'full' if cm.active == self.limit else 'room'}")

    def _is_forward(self, ev):
        return False

    def eoi(self):
        srv, cm = self.srv, self.cm
        if srv.depth > 0:
            self.probe("waited_across_time")
            head_w = self.weights[self.fifo[0]] if self.fifo else 1
            if cm.has_capacity(head_w) and cm.has_capacity(1):
                detail = "queued-while-slot-free"
                if self.raised_at >= 0 and self.raised_at == self._inst:
                    detail = "queued-after-limit-raised"
                bad("head-waiter-served", self.CLS, detail,
                    f"end of instant: {srv.depth} requests queued (head weight {head_w}) while active={cm.active} < limit={cm.limit}")
        n, wsum = len(self.running), sum(self.running.values())
        ok_vals = {n, wsum} if self.kind != "weighted" else {wsum}
        if cm.active not in ok_vals:
            bad("conservation", self.CLS, "active" + ("-high" if cm.active > max(ok_vals) else "-low"),
                f"end of instant: active={cm.active} but {n} requests of total weight {wsum} are in service"
                + (" (nothing in service: everything must be free)" if n == 0 else ""))

    def final(self):
        srv, cm = self.srv, self.cm
        self.eoi()
        if srv.depth or cm.active or self.running:
            bad("served-eventually", self.CLS, "left-at-quiescence", f"queued={srv.depth} active={cm.active} in service={len(self.running)} limit={cm.limit}")
        if cm.available != cm.limit:
            bad("conservation", self.CLS, "leak-at-quiescence", f"nothing outstanding but available={cm.available} of {cm.limit}")
        st = srv.stats
        if st.requests_completed + st.requests_rejected + srv.stats_dropped != self.n_req:
            bad("conservation", self.CLS, "request-accounting",
                f"sent={self.n_req} completed={st.requests_completed} rejected={st.requests_rejected} dropped={srv.stats_dropped}")
        if len(self.done_ids) != st.requests_completed or self.n_started != st.requests_completed:
            bad("conservation", self.CLS, "started-vs-completed", f"started={self.n_started} completed={st.requests_completed} delivered={len(self.done_ids)}")


FAMILIES["server"] = ServerFam
