"""Run the real engine under observation: delivery digest, global event
sequence number, step budget, frozen-clock spin detector, invariant hook.

Every Layer-B harness attaches exactly one `Monitor` to the Simulation it
builds.  The monitor uses the repository's own seam (`sim.control.on_event`);
no repo hook is needed.
"""
from __future__ import annotations

import contextlib
import hashlib
import uuid as _uuid
from typing import Any, Callable


class Violation(Exception):
    """A property violation observed while a run proceeds."""

    def __init__(self, sig: str, msg: str = "", detail: Any = None):
        super().__init__(f"{sig}: {msg}")
        self.sig = sig
        self.msg = msg
        self.detail = detail


class BudgetExceeded(Exception):
    """The run hit its delivery cap (not a verdict by itself)."""


class InvalidScenario(Exception):
    """Raised by run() when a (shrunk) scenario is structurally meaningless."""


def result(
    *,
    sig: str | None = None,
    msg: str = "",
    digest: str = "",
    nontrivial: bool = False,
    counters: dict | None = None,
    sim_s: float = 0.0,
    deliveries: int = 0,
    klass: str = "default",
    state: str | None = None,
    extra: dict | None = None,
) -> dict:
    """Uniform result record returned by every check's run()."""
    return {
        "sig": sig,
        "msg": msg,
        "digest": digest,
        "nontrivial": bool(nontrivial),
        "counters": dict(counters or {}),
        "sim_s": float(sim_s),
        "deliveries": int(deliveries),
        "klass": klass,
        "state": state,
        "extra": extra or {},
    }


def target_name(ev) -> str:
    t = ev.target
    return getattr(t, "name", None) or type(t).__name__


class Monitor:
    """Attach to a Simulation; call after every delivery.

    invariant(event, monitor) may raise Violation.  `seq` is the global event
    sequence number used to stamp client operation invoke/return.
    """

    def __init__(
        self,
        sim,
        *,
        cap: int = 50_000,
        spin_cap: int = 2_000,
        invariant: Callable | None = None,
        spin_sig: Callable | None = None,
        digest: bool = True,
    ):
        self.sim = sim
        self.cap = cap
        self.spin_cap = spin_cap
        self.invariant = invariant
        self.spin_sig = spin_sig
        self.seq = 0
        self._h = hashlib.blake2b(digest_size=12) if digest else None
        self._same_t = 0
        self._last_t = -1
        self.max_same_t = 0
        self.last_time_ns = 0
        sim.control.on_event(self._on_event)

    def _on_event(self, ev) -> None:
        self.seq += 1
        t = ev.time.nanoseconds
        self.last_time_ns = t
        if self._h is not None:
            self._h.update(f"{t}|{ev.event_type}|{target_name(ev)}\n".encode())
        if t == self._last_t:
            self._same_t += 1
            if self._same_t > self.max_same_t:
                self.max_same_t = self._same_t
            if self._same_t > self.spin_cap:
                cls = type(getattr(ev.target, "_resource", ev.target)).__name__
                sig = self.spin_sig(ev) if self.spin_sig else f"frozen-clock-spin/{cls}/{ev.event_type}"
                raise Violation(
                    sig,
                    f"more than {self.spin_cap} consecutive deliveries at t={t}ns "
                    f"(last: {ev.event_type} -> {target_name(ev)})",
                )
        else:
            self._last_t = t
            self._same_t = 1
        if self.invariant is not None:
            self.invariant(ev, self)
        if self.seq >= self.cap:
            raise BudgetExceeded(f"{self.seq} deliveries")

    @property
    def digest(self) -> str:
        return self._h.hexdigest() if self._h is not None else ""


@contextlib.contextmanager
def seeded_uuid(seed: int):
    """Replace uuid.uuid4 by a seeded generator for the duration of a run."""
    import random

    r = random.Random(seed)
    orig = _uuid.uuid4

    def fake():
        return _uuid.UUID(int=r.getrandbits(128), version=4)

    _uuid.uuid4 = fake
    try:
        yield
    finally:
        _uuid.uuid4 = orig


def ns(seconds: float) -> int:
    """The repo's documented float-seconds -> integer-nanoseconds quantisation."""
    if isinstance(seconds, int):
        return seconds * 1_000_000_000
    return int(seconds * 1_000_000_000)


def repo_exception_sig(exc: BaseException, prefix: str = "exception") -> str | None:
    """If `exc` was raised from repository code (innermost frame under REPO),
    return a stable signature "exception/<Type>/<module>.<function>"; else None
    (the exception is the harness's own fault and must propagate)."""
    import traceback

    from simkit import repo as _repo

    tb = traceback.extract_tb(exc.__traceback__)
    if not tb:
        return None
    inner = tb[-1]
    if _repo.REPO in inner.filename and "/verif/" not in inner.filename:
        mod = inner.filename.split("happysimulator/")[-1].replace("/", ".").removesuffix(".py")
        return f"{prefix}/{type(exc).__name__}/{mod}.{inner.name}"
    return None


def run_sim(sim, monitor: "Monitor | None" = None):
    """sim.run() with the kit's outcome classification.

    Returns ("ok"|"budget"|"violation"|"exception", payload).  Repo exceptions
    escaping sim.run() become a Violation-like payload; harness exceptions
    propagate.
    """
    try:
        summary = sim.run()
        return "ok", summary
    except Violation as v:
        return "violation", v
    except BudgetExceeded as b:
        return "budget", b
    except Exception as exc:  # noqa: BLE001
        sig = repo_exception_sig(exc)
        if sig is None:
            raise
        return "exception", Violation(sig, repr(exc))
