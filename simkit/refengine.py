"""Reference interpreter for the engine's documented scheduling semantics.

It knows nothing of heaps, fast paths or counters: pending work is a plain list,
the next item is `min` by (time_ns, creation_seq).  Programs are the JSON
"script programs" produced by checks/c01 (and reused by C04/C05):

  handlers["<entity>:<kind>"] = {
      "shape":  "none" | "one" | "list" | "gen",
      "cancel": [int, ...]          registry positions (mod len) to cancel first
      "crash":  [entity, ...]       set target._crashed = True
      "uncrash":[entity, ...]
      "emits":  [emit, ...]         events created (in order) and returned
      "sched":  [emit, ...]         events pushed with sim.schedule() from inside
      "steps":  [{"d": seconds, "emits": [emit,...]}, ...]   (gen only)
      "rev":    bool                return the list reversed
  }
  emit = {"dt": ns (may be negative = into the past), "to": entity, "k": kind, "daemon": bool}
       | {"prep": i}   hand over prog["prepared"][i] = {"t": absolute ns, "to", "k", "daemon"}: an event object that
                       was constructed before the run, right after the initial events, but not scheduled then

Creation order (the tie-break the property promises) is the order in which the
handler body constructs Event objects; the continuation of a generator is
created at its yield, after the side effects built before that yield.
"""
from __future__ import annotations


def q(seconds: float) -> int:
    """Documented quantisation of a float delay to integer nanoseconds."""
    return int(seconds * 1_000_000_000)


class RefEngine:
    def __init__(self, prog: dict, injections: dict | None = None, injected_cancels: dict | None = None):
        self.injected_cancels = dict(injected_cancels or {})
        # injections: {n: [emit, ...]} events built and scheduled from outside while the run was paused after its
        # n-th processed event (as it actually happened on the engine; whether a pause takes effect is C04's business)
        self.injections = dict(injections or {})
        self.prog = prog
        self.handlers = prog["handlers"]
        self.fuel = prog.get("fuel", 100)
        self.seq = 0
        self.pending: list[dict] = []
        self.registry: list[dict] = []  # user events in creation order
        self.crashed: set[int] = set()
        self.log: list[tuple] = []  # (uid, step, time_ns)
        self.now = prog.get("start", 0)      # Simulation(start_time=...): the clock begins here
        self.processed = 0
        self.cancelled_popped = 0
        self.discarded_past = 0
        self.tie_groups = 0
        self.phase = "prerun"

    # -- creation -----------------------------------------------------------
    def _new_event(self, t: int, to: int, k: int, daemon: bool) -> dict:
        rec = {"t": t, "seq": self.seq, "to": to, "k": k, "daemon": daemon, "cancelled": False,
               "uid": len(self.registry), "cont": None, "phase": self.phase, "hops": 0}
        self.seq += 1
        self.registry.append(rec)
        return rec

    def _new_cont(self, t: int, origin: dict, step: int) -> dict:
        rec = {"t": t, "seq": self.seq, "to": origin["to"], "k": origin["k"], "daemon": origin["daemon"],
               "cancelled": False, "uid": origin["uid"], "cont": step, "phase": "cont"}
        self.seq += 1
        return rec

    def _emit_all(self, emits) -> list[dict]:
        out = []
        for e in emits:
            if self.fuel <= 0:
                break
            self.fuel -= 1
            if "prep" in e:
                # an event object built before the run (creation index from then) and handed to the engine only now
                rec = self.prepared[e["prep"]]
                if not rec["handed"]:
                    rec["handed"] = True
                    out.append(rec)
                continue
            out.append(self._new_event(self.now + e["dt"], e["to"], e["k"], e.get("daemon", False)))
        return out

    def load_initial(self) -> None:
        # "stash": events that a handler of an EARLIER, completed simulation built and kept; they are older than
        # everything built by hand afterwards and are scheduled into this run together with the initial events
        for st in self.prog.get("stash", []):
            self._new_event(st["t"], st["to"], st["k"], st.get("daemon", False))
        for ini in self.prog["initial"]:
            rec = self._new_event(ini["t"], ini["to"], ini["k"], ini.get("daemon", False))
            if ini.get("cancel"):
                rec["cancelled"] = True
        self.pending.extend(self.registry)
        self.prepared = []
        for pe in self.prog.get("prepared", []):
            rec = self._new_event(pe["t"], pe["to"], pe["k"], pe.get("daemon", False))
            rec["handed"] = False
            self.prepared.append(rec)
        self.phase = "inrun"

    # -- execution ----------------------------------------------------------
    def _prelude(self, h: dict) -> None:
        for idx in h.get("cancel", []):
            if self.registry:
                self.registry[idx % len(self.registry)]["cancelled"] = True
        for e in h.get("crash", []):
            self.crashed.add(e)
        for e in h.get("uncrash", []):
            self.crashed.discard(e)

    def _deliver(self, rec: dict) -> None:
        self.processed += 1
        h = self.handlers.get(f"{rec['to']}:{rec['k']}")
        if rec["cont"] is None:
            if rec["to"] in self.crashed:
                return
            self.log.append((rec["uid"], -(1 + rec["hops"]), self.now))
            if h is None:
                return
            self._prelude(h)
            if h["shape"] == "gen":
                # the engine constructs a continuation object first (consumes a
                # creation index) and advances it immediately
                self.seq += 1
                self._advance(rec, h, 0)
                return
            created = self._emit_all(h.get("emits", []))
            direct = self._emit_all(h.get("sched", []))
            if h["shape"] == "none":
                created = []  # created but not returned: never scheduled
            elif h["shape"] == "one":
                created = created[:1]
            self.pending.extend(direct)
            self.pending.extend(created)
            ru = h.get("reuse")
            if ru and h["shape"] == "list" and self.fuel > 0 and rec["hops"] < 2:
                # the same event object goes back on the heap: new time/target, ORIGINAL creation index
                self.fuel -= 1
                rec["t"] = self.now + max(0, ru["dt"])
                if ru.get("to") is not None:
                    rec["to"] = ru["to"]
                rec["hops"] += 1
                self.pending.append(rec)
        else:
            self.log.append((rec["uid"], rec["cont"], self.now))
            self._advance(rec, h, rec["cont"])

    def _advance(self, rec: dict, h: dict, step: int) -> None:
        steps = h.get("steps", [])
        if step < len(steps):
            st = steps[step]
            side = self._emit_all(st.get("emits", []))
            cont = self._new_cont(self.now + q(st["d"]), rec, step + 1)
            self.pending.extend(side)
            self.pending.append(cont)
        else:
            created = self._emit_all(h.get("emits", []))
            ret = h.get("ret", "list")
            if ret == "none":
                created = []
            elif ret == "one":
                created = created[:1]
            self.pending.extend(created)

    def _inject(self) -> None:
        for idx in self.injected_cancels.pop(self.processed, []):
            if self.registry:
                self.registry[idx % len(self.registry)]["cancelled"] = True
        for e in self.injections.pop(self.processed, []):
            self.phase = "paused"
            self.pending.append(self._new_event(self.now + e["dt"], e["to"], e["k"], e.get("daemon", False)))
            self.phase = "inrun"

    def run(self, max_deliveries: int = 100_000) -> None:
        end = self.prog.get("end")
        self.load_initial()
        self._inject()
        while self.pending:
            if end is None and not any(not p["daemon"] for p in self.pending):
                break
            nxt = min(self.pending, key=lambda p: (p["t"], p["seq"]))
            if end is not None and nxt["t"] > end:
                # everything later than end_time is outside the statement
                break
            self.pending.remove(nxt)
            if nxt["cancelled"]:
                self.cancelled_popped += 1
                continue
            if nxt["t"] < self.now:
                self.discarded_past += 1
                continue
            if any(p["t"] == nxt["t"] and not p["cancelled"] for p in self.pending):
                self.tie_groups += 1
            self.now = nxt["t"]
            self._deliver(nxt)
            self._inject()
            if self.processed > max_deliveries:
                raise RuntimeError("reference interpreter exceeded delivery cap")
