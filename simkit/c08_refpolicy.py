"""C08 — reference models of the queue policies (oracle side).

Trivial insides on purpose: plain lists, linear scans, no heaps, no lazy
tricks.  Items are the arrival records of the scenario (dicts with `rid`,
`prio`, `flow`, `w`, `deadline_ns`).

Interface (all models):

    legal_push(it, now_ns) -> tuple of legal outcomes (True = accepted)
    commit_push(it, now_ns, accepted)
    pop(now_ns) -> (item | None, [items dropped by this pop])
    head(now_ns) -> item the next pop would return (no mutation) | None
    sync_len(n)  -> items additionally dropped so that len == n (CoDel only)
    len(), cap, n_pushed, n_popped, n_dropped

A deterministic policy has exactly one legal push outcome.
"""
from __future__ import annotations

INF = float("inf")


class RefBase:
    name = "base"

    def __init__(self, cap=None):
        self.cap = INF if cap is None else cap
        self.items: list = []
        self.n_pushed = 0
        self.n_popped = 0
        self.n_dropped = 0      # dropped after having been accepted (expired, CoDel)
        self.n_rejected = 0     # refused at push

    def __len__(self):
        return len(self.items)

    # -- push ---------------------------------------------------------------
    def would_accept(self, it, now_ns) -> bool:
        return len(self.items) < self.cap

    def legal_push(self, it, now_ns):
        return (self.would_accept(it, now_ns),)

    def _insert(self, it, now_ns):
        self.items.append(it)

    def commit_push(self, it, now_ns, accepted: bool):
        if accepted:
            self._insert(it, now_ns)
            self.n_pushed += 1
        else:
            self.n_rejected += 1

    # -- pop ----------------------------------------------------------------
    def _pick(self, now_ns):
        """index of the item the policy hands out next, or None"""
        return 0 if self.items else None

    def head(self, now_ns):
        i = self._pick(now_ns)
        return None if i is None else self.items[i]

    def pop(self, now_ns):
        i = self._pick(now_ns)
        if i is None:
            return None, []
        self.n_popped += 1
        return self.items.pop(i), []

    def sync_len(self, n):
        return []


class RefFIFO(RefBase):
    name = "FIFOQueue"


class RefLIFO(RefBase):
    name = "LIFOQueue"

    def _pick(self, now_ns):
        return len(self.items) - 1 if self.items else None


class RefPrio(RefBase):
    """lowest priority value first; equal priorities in arrival order"""
    name = "PriorityQueue"

    def _pick(self, now_ns):
        best = None
        for i, it in enumerate(self.items):           # arrival order scan: first minimum wins
            if best is None or it["prio"] < self.items[best]["prio"]:
                best = i
        return best


class RefDeadline(RefBase):
    """earliest deadline first (ties in arrival order); an item whose deadline
    lies strictly before `now` is dropped (and counted) when a pop reaches it"""
    name = "DeadlineQueue"

    def _order(self):
        return sorted(range(len(self.items)), key=lambda i: (self.items[i]["deadline_ns"], i))

    def _pick(self, now_ns):
        for i in self._order():
            if self.items[i]["deadline_ns"] >= now_ns:
                return i
        return None

    def pop(self, now_ns):
        dropped = [it for it in self.items if it["deadline_ns"] < now_ns]
        i = self._pick(now_ns)
        got = None if i is None else self.items[i]
        # everything expired sorts before every live item, so a pop that
        # reaches a live item has walked over all expired ones
        self.items = [it for it in self.items if it["deadline_ns"] >= now_ns and it is not got]
        self.n_dropped += len(dropped)
        if got is not None:
            self.n_popped += 1
        return got, dropped

    def purge(self, now_ns):
        """explicit housekeeping: every expired entry leaves (counted), order of the rest untouched"""
        dropped = [it for it in self.items if it["deadline_ns"] < now_ns]
        self.items = [it for it in self.items if it["deadline_ns"] >= now_ns]
        self.n_dropped += len(dropped)
        return dropped

    def count_expired(self, now_ns):
        return sum(1 for it in self.items if it["deadline_ns"] < now_ns)


class RefFair(RefBase):
    """round robin over backlogged flows; a flow joins the rotation at the
    tail when its first item arrives and leaves it when it empties"""
    name = "FairQueue"

    def __init__(self, max_flows=None, per_flow_cap=None):
        super().__init__(None)
        self.max_flows = max_flows
        self.per_flow = INF if not per_flow_cap else per_flow_cap
        self.cap = INF if max_flows is None else max_flows * self.per_flow
        self.rot: list = []   # [flow, [items]]

    def __len__(self):
        return sum(len(q) for _, q in self.rot)

    def _flow(self, f):
        for ent in self.rot:
            if ent[0] == f:
                return ent
        return None

    def would_accept(self, it, now_ns):
        ent = self._flow(it["flow"])
        if ent is None:
            return not (self.max_flows is not None and len(self.rot) >= self.max_flows)
        return len(ent[1]) < self.per_flow

    def _insert(self, it, now_ns):
        ent = self._flow(it["flow"])
        if ent is None:
            ent = [it["flow"], []]
            self.rot.append(ent)
        ent[1].append(it)

    def flow_depth(self, f):
        ent = self._flow(f)
        return len(ent[1]) if ent else 0

    def head(self, now_ns):
        return self.rot[0][1][0] if self.rot else None

    def pop(self, now_ns):
        if not self.rot:
            return None, []
        ent = self.rot.pop(0)
        it = ent[1].pop(0)
        if ent[1]:
            self.rot.append(ent)
        self.n_popped += 1
        return it, []


class RefWFQ(RefBase):
    """weighted round robin: the flow at the head of the rotation is served up
    to `weight` items per visit, then goes to the tail with a fresh quantum; a
    flow that empties leaves the rotation (its unused quantum is forgotten);
    a new flow joins at the tail with a full quantum"""
    name = "WeightedFairQueue"

    def __init__(self, cap=None, per_flow_cap=None, weights=None):
        super().__init__(cap)
        self.per_flow = INF if per_flow_cap is None else per_flow_cap
        self.weights = weights or {}
        self.rot: list = []   # [flow, [items], weight, credits]

    def __len__(self):
        return sum(len(e[1]) for e in self.rot)

    def _flow(self, f):
        for ent in self.rot:
            if ent[0] == f:
                return ent
        return None

    def would_accept(self, it, now_ns):
        if len(self) >= self.cap:
            return False
        ent = self._flow(it["flow"])
        return ent is None or len(ent[1]) < self.per_flow

    def _insert(self, it, now_ns):
        ent = self._flow(it["flow"])
        if ent is None:
            w = max(1, int(self.weights.get(it["flow"], 1)))
            ent = [it["flow"], [], w, w]
            self.rot.append(ent)
        ent[1].append(it)

    def flow_depth(self, f):
        ent = self._flow(f)
        return len(ent[1]) if ent else 0

    def head(self, now_ns):
        return self.rot[0][1][0] if self.rot else None

    def pop(self, now_ns):
        if not self.rot:
            return None, []
        ent = self.rot[0]
        it = ent[1].pop(0)
        ent[3] -= 1
        if not ent[1]:
            self.rot.pop(0)
        elif ent[3] <= 0:
            self.rot.pop(0)
            ent[3] = ent[2]
            self.rot.append(ent)
        self.n_popped += 1
        return it, []


class RefALIFO(RefBase):
    """FIFO below the congestion threshold, LIFO at or above it"""
    name = "AdaptiveLIFO"

    def __init__(self, threshold, cap=None):
        super().__init__(cap)
        self.threshold = threshold

    def _pick(self, now_ns):
        if not self.items:
            return None
        return len(self.items) - 1 if len(self.items) >= self.threshold else 0


class RefCoDel(RefBase):
    """survivors leave in FIFO order; a pop hands out the head and may drop
    (counted) the items that follow it — how many is CoDel's business, the
    model is told afterwards (sync_len)"""
    name = "CoDelQueue"

    def sync_len(self, n):
        k = len(self.items) - n
        if k < 0:
            raise ValueError("more items than the model holds")
        dropped, self.items = self.items[:k], self.items[k:]
        self.n_dropped += k
        return dropped


class RefRED(RefBase):
    """FIFO; admission is random early detection: below min_threshold (EWMA of
    the length sampled at every push) nothing may be dropped unless the hard
    capacity is reached; at or above max_threshold everything is dropped"""
    name = "REDQueue"

    def __init__(self, min_th, max_th, weight, cap=None):
        super().__init__(max_th * 2 if cap is None else cap)
        self.min_th, self.max_th, self.weight = min_th, max_th, weight
        self.avg = 0.0
        self._avg_for = None

    def legal_push(self, it, now_ns):
        # the EWMA is updated once per push, before the decision
        self.avg = (1 - self.weight) * self.avg + self.weight * len(self.items)
        if len(self.items) >= self.cap:
            return (False,)
        if self.avg < self.min_th:
            return (True,)
        if self.avg >= self.max_th:
            return (False,)
        return (True, False)


class RefBalk(RefBase):
    """decorator: at or above the threshold an arrival balks with the given
    probability; otherwise the inner policy decides"""
    name = "BalkingQueue"

    def __init__(self, inner: RefBase, threshold, prob):
        super().__init__(None)
        self.inner, self.threshold, self.prob = inner, threshold, prob
        self.cap = inner.cap
        self.balk_min = 0
        self.balk_max = 0

    def __len__(self):
        return len(self.inner)

    def legal_push(self, it, now_ns):
        inner = self.inner.legal_push(it, now_ns)
        if len(self.inner) >= self.threshold:
            if self.prob >= 1.0:
                return (False,)
            if self.prob > 0.0:
                return tuple(sorted(set(inner) | {False}))
        return inner

    def commit_push(self, it, now_ns, accepted):
        # inner policies used under a balking decorator are deterministic (fifo/lifo/prio)
        room = self.inner.would_accept(it, now_ns)
        if accepted:
            self.inner.commit_push(it, now_ns, True)
            self.n_pushed += 1
            return
        self.n_rejected += 1
        if len(self.inner) >= self.threshold and self.prob > 0.0:
            self.balk_max += 1                      # may have been a balk
            if room or self.prob >= 1.0:
                self.balk_min += 1                  # can only have been a balk
        if not (len(self.inner) >= self.threshold and self.prob >= 1.0):
            if not room:
                self.inner.n_rejected += 1

    def head(self, now_ns):
        return self.inner.head(now_ns)

    def pop(self, now_ns):
        it, dropped = self.inner.pop(now_ns)
        if it is not None:
            self.n_popped += 1
        self.n_dropped += len(dropped)
        return it, dropped

    def sync_len(self, n):
        d = self.inner.sync_len(n)
        self.n_dropped += len(d)
        return d


def build_ref(cfg: dict, weights: dict | None = None) -> RefBase:
    t = cfg["type"]
    cap = cfg.get("cap")
    if t == "fifo":
        return RefFIFO(cap)
    if t == "lifo":
        return RefLIFO(cap)
    if t == "prio":
        return RefPrio(cap)
    if t == "deadline":
        return RefDeadline(cap)
    if t == "fair":
        return RefFair(cfg.get("max_flows"), cfg.get("per_flow"))
    if t == "wfq":
        return RefWFQ(cap, cfg.get("per_flow"), weights or {})
    if t == "alifo":
        return RefALIFO(cfg["threshold"], cap)
    if t == "codel":
        return RefCoDel(cap)
    if t == "red":
        return RefRED(cfg["min_th"], cfg["max_th"], cfg.get("weight", 0.002), cap)
    if t == "balk":
        return RefBalk(build_ref(cfg["inner"], weights), cfg["threshold"], cfg["prob"])
    raise ValueError(f"unknown policy type {t}")
