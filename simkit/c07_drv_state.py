"""C07 drivers, part 2: components with generator APIs called from client
processes (datastore, caches, storage engines, messaging, streaming, sync
primitives, capacity primitives, infrastructure).  The client processes are
harness `Actor`s; everything they `yield from` is the repo's code.
"""
from __future__ import annotations

from simkit.c07_zoo import InvalidScenario, arrivals, check_arr, check_num, lat, lossy, ns, rel
from simkit.c07_drv_flow import dec, flow_cfg, horizon, svc_times

from happysimulator.components.datastore import eviction_policies as EP
from happysimulator.components.datastore.cache_warming import CacheWarmer
from happysimulator.components.datastore.cached_store import CachedStore
from happysimulator.components.datastore.database import Database
from happysimulator.components.datastore.kv_store import KVStore
from happysimulator.components.datastore.multi_tier_cache import MultiTierCache
from happysimulator.components.datastore.replicated_store import ConsistencyLevel, ReplicatedStore
from happysimulator.components.datastore.sharded_store import (
    ConsistentHashSharding,
    HashSharding,
    RangeSharding,
    ShardedStore,
)
from happysimulator.components.datastore.soft_ttl_cache import SoftTTLCache
from happysimulator.components.industrial.preemptible_resource import PreemptibleResource
from happysimulator.components.infrastructure.cpu_scheduler import CPUScheduler, FairShare, PriorityPreemptive
from happysimulator.components.infrastructure.disk_io import HDD, SSD, DiskIO, NVMe
from happysimulator.components.infrastructure.dns_resolver import DNSRecord, DNSResolver
from happysimulator.components.infrastructure.garbage_collector import (
    ConcurrentGC,
    GarbageCollector,
    GenerationalGC,
    StopTheWorld,
)
from happysimulator.components.infrastructure.page_cache import PageCache
from happysimulator.components.infrastructure.tcp_connection import AIMD, BBR, Cubic, TCPConnection
from happysimulator.components.messaging.dlq import DeadLetterQueue
from happysimulator.components.messaging.message_queue import MessageQueue
from happysimulator.components.messaging.topic import Topic
from happysimulator.components.resource import Resource
from happysimulator.components.storage.btree import BTree
from happysimulator.components.storage.lsm_tree import FIFOCompaction, LeveledCompaction, LSMTree, SizeTieredCompaction
from happysimulator.components.storage.memtable import Memtable
from happysimulator.components.storage.transaction_manager import IsolationLevel, TransactionManager
from happysimulator.components.storage.wal import SyncEveryWrite, SyncOnBatch, SyncPeriodic, WriteAheadLog
from happysimulator.components.streaming.consumer_group import ConsumerGroup
from happysimulator.components.streaming.event_log import EventLog, SizeRetention, TimeRetention
from happysimulator.components.streaming.stream_processor import (
    LateEventPolicy,
    SessionWindow,
    SlidingWindow,
    StreamProcessor,
    TumblingWindow,
)
from happysimulator.components.sync.barrier import Barrier
from happysimulator.components.sync.condition import Condition
from happysimulator.components.sync.mutex import Mutex
from happysimulator.components.sync.rwlock import RWLock
from happysimulator.components.sync.semaphore import Semaphore

DRIVERS: dict = {}


def driver(name, classes):
    def deco(pair):
        gen, build = pair()
        DRIVERS[name] = {"name": name, "classes": list(classes), "gen": gen, "build": build}
        return pair
    return deco


def ops_cfg(rng, kinds, n=None, nkeys=None, marks=(), span=None):
    """Arrival list [[t_ns, kind, key_index, hold_s], ...]: every arrival starts one client process."""
    c = flow_cfg(rng, marks, n=n or rng.randint(6, 30), span=span)
    nk = nkeys or rng.randint(1, 5)
    c["arr"] = [[t, rng.choice(kinds), rng.randrange(nk), rng.choice([0.0, 0.0, lat(rng, zero_p=0.0, hi=0.05)])]
                for t in c["arr"]]
    c["nkeys"] = nk
    return c


def spawn(z, c, script, n_actors=3):
    """One process per arrival, spread over a few Actor entities."""
    actors = [z.actor(f"client{i}") for i in range(n_actors)]
    for i, a in enumerate(check_arr(c["arr"])):
        if not isinstance(a, list) or len(a) != 4 or not isinstance(a[1], str) or not isinstance(a[2], int) or a[2] < 0:
            raise InvalidScenario("op")
        check_num(a[3], 0, 100)
        z.run_at(a[0], actors[i % n_actors], script, i, a[1], a[2], a[3])
    for tag in c.get("tags", []):
        z.probe(f"probe.arr_{tag}")
    return actors


# --------------------------------------------------------------------------
# datastore
# --------------------------------------------------------------------------

def kv_script(z, store, extra=None):
    def script(i, kind, k, hold):
        z.touch(store)
        key = f"k{k}"
        if kind == "get":
            yield from store.get(key)
        elif kind == "put":
            yield from store.put(key, i)
        elif kind == "del" and hasattr(store, "delete"):
            yield from store.delete(key)
        elif kind == "rmw":
            v = yield from store.get(key)
            if hold > 0:
                yield hold
            yield from store.put(key, (v or 0) + 1 if isinstance(v, int) else 1)
        elif extra is not None:
            return (yield from extra(kind, key, i, hold))
        return None
    return script


def kv_lat(rng):
    return {"r": lat(rng, hi=0.02), "w": lat(rng, hi=0.03), "d": rng.choice([None, lat(rng, hi=0.03)])}


def kv_of(name, l, cap=None):
    return KVStore(name, read_latency=check_num(l["r"]), write_latency=check_num(l["w"]),
                   delete_latency=l.get("d"), capacity=cap)


@driver("KVStore", ["KVStore"])
def _kv():
    def gen(rng):
        c = ops_cfg(rng, ["get", "put", "del", "rmw"])
        c.update(lat=kv_lat(rng), cap=rng.choice([None, 1, 3]))
        return c

    def build(z, c):
        s = z.add(kv_of("kv", c["lat"], c.get("cap")))
        spawn(z, c, kv_script(z, s))
        z.horizon_ns = horizon(c, 5)
    return gen, build


@driver("ShardedStore", ["ShardedStore"])
def _sharded():
    def gen(rng):
        c = ops_cfg(rng, ["get", "put", "del", "rmw", "scatter"], nkeys=rng.randint(2, 8))
        c.update(lat=kv_lat(rng), shards=rng.randint(1, 4), strat=rng.choice(["hash", "range", "chash"]))
        return c

    def build(z, c):
        n = int(c["shards"])
        if not 1 <= n <= 8:
            raise InvalidScenario("shards")
        shards = [z.add(kv_of(f"shard{i}", c["lat"])) for i in range(n)]
        strat = {"hash": HashSharding, "range": lambda: RangeSharding(boundaries=[f"k{i}" for i in range(1, n)]),
                 "chash": lambda: ConsistentHashSharding(virtual_nodes=8, seed=1)}[c["strat"]]()
        st = z.add(ShardedStore("sharded", shards=shards, sharding_strategy=strat))

        def extra(kind, key, i, hold):
            yield from st.scatter_gather([f"k{j}" for j in range(int(c["nkeys"]))])
        spawn(z, c, kv_script(z, st, extra))
        z.horizon_ns = horizon(c, 5)
    return gen, build


@driver("ReplicatedStore", ["ReplicatedStore"])
def _replicated():
    def gen(rng):
        rt, wt = lat(rng, zero_p=0.0, hi=0.05), lat(rng, zero_p=0.0, hi=0.05)
        c = ops_cfg(rng, ["get", "put", "del", "rmw"], marks=[rt, wt])
        c.update(lats=[kv_lat(rng) for _ in range(rng.randint(1, 4))], rcl=rng.choice(["ONE", "QUORUM", "ALL"]),
                 wcl=rng.choice(["ONE", "QUORUM", "ALL"]), rto=rt, wto=wt)
        return c

    def build(z, c):
        reps = [z.add(kv_of(f"replica{i}", l)) for i, l in enumerate(c["lats"])]
        if not 1 <= len(reps) <= 6:
            raise InvalidScenario("replicas")
        rs = z.add(ReplicatedStore("replicated", replicas=reps, read_consistency=ConsistencyLevel[c["rcl"]],
                                   write_consistency=ConsistencyLevel[c["wcl"]], read_timeout=check_num(c["rto"], 1e-6),
                                   write_timeout=check_num(c["wto"], 1e-6)))
        spawn(z, c, kv_script(z, rs))
        z.horizon_ns = horizon(c, 5)
    return gen, build


EVICT = {"lru": EP.LRUEviction, "lfu": EP.LFUEviction, "fifo": EP.FIFOEviction, "clock": EP.ClockEviction,
         "slru": EP.SLRUEviction, "twoq": EP.TwoQueueEviction, "random": lambda: EP.RandomEviction(seed=3),
         "sampled": lambda: EP.SampledLRUEviction(sample_size=2, seed=3)}


def evict_of(z, name, ttl=0.05):
    if name == "ttl":
        return EP.TTLEviction(ttl=ttl, clock_func=lambda: z.now.to_seconds())
    if name not in EVICT:
        raise InvalidScenario("eviction")
    return EVICT[name]()


@driver("CachedStore", ["CachedStore", "CacheWarmer"])
def _cached():
    def gen(rng):
        rate = rng.choice([10.0, 100.0, 1000.0, 1e6])
        c = ops_cfg(rng, ["get", "put", "del", "rmw", "flush", "inval", "warm"], marks=[1.0 / rate])
        c.update(lat=kv_lat(rng), cap=rng.randint(1, 4), ev=rng.choice(list(EVICT) + ["ttl"]), clat=lat(rng, hi=0.005),
                 wt=rng.random() < 0.6, warm0=rng.random() < 0.5, rate=rate, wlat=lat(rng, hi=0.01))
        return c

    def build(z, c):
        backing = z.add(kv_of("backing", c["lat"]))
        for k in range(int(c["nkeys"])):
            backing.put_sync(f"k{k}", -k)
        cs = z.add(CachedStore("cache", backing, int(c["cap"]), evict_of(z, c["ev"]), cache_read_latency=check_num(c["clat"]),
                               write_through=bool(c["wt"])))
        warmer = z.add(CacheWarmer("warmer", cs, [f"k{k}" for k in range(int(c["nkeys"]))], warmup_rate=check_num(c["rate"], 1e-3),
                                   warmup_latency=check_num(c["wlat"])))
        if c["warm0"]:
            z.after_init(lambda: warmer.start_warming())

        def extra(kind, key, i, hold):
            if kind == "flush":
                yield from cs.flush()
            elif kind == "inval":
                cs.invalidate(key)
                yield 0.0
            elif kind == "warm":
                # a user entity (re)starts warming during the run and returns the event it is given
                z.touch(warmer)
                yield 0.0
                return [warmer.start_warming()]
        spawn(z, c, kv_script(z, cs, extra))
        z.horizon_ns = horizon(c, 5 + c["nkeys"] / c["rate"] * 3)
    return gen, build


@driver("MultiTierCache", ["MultiTierCache"])
def _mtc():
    def gen(rng):
        c = ops_cfg(rng, ["get", "put", "del", "rmw", "inval"])
        c.update(lat=kv_lat(rng), tiers=[{"cap": rng.randint(1, 3), "ev": rng.choice(list(EVICT)), "c": lat(rng, hi=0.004)}
                                         for _ in range(rng.randint(1, 3))], promo=rng.choice(["always", "on_second_access", "never"]))
        return c

    def build(z, c):
        backing = z.add(kv_of("backing", c["lat"]))
        for k in range(int(c["nkeys"])):
            backing.put_sync(f"k{k}", -k)
        tiers = [z.add(CachedStore(f"L{i + 1}", backing, int(t["cap"]), evict_of(z, t["ev"]),
                                   cache_read_latency=check_num(t["c"]))) for i, t in enumerate(c["tiers"])]
        try:
            m = MultiTierCache("mtc", tiers, backing, promotion_policy=c["promo"])
        except ValueError:
            m = MultiTierCache("mtc", tiers, backing)
        z.add(m)

        def extra(kind, key, i, hold):
            m.invalidate(key)
            yield 0.0
        spawn(z, c, kv_script(z, m, extra))
        z.horizon_ns = horizon(c, 5)
    return gen, build


@driver("SoftTTLCache", ["SoftTTLCache"])
def _sttl():
    def gen(rng):
        soft = lat(rng, zero_p=0.0, hi=0.1)
        hard = round(soft * rng.choice([1.0, 1.5, 4.0]), 6)
        c = ops_cfg(rng, ["get", "get", "get", "put", "inval"], marks=[soft, hard])
        c.update(lat=kv_lat(rng), soft=soft, hard=hard, cap=rng.choice([None, 1, 3]), clat=lat(rng, hi=0.004))
        return c

    def build(z, c):
        backing = z.add(kv_of("backing", c["lat"]))
        for k in range(int(c["nkeys"])):
            backing.put_sync(f"k{k}", -k)
        s = z.add(SoftTTLCache("sttl", backing, soft_ttl=check_num(c["soft"], 1e-6), hard_ttl=check_num(c["hard"], 1e-6),
                               cache_capacity=c.get("cap"), cache_read_latency=check_num(c["clat"])))

        def extra(kind, key, i, hold):
            s.invalidate(key)
            yield 0.0
        spawn(z, c, kv_script(z, s, extra))
        z.horizon_ns = horizon(c, 5 + c["hard"] * 3)
    return gen, build


@driver("Database", ["Database"])
def _db():
    def gen(rng):
        c = ops_cfg(rng, ["q", "q", "tx_commit", "tx_rollback"])
        c.update(maxc=rng.randint(1, 3), ql=lat(rng, hi=0.02), cl=lat(rng, hi=0.02), col=lat(rng, hi=0.02), rl=lat(rng, hi=0.02))
        if rng.random() < 0.6:
            # pool exhaustion: 1-2 connections, more simultaneous queries than connections, queries that take time,
            # and connections that are handed over in zero time (in-process / pre-established) in half of these runs
            mc = rng.randint(1, 2)
            t1 = rng.randrange(0, 10**9)
            arr = [[t1, rng.choice(["q", "q", "tx_commit"]), j, rng.choice([0.0, 0.01])] for j in range(mc + rng.randint(1, 4))]
            arr += [[t1 + rng.randrange(1, 5 * 10**7), "q", 0, 0.0] for _ in range(rng.randint(0, 5))]
            arr.sort(key=lambda a: a[0])
            c.update(arr=arr, maxc=mc, ql=lat(rng, zero_p=0.0, hi=0.03), cl=rng.choice([0.0, 0.0, 0.0, lat(rng, hi=0.005)]),
                     tags=c["tags"] + ["pool_exhaustion"])
        return c

    def build(z, c):
        db = z.add(Database("db", max_connections=int(c["maxc"]), query_latency=check_num(c["ql"]),
                            connection_latency=check_num(c["cl"]), commit_latency=check_num(c["col"]),
                            rollback_latency=check_num(c["rl"])))

        def script(i, kind, k, hold):
            z.touch(db)
            if kind == "q":
                yield from db.execute(f"SELECT {k}")
            else:
                tx = yield from db.begin_transaction()
                yield from tx.execute(f"UPDATE t SET x={i} WHERE k={k}")
                if hold > 0:
                    yield hold
                if kind == "tx_commit":
                    yield from tx.commit()
                else:
                    yield from tx.rollback()
        spawn(z, c, script)
        z.horizon_ns = horizon(c, 10)
    return gen, build


# --------------------------------------------------------------------------
# storage engines
# --------------------------------------------------------------------------

def wal_of(spec, name="wal"):
    if spec is None:
        return None
    pol = {"every": SyncEveryWrite, "periodic": lambda: SyncPeriodic(interval_s=check_num(spec.get("interval", 0.01), 1e-6)),
           "batch": lambda: SyncOnBatch(batch_size=int(spec.get("batch", 2)))}[spec["policy"]]()
    return WriteAheadLog(name, sync_policy=pol, write_latency=check_num(spec["wl"]), sync_latency=check_num(spec["sl"]))


def gen_wal(rng):
    return {"policy": rng.choice(["every", "periodic", "batch"]), "interval": lat(rng, zero_p=0.0, hi=0.05),
            "batch": rng.randint(1, 4), "wl": lat(rng, hi=0.002), "sl": lat(rng, hi=0.01)}


@driver("WriteAheadLog", ["WriteAheadLog"])
def _wal():
    def gen(rng):
        w = gen_wal(rng)
        c = ops_cfg(rng, ["append", "append", "append", "truncate"], marks=[w["interval"]])
        c.update(wal=w)
        return c

    def build(z, c):
        w = z.add(wal_of(c["wal"]))

        def script(i, kind, k, hold):
            z.touch(w)
            if kind == "append":
                yield from w.append(f"k{k}", i)
            else:
                w.truncate(max(0, w.synced_up_to - 1))
                yield 0.0
        spawn(z, c, script)
        z.horizon_ns = horizon(c, 5)
    return gen, build


@driver("Memtable", ["Memtable"])
def _memtable():
    def gen(rng):
        c = ops_cfg(rng, ["put", "put", "get", "flush"])
        c.update(thr=rng.randint(1, 5), wl=lat(rng, hi=0.001), rl=lat(rng, hi=0.001), lock=rng.random() < 0.4)
        return c

    def build(z, c):
        lock = z.add(RWLock("mt_lock")) if c["lock"] else None
        m = z.add(Memtable("memtable", size_threshold=int(c["thr"]), write_latency=check_num(c["wl"]),
                           read_latency=check_num(c["rl"]), rwlock=lock))

        def script(i, kind, k, hold):
            z.touch(m)
            if kind == "put":
                yield from m.put(f"k{k}", i)
            elif kind == "get":
                yield from m.get(f"k{k}")
            else:
                m.flush()
                yield 0.0
        spawn(z, c, script)
        z.horizon_ns = horizon(c, 5)
    return gen, build


def storage_script(z, eng):
    def script(i, kind, k, hold):
        z.touch(eng)
        key = f"k{k}"
        if kind == "get":
            yield from eng.get(key)
        elif kind == "put":
            yield from eng.put(key, i)
        elif kind == "del":
            yield from eng.delete(key)
        elif kind == "scan":
            yield from eng.scan("k0", "k9")
        return None
    return script


@driver("LSMTree", ["LSMTree"])
def _lsm():
    def gen(rng):
        c = ops_cfg(rng, ["put", "put", "put", "get", "del", "scan"], n=rng.randint(10, 40), nkeys=rng.randint(2, 8))
        c.update(mem=rng.randint(1, 4), strat=rng.choice(["size", "level", "fifo"]), wal=rng.choice([None, gen_wal(rng)]),
                 rl=lat(rng, hi=0.004), wl=lat(rng, hi=0.006))
        return c

    def build(z, c):
        strat = {"size": lambda: SizeTieredCompaction(min_sstables=2), "level": LeveledCompaction,
                 "fifo": lambda: FIFOCompaction(max_total_sstables=3)}[c["strat"]]()
        wal = wal_of(c.get("wal"))
        eng = z.add(LSMTree("lsm", memtable_size=int(c["mem"]), compaction_strategy=strat, wal=wal,
                            sstable_read_latency=check_num(c["rl"]), sstable_write_latency=check_num(c["wl"])))
        if wal is not None:
            z.add(wal)
        spawn(z, c, storage_script(z, eng))
        z.horizon_ns = horizon(c, 10)
    return gen, build


@driver("BTree", ["BTree"])
def _btree():
    def gen(rng):
        c = ops_cfg(rng, ["put", "put", "put", "get", "del", "scan"], n=rng.randint(10, 40), nkeys=rng.randint(2, 9))
        c.update(order=rng.choice([3, 4, 8]), rl=lat(rng, hi=0.004), wl=lat(rng, hi=0.006))
        return c

    def build(z, c):
        eng = z.add(BTree("btree", order=int(c["order"]), page_read_latency=check_num(c["rl"]),
                          page_write_latency=check_num(c["wl"])))
        spawn(z, c, storage_script(z, eng))
        z.horizon_ns = horizon(c, 10)
    return gen, build


@driver("TransactionManager", ["TransactionManager"])
def _tm():
    def gen(rng):
        c = ops_cfg(rng, ["rw", "rw", "ro", "abort"], nkeys=rng.randint(1, 4))
        c.update(iso=rng.choice(["READ_COMMITTED", "SNAPSHOT_ISOLATION", "SERIALIZABLE"]), engine=rng.choice(["lsm", "btree"]),
                 rl=lat(rng, hi=0.003), wl=lat(rng, hi=0.004), dd=rng.random() < 0.5)
        return c

    def build(z, c):
        if c["engine"] == "lsm":
            eng = z.add(LSMTree("lsm", memtable_size=3, sstable_read_latency=check_num(c["rl"]),
                                sstable_write_latency=check_num(c["wl"])))
        else:
            eng = z.add(BTree("btree", order=4, page_read_latency=check_num(c["rl"]), page_write_latency=check_num(c["wl"])))
        tm = z.add(TransactionManager("tm", eng, isolation=IsolationLevel[c["iso"]], deadlock_detection=bool(c["dd"])))

        def script(i, kind, k, hold):
            z.touch(tm)
            tx = yield from tm.begin()
            yield from tx.read(f"k{k}")
            if hold > 0:
                yield hold
            if kind in ("rw", "abort"):
                yield from tx.write(f"k{k}", i)
                yield from tx.write(f"k{(k + 1) % int(c['nkeys'])}", i)
            if kind == "abort":
                tx.abort()
            else:
                yield from tx.commit()
        spawn(z, c, script)
        z.horizon_ns = horizon(c, 10)
    return gen, build


# --------------------------------------------------------------------------
# messaging / streaming
# --------------------------------------------------------------------------

@driver("MessageQueue", ["MessageQueue", "DeadLetterQueue"])
def _mq():
    def gen(rng):
        dl = lat(rng, hi=0.02)
        rd = lat(rng, zero_p=0.0, hi=0.1)
        c = ops_cfg(rng, ["pub", "pub", "pub", "poll", "poll", "reprocess"], marks=[dl, rd])
        c.update(dl=dl, rd=rd, maxr=rng.randint(1, 3), cap=rng.choice([None, 2, 5]), ncons=rng.randint(0, 3),
                 ack=rng.choice(["ack", "reject", "requeue", "ignore", "ignore", "mixed"]), dlq_cap=rng.choice([None, 1]),
                 retention=rng.choice([None, 0.05]),
                 work=[rng.choice([0.0, rel(rng, rd, (0.2, 0.9, 1.0, 1.5, 3.0)), lat(rng, hi=0.05)]) for _ in range(4)])
        return c

    def build(z, c):
        dlq = z.add(DeadLetterQueue("dlq", capacity=c.get("dlq_cap"), retention_period=c.get("retention")))
        q = z.add(MessageQueue("mq", delivery_latency=check_num(c["dl"]), redelivery_delay=check_num(c["rd"], 1e-6),
                               max_redeliveries=int(c["maxr"]), capacity=c.get("cap"), dead_letter_queue=dlq))
        mode = c["ack"]

        cons = []
        seen = [0]

        work = [check_num(x) for x in (c.get("work") or [0.0])]

        def on_delivery(ev):
            seen[0] += 1
            w = work[seen[0] % len(work)]
            if w > 0:
                return slow(ev, w, seen[0])
            return decide(ev, seen[0])

        def slow(ev, w, k):
            yield w                      # the consumer works on the message before it answers
            return decide(ev, k)

        def decide(ev, k):
            mid = ev.context.get("message_id")
            m = mode if mode != "mixed" else ["ack", "reject", "requeue", "ignore"][k % 4]
            if m == "ack":
                q.acknowledge(mid)
            elif m == "reject":
                q.reject(mid, requeue=False)
            elif m == "requeue":
                q.reject(mid, requeue=True)
                return [z.ev(q, "poll", {"metadata": {}})]
            else:
                r = q.schedule_redelivery(mid)
                return [r] if r is not None else None
            return None
        for i in range(int(c["ncons"])):
            a = z.callback(f"consumer{i}", on_delivery)
            cons.append(a)
            q.subscribe(a)

        def script(i, kind, k, hold):
            z.touch(q)
            if kind == "pub":
                try:
                    yield from q.publish(z.ev(cons[0] if cons else dlq, "payload", {"metadata": {"i": i}}))
                except RuntimeError:
                    return None
                return [z.ev(q, "poll", {"metadata": {}})]
            if kind == "poll":
                out = yield from q.poll()
                return [out] if out is not None else None
            z.touch(dlq)
            return dlq.reprocess_all(q) + [z.ev(dlq, "cleanup", {"metadata": {}})]
        spawn(z, c, script)
        z.horizon_ns = horizon(c, 3 + (c["rd"] + max(c.get("work") or [0.0])) * (c["maxr"] + 2))
    return gen, build


@driver("Topic", ["Topic"])
def _topic():
    def gen(rng):
        dl = lat(rng, hi=0.02)
        c = ops_cfg(rng, ["pub_ev", "pub_ev", "pub", "sub", "unsub", "sync"], marks=[dl])
        c.update(dl=dl, nsub=rng.randint(0, 4), retain=rng.random() < 0.5)
        return c

    def build(z, c):
        t = z.add(Topic("topic", delivery_latency=check_num(c["dl"])))
        if c["retain"]:
            t.set_retain_messages(True, max_history=5)
        subs = [z.sink(f"sub{i}") for i in range(int(c["nsub"]))]
        late = z.sink("late_sub")
        for s in subs:
            z.after_init(lambda s=s: t.subscribe(s))

        def script(i, kind, k, hold):
            z.touch(t)
            payload = z.ev(late, "payload", {"metadata": {"i": i}})
            if kind == "pub_ev":
                return [z.ev(t, "publish", {"payload": payload, "metadata": {}})]
            if kind == "pub":
                return (yield from t.publish(payload))
            if kind == "sync":
                return t.publish_sync(payload)
            if kind == "sub":
                return t.subscribe(late, replay_history=True)
            t.unsubscribe(late)
            return None
        spawn(z, c, script)
        z.horizon_ns = horizon(c, 3 + c["dl"] * 10)
    return gen, build


@driver("EventLog", ["EventLog", "ConsumerGroup"])
def _eventlog():
    def gen(rng):
        al, rl = lat(rng, hi=0.01), lat(rng, hi=0.005)
        rci = lat(rng, zero_p=0.0, hi=0.2)
        rb = lat(rng, hi=0.05)
        pl = lat(rng, hi=0.005)
        sess = rng.choice([None, lat(rng, zero_p=0.0, hi=0.3)])
        c = ops_cfg(rng, ["append", "append", "append", "read", "join", "poll", "poll", "leave"], marks=[al, rci, rb, sess])
        c.update(parts=rng.randint(1, 4), al=al, rl=rl, rci=rci, ret=rng.choice([None, "time", "size"]), rb=rb, pl=pl, sess=sess,
                 assign=rng.choice([None, "range", "roundrobin", "sticky"]))
        return c

    def build(z, c):
        ret = {None: None, "time": TimeRetention(max_age_s=0.2), "size": SizeRetention(max_records=3)}[c.get("ret")]
        log = z.add(EventLog("log", num_partitions=int(c["parts"]), retention_policy=ret, append_latency=check_num(c["al"]),
                             read_latency=check_num(c["rl"]), retention_check_interval=check_num(c["rci"])))
        from happysimulator.components.streaming.consumer_group import RangeAssignment, RoundRobinAssignment, StickyAssignment
        assign = {None: lambda: None, "range": RangeAssignment, "roundrobin": RoundRobinAssignment, "sticky": StickyAssignment}[c.get("assign")]()
        grp = z.add(ConsumerGroup("group", log, assignment_strategy=assign, rebalance_delay=check_num(c["rb"]), poll_latency=check_num(c["pl"]),
                                  session_timeout=c.get("sess")))
        members = [z.sink(f"member{i}") for i in range(3)]
        joined = set()

        def script(i, kind, k, hold):
            name = f"m{k % 3}"
            if kind == "append":
                z.touch(log)
                yield from log.append(f"k{k}", i)
            elif kind == "read":
                z.touch(log)
                yield from log.read(k % int(c["parts"]), 0, 10)
            elif kind == "join":
                z.touch(grp)
                yield from grp.join(name, members[k % 3])
                joined.add(name)
            elif kind == "poll":
                z.touch(grp)
                if name not in joined:
                    yield from grp.join(name, members[k % 3])
                    joined.add(name)
                recs = yield from grp.poll(name, 5)
                if recs:
                    offs = {}
                    for r in recs:
                        offs[r.partition] = max(offs.get(r.partition, 0), r.offset + 1)
                    yield from grp.commit(name, offs)
            else:
                z.touch(grp)
                if name in joined:
                    joined.discard(name)
                    yield from grp.leave(name)
        spawn(z, c, script)
        z.horizon_ns = horizon(c, 3 + c["rci"] * 3)
    return gen, build


@driver("StreamProcessor", ["StreamProcessor"])
def _stream():
    def gen(rng):
        size = lat(rng, zero_p=0.0, hi=0.3)
        wi = lat(rng, zero_p=0.0, hi=0.2)
        c = flow_cfg(rng, marks=[size, wi])
        c.update(win=rng.choice(["tumbling", "sliding", "session"]), size=size, slide=round(size / rng.choice([1, 2, 3]), 6),
                 late=rng.choice(["DROP", "UPDATE", "SIDE_OUTPUT"]), lateness=rng.choice([0.0, lat(rng, zero_p=0.0, hi=0.1)]),
                 wi=wi,
                 # caller-supplied event times: equal to, behind and ahead of the processing time, by less and by more than
                 # the watermark interval / window size (replayed or delayed streams, clock skew between producers)
                 skew=[rng.choice([0.0, -0.05, -0.5, 0.02, -rel(rng, wi, (0.5, 1.0, 2.0, 5.0)), rel(rng, wi, (0.5, 2.0)),
                                   -rel(rng, size, (0.5, 3.0))]) for _ in range(5)],
                 explicit=rng.choice([1, 1, 2, 3]), as_instant=rng.random() < 0.3)
        return c

    def build(z, c):
        sink, side = z.sink(), z.sink("side")
        size = check_num(c["size"], 1e-6)
        win = {"tumbling": lambda: TumblingWindow(size), "sliding": lambda: SlidingWindow(size, check_num(c["slide"], 1e-6)),
               "session": lambda: SessionWindow(size)}[c["win"]]()
        sp = z.add(StreamProcessor("stream", window_type=win, aggregate_fn=len, downstream=sink,
                                   allowed_lateness_s=check_num(c["lateness"]), late_event_policy=LateEventPolicy[c["late"]],
                                   side_output=side, watermark_interval_s=check_num(c["wi"], 1e-6)))
        skew = [check_num(x, -10, 10) for x in c["skew"]]
        for i, t in enumerate(check_arr(c["arr"])):
            ctx = {"key": f"k{i % 2}", "value": i, "metadata": {}}
            if i % int(c.get("explicit", 3)) == 0:       # explicit=1: every record (the first included) carries an event time
                et = max(0.0, (z.t0_ns + t) / 1e9 + skew[i % len(skew)])
                if c.get("as_instant"):
                    from happysimulator.core.temporal import Instant as _I
                    ctx["event_time"] = _I.from_seconds(et)
                else:
                    ctx["event_time_s"] = et
            z.at(t, sp, "Process", ctx)
        for tag in c.get("tags", []):
            z.probe(f"probe.arr_{tag}")
        z.horizon_ns = horizon(c, 3 + c["size"] * 3 + c["wi"] * 3)
    return gen, build


# --------------------------------------------------------------------------
# sync and capacity primitives
# --------------------------------------------------------------------------

@driver("Mutex", ["Mutex", "Condition"])
def _mutex():
    def gen(rng):
        c = ops_cfg(rng, ["lock", "lock", "lock", "try", "wait", "notify", "notify_all", "wait_for"])
        c.update(to=rng.choice([None, lat(rng, zero_p=0.0, hi=0.05)]))
        return c

    def build(z, c):
        m = z.add(Mutex("mutex"))
        cv = z.add(Condition("cond", m))
        flag = [0]

        def script(i, kind, k, hold):
            z.touch(m)
            if kind == "try":
                if m.try_acquire(f"w{i}"):
                    if hold > 0:
                        yield hold
                    return m.release()
                return None
            yield from m.acquire(f"w{i}")
            if kind == "lock":
                if hold > 0:
                    yield hold
            elif kind == "wait":
                z.touch(cv)
                if flag[0] <= 0:
                    flag[0] -= 1
                    yield from cv.wait()
            elif kind == "wait_for":
                z.touch(cv)
                yield from cv.wait_for(lambda: flag[0] > 0, timeout=c.get("to"))
            elif kind == "notify":
                z.touch(cv)
                flag[0] += 1
                cv.notify(1)
            else:
                z.touch(cv)
                flag[0] += 5
                cv.notify_all()
            return m.release()
        spawn(z, c, script)
        z.horizon_ns = horizon(c, 5)
    return gen, build


@driver("Semaphore", ["Semaphore"])
def _sem():
    def gen(rng):
        c = ops_cfg(rng, ["acq", "acq", "acq2", "try", "extra_release"])
        c.update(n=rng.randint(1, 3))
        return c

    def build(z, c):
        n = int(c["n"])
        s = z.add(Semaphore("sem", initial_count=n))

        def script(i, kind, k, hold):
            z.touch(s)
            cnt = min(2, n) if kind == "acq2" else 1
            if kind == "try":
                if s.try_acquire(1):
                    if hold > 0:
                        yield hold
                    return s.release(1)
                return None
            if kind == "extra_release":
                return None
            yield from s.acquire(cnt)
            if hold > 0:
                yield hold
            return s.release(cnt)
        spawn(z, c, script)
        z.horizon_ns = horizon(c, 5)
    return gen, build


@driver("RWLock", ["RWLock"])
def _rwlock():
    def gen(rng):
        c = ops_cfg(rng, ["r", "r", "r", "w", "try_r", "try_w"])
        c.update(maxr=rng.choice([None, 1, 2]))
        return c

    def build(z, c):
        l = z.add(RWLock("rwlock", max_readers=c.get("maxr")))

        def script(i, kind, k, hold):
            z.touch(l)
            if kind == "r":
                yield from l.acquire_read()
                if hold > 0:
                    yield hold
                return l.release_read()
            if kind == "w":
                yield from l.acquire_write()
                if hold > 0:
                    yield hold
                return l.release_write()
            if kind == "try_r" and l.try_acquire_read():
                if hold > 0:
                    yield hold
                return l.release_read()
            if kind == "try_w" and l.try_acquire_write():
                if hold > 0:
                    yield hold
                return l.release_write()
            return None
        spawn(z, c, script)
        z.horizon_ns = horizon(c, 5)
    return gen, build


@driver("Barrier", ["Barrier"])
def _barrier():
    def gen(rng):
        c = ops_cfg(rng, ["wait", "wait", "wait", "wait", "reset", "abort"])
        c.update(parties=rng.randint(1, 4))
        return c

    def build(z, c):
        b = z.add(Barrier("barrier", parties=int(c["parties"])))

        def script(i, kind, k, hold):
            z.touch(b)
            if kind == "wait":
                try:
                    yield from b.wait()
                except RuntimeError:
                    return None
                if hold > 0:
                    yield hold
            elif kind == "reset":
                b.reset()
            else:
                b.abort()
                b.reset()
            return None
        spawn(z, c, script)
        z.horizon_ns = horizon(c, 5)
    return gen, build


@driver("Resource", ["Resource"])
def _resource():
    def gen(rng):
        c = ops_cfg(rng, ["acq", "acq", "acq2", "try"])
        c.update(cap=rng.choice([1, 2, 3, 2.5]))
        return c

    def build(z, c):
        cap = check_num(c["cap"], 0.001)
        r = z.add(Resource("resource", capacity=cap))

        def script(i, kind, k, hold):
            z.touch(r)
            amt = min(2, cap) if kind == "acq2" else 1
            if kind == "try":
                g = r.try_acquire(1)
                if g is not None:
                    if hold > 0:
                        yield hold
                    g.release()
                return None
            g = yield r.acquire(amt)
            if hold > 0:
                yield hold
            g.release()
            return None
        spawn(z, c, script)
        z.horizon_ns = horizon(c, 5)
    return gen, build


@driver("PreemptibleResource", ["PreemptibleResource"])
def _preempt():
    def gen(rng):
        c = ops_cfg(rng, ["acq", "acq", "acq2", "nopreempt"], nkeys=4)
        c.update(cap=rng.randint(1, 3), prios=[rng.choice([-1000.0, -1.0, 0.0, 0.0, 0.5, 1.0, 3.0, 1e6]) for _ in range(5)])
        return c

    def build(z, c):
        cap = int(c["cap"])
        r = z.add(PreemptibleResource("preemptible", capacity=cap))

        def script(i, kind, k, hold):
            z.touch(r)
            amt = min(2, cap) if kind == "acq2" else 1
            lost = [False]
            pr = c.get("prios") or [float(k)]
            g = yield r.acquire(amt, priority=float(pr[i % len(pr)]), preempt=(kind != "nopreempt"),
                                on_preempt=lambda: lost.__setitem__(0, True))
            if hold > 0:
                yield hold
            if not lost[0]:
                g.release()
            return None
        spawn(z, c, script)
        z.horizon_ns = horizon(c, 5)
    return gen, build


# --------------------------------------------------------------------------
# infrastructure
# --------------------------------------------------------------------------

@driver("CPUScheduler", ["CPUScheduler"])
def _cpu():
    def gen(rng):
        q = lat(rng, zero_p=0.0, hi=0.02)
        c = ops_cfg(rng, ["run"], n=rng.randint(3, 14), marks=[q])
        c.update(policy=rng.choice(["fair", "prio", "prio"]), q=q, cs=rng.choice([0.0, 5e-6, 0.001]),
                 # priorities: "higher = more important", any int: negative (background work), zero, large
                 prios=[rng.choice([-1000, -3, -2, -1, 0, 0, 1, 2, 5, 1000]) for _ in range(6)])
        return c

    def build(z, c):
        pol = (FairShare if c["policy"] == "fair" else PriorityPreemptive)(quantum_s=check_num(c["q"], 1e-6))
        cpu = z.add(CPUScheduler("cpu", policy=pol, context_switch_s=check_num(c["cs"])))

        def script(i, kind, k, hold):
            z.touch(cpu)
            pr = c.get("prios") or [0]
            yield from cpu.execute(f"t{i}", cpu_time_s=max(hold, 0.001) * 2, priority=int(pr[i % len(pr)]))
        spawn(z, c, script)
        z.horizon_ns = horizon(c, 10)
    return gen, build


@driver("DiskIO", ["DiskIO", "PageCache"])
def _disk():
    def gen(rng):
        c = ops_cfg(rng, ["read", "write", "pread", "pwrite", "pflush"], nkeys=6)
        c.update(profile=rng.choice(["hdd", "ssd", "nvme", None]), cap=rng.randint(1, 4), ra=rng.choice([0, 2]),
                 drl=lat(rng, hi=0.002), dwl=lat(rng, hi=0.003), serial=rng.random() < 0.6)
        if rng.random() < 0.4:
            # eviction contention: a tiny cache filled with dirty pages, then capacity+1 .. capacity+3 writers / readers of
            # NEW pages at one instant (not serialised), non-zero write-back latency
            cap = rng.randint(1, 3)
            t1 = rng.randrange(10**6, 10**9)
            arr = [[0, "pwrite", k, 0.0] for k in range(cap)]
            arr += [[t1, rng.choice(["pwrite", "pwrite", "pread"]), cap + j, 0.0] for j in range(cap + rng.randint(1, 3))]
            arr += [[t1 + rng.randrange(1, 10**8), "pwrite", rng.randrange(0, 2 * cap + 4), 0.0] for _ in range(rng.randint(0, 6))]
            arr.sort(key=lambda a: a[0])
            c.update(arr=arr, nkeys=2 * cap + 4, cap=cap, ra=0, serial=False, dwl=lat(rng, zero_p=0.0, hi=0.003),
                     tags=c["tags"] + ["eviction_contention"])
        return c

    def build(z, c):
        prof = {"hdd": HDD, "ssd": SSD, "nvme": NVMe, None: lambda: None}[c.get("profile")]()
        d = z.add(DiskIO("disk", profile=prof))
        pc = z.add(PageCache("pagecache", capacity_pages=int(c["cap"]), readahead_pages=int(c["ra"]),
                             disk_read_latency_s=check_num(c["drl"]), disk_write_latency_s=check_num(c["dwl"])))
        # PageCache is not re-entrant (overlapping page operations raise KeyError / "dict changed size" in the repo,
        # which is not a C07 matter but aborts the run): most runs serialise page operations behind a repo Mutex.
        guard = z.add(Mutex("pc_guard")) if c.get("serial") else None

        def script(i, kind, k, hold):
            if kind == "read":
                z.touch(d)
                yield from d.read(4096 * (k + 1))
                return None
            if kind == "write":
                z.touch(d)
                yield from d.write(4096 * (k + 1))
                return None
            z.touch(pc)
            if guard is not None:
                yield from guard.acquire()
            if kind == "pread":
                yield from pc.read_page(k)
            elif kind == "pwrite":
                yield from pc.write_page(k)
            else:
                yield from pc.flush()
            return guard.release() if guard is not None else None
        spawn(z, c, script)
        z.horizon_ns = horizon(c, 5)
    return gen, build


@driver("DNSResolver", ["DNSResolver"])
def _dns():
    def gen(rng):
        ttl = lat(rng, zero_p=0.0, hi=0.2)
        c = ops_cfg(rng, ["resolve"], marks=[ttl])
        c.update(ttl=ttl, cap=rng.randint(1, 3), l=[lat(rng, hi=0.02) for _ in range(3)])
        return c

    def build(z, c):
        recs = {f"h{i}.example.com": DNSRecord(f"h{i}.example.com", f"10.0.0.{i}", ttl_s=check_num(c["ttl"], 1e-6))
                for i in range(max(1, int(c["nkeys"]) - 1))}
        r = z.add(DNSResolver("dns", cache_capacity=int(c["cap"]), root_latency_s=check_num(c["l"][0]),
                              tld_latency_s=check_num(c["l"][1]), auth_latency_s=check_num(c["l"][2]), records=recs))

        def script(i, kind, k, hold):
            z.touch(r)
            yield from r.resolve(f"h{k}.example.com")
        spawn(z, c, script)
        z.horizon_ns = horizon(c, 5)
    return gen, build


@driver("GarbageCollector", ["GarbageCollector"])
def _gc():
    def gen(rng):
        c = ops_cfg(rng, ["pause", "work"], n=rng.randint(2, 12), span=3.0)
        c.update(strategy=rng.choice(["stw", "concurrent", "generational"]), pressure=rng.choice([None, 0.1, 0.9]),
                 prime=rng.random() < 0.7, interval=lat(rng, zero_p=0.0, hi=0.5), gpause=lat(rng, hi=0.05))
        if rng.random() < 0.3:
            c["gpause"] = rel(rng, c["interval"], (0.5, 1.0, 1.5, 3.0))
        return c

    def build(z, c):
        iv, ps = check_num(c["interval"], 1e-6), check_num(c["gpause"])
        st = {"stw": lambda: StopTheWorld(base_pause_s=ps, interval_s=iv),
              "concurrent": lambda: ConcurrentGC(pause_s=ps, interval_s=iv),
              "generational": lambda: GenerationalGC(minor_pause_s=ps, major_pause_s=ps * 5, minor_interval_s=iv)}[c["strategy"]]()
        g = z.add(GarbageCollector("gc", strategy=st, heap_pressure=c.get("pressure")))
        if c["prime"]:
            z.after_init(lambda: g.prime())

        def script(i, kind, k, hold):
            z.touch(g)
            if kind == "pause":
                yield from g.pause()
            elif hold > 0:
                yield hold
        spawn(z, c, script)
        z.horizon_ns = horizon(c, 3)
    return gen, build


@driver("TCPConnection", ["TCPConnection"])
def _tcp():
    def gen(rng):
        rto = lat(rng, zero_p=0.0, hi=0.3)
        c = ops_cfg(rng, ["send"], n=rng.randint(3, 14), marks=[rto])
        c.update(cc=rng.choice(["aimd", "cubic", "bbr"]), rtt=lat(rng, zero_p=0.1, hi=0.1), loss=rng.choice([0.0, 0.01, 0.3]),
                 rto=rto, cwnd=rng.choice([1.0, 10.0]))
        return c

    def build(z, c):
        cc = {"aimd": AIMD, "cubic": Cubic, "bbr": BBR}[c["cc"]]()
        t = z.add(TCPConnection("tcp", congestion_control=cc, base_rtt_s=check_num(c["rtt"]), loss_rate=check_num(c["loss"], 0, 1),
                                initial_cwnd=check_num(c["cwnd"], 0.1), retransmit_timeout_s=check_num(c["rto"], 1e-6)))

        def script(i, kind, k, hold):
            z.touch(t)
            yield from t.send(1460 * (1 + 5 * k))
        spawn(z, c, script)
        z.horizon_ns = horizon(c, 20)
    return gen, build
