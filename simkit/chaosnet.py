"""Network and node fault seams owned by the kit.

* KeyedLatency — a LatencyDistribution whose k-th sample on a link is a pure
  function of (net_seed, link name, k): reordering, stragglers and slow links
  that survive shrinking (removing one message does not reshuffle the rest).
* build_mesh — real `Network` + one real `NetworkLink` per directed pair.
* FaultDriver — applies a JSON fault schedule (partitions/heals, crash/pause
  windows with restart, loss windows, extra-latency windows) through the
  repo's public API, reference-counted so overlapping windows compose, and
  counts what actually fired.

All times in scenarios are float seconds; windows are half-open [start, end).
"""
from __future__ import annotations

import random
from collections import Counter

from happysimulator.components.network.link import NetworkLink
from happysimulator.components.network.network import Network
from happysimulator.core.event import Event
from happysimulator.core.temporal import Duration, Instant
from happysimulator.distributions.latency_distribution import LatencyDistribution

from simkit.rng import H


class KeyedLatency(LatencyDistribution):
    """profile = {"base": s, "jitter": s, "straggler_p": p, "straggler": s, "slow_mult": x}

    Sample k on link L:  base + u1*jitter (+ straggler with prob straggler_p),
    all derived from H(seed, L, k).  `extra_s` can be raised temporarily by the
    FaultDriver (latency-injection windows).
    """

    def __init__(self, seed: int, link: str, profile: dict):
        super().__init__(profile.get("base", 0.001))
        self.seed = seed
        self.link = link
        self.p = profile
        self.k = 0
        self.extra_s = 0.0
        self.stragglers = 0

    def get_latency(self, current_time: Instant) -> Duration:
        k = self.k
        self.k += 1
        h = H(self.seed, self.link, k)
        u1 = (h & 0xFFFFFFFF) / 2.0**32
        u2 = (h >> 32) / 2.0**32
        p = self.p
        d = p.get("base", 0.001) + u1 * p.get("jitter", 0.0)
        if u2 < p.get("straggler_p", 0.0):
            d += p.get("straggler", 0.0) * (0.5 + u1)
            self.stragglers += 1
        d = d * p.get("slow_mult", 1.0) + self.extra_s
        return Duration(int(d * 1_000_000_000))

    def __deepcopy__(self, memo):  # LatencyDistribution.__add__ deep-copies; keep the counter shared semantics simple
        c = KeyedLatency(self.seed, self.link, dict(self.p))
        c.k = self.k
        c.extra_s = self.extra_s
        return c


def build_mesh(name: str, nodes: list, seed: int, profile: dict, per_link: dict | None = None):
    """Full mesh between `nodes` (entities with .name).  Returns (network, links)
    where links[(src_name, dst_name)] is the NetworkLink.  `per_link` may
    override the profile for "<src>-><dst>" keys (e.g. one slow link)."""
    net = Network(name=name)
    links = {}
    for a in nodes:
        for b in nodes:
            if a is b:
                continue
            key = f"{a.name}->{b.name}"
            prof = dict(profile)
            if per_link and key in per_link:
                prof.update(per_link[key])
            link = NetworkLink(name=f"link:{key}", latency=KeyedLatency(seed, key, prof))
            net.add_link(a, b, link)
            links[(a.name, b.name)] = link
    return net, links


def gen_latency_profile(rng: random.Random, scale: float = 0.01) -> dict:
    """Swarm-style delay profile: constant / uniform jitter / bimodal with stragglers."""
    kind = rng.choice(["const", "jitter", "jitter", "straggler", "wide"])
    if kind == "const":
        return {"base": scale, "jitter": 0.0}
    if kind == "jitter":
        return {"base": scale * 0.2, "jitter": scale * rng.choice([0.5, 1.0, 3.0])}
    if kind == "wide":
        return {"base": scale * 0.05, "jitter": scale * rng.choice([5.0, 20.0])}
    return {"base": scale * 0.2, "jitter": scale, "straggler_p": rng.choice([0.02, 0.1, 0.25]),
            "straggler": scale * rng.choice([10.0, 40.0, 150.0])}


def gen_faults(rng: random.Random, n_nodes: int, horizon_s: float, *, kinds=("partition", "crash", "pause", "loss"),
               max_faults: int = 5, min_len: float = 0.05, max_len_frac: float = 0.4) -> list[dict]:
    """A list of fault windows; overlapping / nested windows are generated on purpose."""
    out = []
    for _ in range(rng.randint(0, max_faults)):
        kind = rng.choice(list(kinds))
        start = round(rng.uniform(0.0, horizon_s * 0.8), 4)
        length = round(rng.uniform(min_len, horizon_s * max_len_frac), 4)
        end = round(start + length, 4)
        if kind == "partition":
            ids = list(range(n_nodes))
            rng.shuffle(ids)
            cut = rng.randint(1, n_nodes - 1)
            out.append({"kind": "partition", "a": sorted(ids[:cut]), "b": sorted(ids[cut:]),
                        "start": start, "end": end, "asym": rng.random() < 0.2})
        elif kind in ("crash", "pause"):
            out.append({"kind": kind, "node": rng.randrange(n_nodes), "start": start,
                        "end": None if (kind == "crash" and rng.random() < 0.15) else end})
        elif kind == "loss":
            out.append({"kind": "loss", "rate": rng.choice([0.1, 0.3, 0.6, 1.0]), "start": start, "end": end,
                        "src": rng.randrange(n_nodes), "dst": rng.randrange(n_nodes)})
        elif kind == "latency":
            out.append({"kind": "latency", "extra": rng.choice([0.01, 0.1, 0.5]), "start": start, "end": end,
                        "src": rng.randrange(n_nodes), "dst": rng.randrange(n_nodes)})
    return out


def last_fault_end(faults: list[dict]) -> float:
    ends = [f["end"] for f in faults if f.get("end") is not None]
    starts = [f["start"] for f in faults]
    return max(ends + starts + [0.0])


class FaultDriver:
    """Applies fault windows with reference counting through public APIs.

    Usage:  fd = FaultDriver(network, nodes, links, faults); sim.schedule(fd.events())
    `fired` counts fault activations that actually happened during the run;
    `network.events_dropped_partition` / link.packets_dropped count messages hit.
    A node is down iff at least one crash/pause window covers `now`.
    """

    def __init__(self, network: Network | None, nodes: list, links: dict, faults: list[dict],
                 on_change=None):
        self.net = network
        self.nodes = nodes
        self.links = links
        self.faults = faults
        self.active: list[dict] = []
        self.fired = Counter()
        self.on_change = on_change
        self.base_loss = {k: l.packet_loss_rate for k, l in links.items()}

    def events(self) -> list[Event]:
        times = set()
        for f in self.faults:
            times.add(f["start"])
            if f.get("end") is not None:
                times.add(f["end"])
        return [Event.once(time=Instant.from_seconds(t), event_type="chaos.boundary", fn=self._apply, daemon=True)
                for t in sorted(times)]

    def _apply(self, ev) -> None:
        now = ev.time.to_seconds()
        eps = 1e-9
        new_active = [f for f in self.faults
                      if f["start"] <= now + eps and (f.get("end") is None or now + eps < f["end"])]
        for f in new_active:
            if f not in self.active:
                self.fired[f"fault.{f['kind']}"] += 1
        for f in self.active:
            if f not in new_active:
                self.fired[f"fault.{f['kind']}_end"] += 1
        self.active = new_active
        # nodes
        down = {f["node"] for f in new_active if f["kind"] in ("crash", "pause")}
        for i, n in enumerate(self.nodes):
            was = getattr(n, "_crashed", False)
            n._crashed = i in down
            if was and i not in down:
                self.fired["fault.restart"] += 1
        # partitions: rebuild from the active set (public API only)
        if self.net is not None:
            self.net.heal_partition()
            for f in new_active:
                if f["kind"] == "partition":
                    a = [self.nodes[i] for i in f["a"] if i < len(self.nodes)]
                    b = [self.nodes[i] for i in f["b"] if i < len(self.nodes)]
                    if a and b:
                        self.net.partition(a, b, asymmetric=f.get("asym", False))
        # loss / latency windows on links
        loss = dict(self.base_loss)
        extra = {k: 0.0 for k in self.links}
        for f in new_active:
            if f["kind"] in ("loss", "latency"):
                if f["src"] >= len(self.nodes) or f["dst"] >= len(self.nodes) or f["src"] == f["dst"]:
                    continue
                key = (self.nodes[f["src"]].name, self.nodes[f["dst"]].name)
                if key not in self.links:
                    continue
                if f["kind"] == "loss":
                    loss[key] = max(loss[key], f["rate"])
                else:
                    extra[key] += f["extra"]
        for k, l in self.links.items():
            l.packet_loss_rate = loss[k]
            if isinstance(l.latency, KeyedLatency):
                l.latency.extra_s = extra[k]
        if self.on_change:
            self.on_change(now, new_active)

    def counters(self) -> dict:
        c = dict(self.fired)
        if self.net is not None:
            c["fault.msgs_dropped_by_partition"] = self.net.events_dropped_partition
        c["fault.msgs_dropped_by_loss"] = sum(l.packets_dropped for l in self.links.values())
        c["fault.stragglers"] = sum(getattr(l.latency, "stragglers", 0) for l in self.links.values())
        return c
