"""Structural delta-debugging over JSON scenarios.

A candidate is accepted only if `test(candidate)` is True (the caller's test
re-runs the scenario and compares the violation *signature*).  Because every
per-message random choice in the kit is keyed (not drawn from one stream),
removing an element does not reshuffle everything after it.
"""
from __future__ import annotations

import copy
import time
from typing import Any, Callable

SKIP_KEY_PARTS = ("seed",)


def _paths(node: Any, path=()):
    """Yield (path, value) for every container / scalar in the JSON tree."""
    yield path, node
    if isinstance(node, dict):
        for k in sorted(node):
            yield from _paths(node[k], path + (k,))
    elif isinstance(node, list):
        for i, v in enumerate(node):
            yield from _paths(v, path + (i,))


def _get(root, path):
    for p in path:
        root = root[p]
    return root


def _set(root, path, value):
    for p in path[:-1]:
        root = root[p]
    root[path[-1]] = value


def _skip(path, skip_keys) -> bool:
    for p in path:
        if isinstance(p, str):
            if p in skip_keys:
                return True
            for part in SKIP_KEY_PARTS:
                if part in p:
                    return True
    return False


def shrink(
    scenario: dict,
    test: Callable[[dict], bool],
    *,
    budget_s: float = 20.0,
    max_tests: int = 4000,
    skip_keys: tuple = (),
    min_len: dict | None = None,
) -> tuple[dict, dict]:
    """Return (smaller scenario, stats)."""
    t0 = time.monotonic()
    tests = 0
    accepted = 0
    cur = copy.deepcopy(scenario)
    min_len = min_len or {}

    def out_of_budget() -> bool:
        return tests >= max_tests or (time.monotonic() - t0) > budget_s

    def try_(cand) -> bool:
        nonlocal tests, cur, accepted
        tests += 1
        try:
            ok = test(cand)
        except Exception:
            ok = False
        if ok:
            cur = cand
            accepted += 1
        return ok

    progress = True
    while progress and not out_of_budget():
        progress = False
        # pass 1: shrink lists (largest first)
        list_paths = [p for p, v in _paths(cur) if isinstance(v, list) and v and not _skip(p, skip_keys)]
        list_paths.sort(key=lambda p: -len(_get(cur, p)))
        for p in list_paths:
            if out_of_budget():
                break
            try:
                lst = _get(cur, p)
            except (KeyError, IndexError, TypeError):
                continue
            if not isinstance(lst, list):
                continue
            lo = min_len.get(p[-1] if p else None, 0) if p and isinstance(p[-1], str) else 0
            chunk = max(1, len(lst) // 2)
            while chunk >= 1 and not out_of_budget():
                i = 0
                removed_any = False
                while i < len(lst) and not out_of_budget():
                    if len(lst) - min(chunk, len(lst) - i) < lo:
                        break
                    cand = copy.deepcopy(cur)
                    cl = _get(cand, p)
                    del cl[i : i + chunk]
                    if try_(cand):
                        lst = _get(cur, p)
                        removed_any = True
                        progress = True
                    else:
                        i += chunk
                if chunk == 1 and not removed_any:
                    break
                chunk = chunk // 2 if chunk > 1 else (1 if removed_any else 0)
        # pass 1b: drop keys of nested dicts (e.g. handler tables)
        for p, v in list(_paths(cur)):
            if out_of_budget():
                break
            if not p or _skip(p, skip_keys):
                continue
            try:
                d = _get(cur, p)
            except (KeyError, IndexError, TypeError):
                continue
            if not isinstance(d, dict):
                continue
            for k in sorted(d):
                if out_of_budget():
                    break
                if _skip((k,), skip_keys):
                    continue
                cand = copy.deepcopy(cur)
                del _get(cand, p)[k]
                if try_(cand):
                    progress = True
        # pass 2: simplify scalars
        for p, v in list(_paths(cur)):
            if out_of_budget():
                break
            if _skip(p, skip_keys) or not p:
                continue
            try:
                v = _get(cur, p)
            except (KeyError, IndexError, TypeError):
                continue
            cands = []
            if isinstance(v, bool):
                if v:
                    cands = [False]
            elif isinstance(v, int):
                if v != 0:
                    cands = [0, v // 2] if abs(v) > 1 else [0]
            elif isinstance(v, float):
                if v != 0.0:
                    cands = [0.0, float(int(v)), v / 2]
            for c in cands:
                if c == v:
                    continue
                cand = copy.deepcopy(cur)
                _set(cand, p, c)
                if try_(cand):
                    progress = True
                    break
    return cur, {"tests": tests, "accepted": accepted, "wall_s": round(time.monotonic() - t0, 2)}
