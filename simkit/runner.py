"""Driver shared by all checks: seeded sharded search, verdict protocol,
known-finding matching, minimisation, replay files, evidence.

Exit codes: 0 held (KNOWN-FINDING lines allowed) / 1 VIOLATION / 2 harness error.
"""
from __future__ import annotations

import argparse
import collections
import concurrent.futures as cf
import faulthandler
import fnmatch
import glob
import hashlib
import importlib
import json
import multiprocessing as mp
import os
import random
import signal
import subprocess
import sys
import time
import traceback

from simkit import repo
from simkit.rng import H
from simkit.shrink import shrink
from simkit.world import InvalidScenario

DEFAULT_SEED = {"quick": 20260921, "thorough": 20260922}
PER_RUN_TIMEOUT_S = 120.0   # CPU seconds (ITIMER_PROF): machine load must not turn into a harness error
PER_RUN_WALL_BACKSTOP_S = 900.0


class RunTimeout(Exception):
    pass


def load_check(prop: str):
    pats = glob.glob(os.path.join(repo.VERIF, "checks", f"{prop.lower()}_*.py"))
    if len(pats) != 1:
        raise SystemExit(f"no unique check module for {prop}: {pats}")
    name = os.path.splitext(os.path.basename(pats[0]))[0]
    return importlib.import_module(f"checks.{name}")


def _alarm(signum, frame):
    raise RunTimeout()


def safe_run(mod, sc: dict, timeout: float | None = None) -> dict:
    """Run one scenario; classify harness trouble apart from verdicts.

    A check whose scenarios are small bounded programs may declare CPU_LIMIT_S and TIMEOUT_SIG: a run that is still
    going after that many CPU seconds is then a verdict ("the run does not terminate"), not a harness error."""
    if timeout is None:
        timeout = float(getattr(mod, "CPU_LIMIT_S", PER_RUN_TIMEOUT_S))
    old = signal.signal(signal.SIGALRM, _alarm)
    oldp = signal.signal(signal.SIGPROF, _alarm)
    signal.setitimer(signal.ITIMER_REAL, PER_RUN_WALL_BACKSTOP_S)
    signal.setitimer(signal.ITIMER_PROF, timeout)
    try:
        res = mod.run(sc)
    except InvalidScenario:
        raise
    except RunTimeout:
        tsig = getattr(mod, "TIMEOUT_SIG", None)
        if tsig:
            res = {"sig": f"{mod.PROPERTY}/{tsig}", "msg": f"the run was still going after {timeout:.0f} CPU seconds", "timed_out": True}
        else:
            res = {"sig": None, "harness": "wall-timeout", "msg": "run exceeded wall timeout", "timed_out": True}
    except Exception:  # harness bug (checks convert repo exceptions themselves)
        res = {"sig": None, "harness": "exception", "msg": traceback.format_exc(limit=12)}
    finally:
        signal.setitimer(signal.ITIMER_PROF, 0)
        signal.setitimer(signal.ITIMER_REAL, 0)
        signal.signal(signal.SIGALRM, old)
        signal.signal(signal.SIGPROF, oldp)
    for k, v in (("digest", ""), ("nontrivial", False), ("counters", {}), ("sim_s", 0.0),
                 ("deliveries", 0), ("klass", "default"), ("state", None), ("msg", ""), ("extra", {})):
        res.setdefault(k, v)
    return res


def scenario_for(mod, prop: str, tier: str, vseed: int, i: int) -> dict:
    rs = H(vseed, prop, i)
    return mod.gen(random.Random(rs), tier)


def _batch(prop: str, tier: str, vseed: int, start: int, count: int) -> dict:
    faulthandler.enable()
    mod = load_check(prop)
    agg = {
        "n": 0, "digests": set(), "states": set(), "counters": collections.Counter(),
        "classes": collections.Counter(), "sim_s": 0.0, "deliveries": 0, "nontrivial": 0,
        "viol": {}, "harness": [], "samples": [],
    }
    for i in range(start, start + count):
        sc = scenario_for(mod, prop, tier, vseed, i)
        try:
            res = safe_run(mod, sc)
        except InvalidScenario as e:
            # the generator drew something its own validator rejects: explored nothing, judged nothing.  Skipping is
            # sound (it only costs a run); it becomes a harness error when it is more than a rare accident (see main)
            agg["n"] += 1
            agg["invalid"] = agg.get("invalid", 0) + 1
            agg["invalid_first"] = agg.get("invalid_first") or {"run": i, "kind": "invalid-generated-scenario", "msg": str(e)}
            agg["counters"].update({"skipped.generated_scenario_rejected_by_validator": 1})
            continue
        agg["n"] += 1
        if res.get("timed_out"):
            agg["timeouts"] = agg.get("timeouts", 0) + 1
            if agg["timeouts"] >= 2 and res.get("sig"):
                # runs that do not end are expensive: two in one batch are enough to report
                v = agg["viol"].setdefault(res["sig"], {"run": i, "msg": res["msg"], "count": 0})
                v["count"] += 1
                break
        if res.get("harness"):
            if len(agg["harness"]) < 5:
                agg["harness"].append({"run": i, "kind": res["harness"], "msg": res["msg"]})
            continue
        agg["counters"].update(res["counters"])
        agg["classes"][res["klass"]] += 1
        agg["sim_s"] += res["sim_s"]
        agg["deliveries"] += res["deliveries"]
        if res["nontrivial"]:
            agg["nontrivial"] += 1
            agg["digests"].add(res["digest"][:16])
        st = res.get("state")
        if st:
            if isinstance(st, (list, tuple, set)):
                agg["states"].update(st)
            else:
                agg["states"].add(st)
        if res["sig"]:
            v = agg["viol"].setdefault(res["sig"], {"run": i, "msg": res["msg"], "count": 0})
            v["count"] += 1
        if len(agg["samples"]) < 1 and res["nontrivial"]:
            agg["samples"].append({"run_index": i, "scenario": sc, "sig": res["sig"],
                                   "deliveries": res["deliveries"]})
    agg["digests"] = list(agg["digests"])
    agg["states"] = list(agg["states"])
    return agg


# --------------------------------------------------------------------------
# known findings
# --------------------------------------------------------------------------

def load_known() -> list[dict]:
    out = []
    path = os.path.join(repo.VERIF, "known_findings.json")
    if os.path.exists(path):
        with open(path) as f:
            out.extend(json.load(f).get("findings", []))
    # development-time fragments (one per property), merged into known_findings.json at integration
    for frag in sorted(glob.glob(os.path.join(repo.VERIF, "known", "*.json"))):
        with open(frag) as f:
            out.extend(json.load(f).get("findings", []))
    return out


def match_known(prop: str, sig: str, known: list[dict]) -> dict | None:
    for k in known:
        if k.get("property") != prop:
            continue
        if fnmatch.fnmatchcase(sig, k["signature"]):
            return k
    return None


# --------------------------------------------------------------------------
# evidence
# --------------------------------------------------------------------------

def _truncate(obj, depth=0, max_list=12, max_str=200):
    if isinstance(obj, dict):
        return {k: _truncate(v, depth + 1, max_list, max_str) for k, v in list(obj.items())[:40]}
    if isinstance(obj, list):
        out = [_truncate(v, depth + 1, max_list, max_str) for v in obj[:max_list]]
        if len(obj) > max_list:
            out.append(f"... +{len(obj) - max_list} more")
        return out
    if isinstance(obj, str) and len(obj) > max_str:
        return obj[:max_str] + "..."
    return obj


def write_evidence(prop: str, tier: str, vseed: int, mod, agg: dict, wall: float,
                   violations: int, known_hits: dict, selftest: dict, notes: list[str]) -> str:
    path = os.path.join(repo.VERIF, "evidence", f"{prop}.json")
    os.makedirs(os.path.dirname(path), exist_ok=True)
    n = agg["n"]
    counters = dict(sorted(agg["counters"].items()))
    fault_kinds = {k: v for k, v in counters.items() if k.startswith("fault.")}
    probes = {k: v for k, v in counters.items() if k.startswith("probe.")}
    stuck = [k for k in getattr(mod, "EXPECTED_PROBES", []) if counters.get(k, 0) == 0]
    ev = {
        "property_id": prop,
        "tier": tier,
        "seed": vseed,
        "level": "exploration",
        "wall_s": round(wall, 2),
        "violations": violations,
        "coverage": {
            "evaluations": n,
            "distinct_nontrivial": len(agg["digests"]),
            "rule": getattr(mod, "RULE", ""),
            "samples": [_truncate(s) for s in agg["samples"][:3]],
            "nontrivial_runs": agg["nontrivial"],
            "runs_per_hour": int(n / wall * 3600) if wall > 0 else 0,
            "simulated_seconds": round(agg["sim_s"], 3),
            "deliveries": agg["deliveries"],
            "fault_kinds_fired": fault_kinds,
            "probes": probes,
            "probes_stuck_at_zero": stuck,
            "other_counters": {k: v for k, v in counters.items() if k not in fault_kinds and k not in probes},
            "distinct_states": len(agg["states"]),
            "state_measure": getattr(mod, "STATE_MEASURE", "none"),
            "scenario_classes": dict(sorted(agg["classes"].items())),
            "known_finding_hits": known_hits,
            "determinism_selftest": selftest,
            "components_real": getattr(mod, "REAL", []),
            "components_stub": getattr(mod, "STUBS", []),
            "workers": agg.get("jobs", 0),
            "exhaustive": False,
        },
        "assumptions": list(getattr(mod, "ASSUMPTIONS", [])) + notes,
    }
    cov = ev["coverage"]
    assert cov["evaluations"] >= 1
    with open(path + ".tmp", "w") as f:
        json.dump(ev, f, indent=1, sort_keys=False, default=str)
    os.replace(path + ".tmp", path)
    return path


# --------------------------------------------------------------------------
# main
# --------------------------------------------------------------------------

def _sig_slug(sig: str) -> str:
    return hashlib.blake2b(sig.encode(), digest_size=4).hexdigest()


def minimise_and_write(mod, prop, tier, vseed, run_index, sig, msg, budget_s) -> str:
    sc = scenario_for(mod, prop, tier, vseed, run_index)

    def test(cand):
        try:
            r = safe_run(mod, cand, timeout=5.0 if sig.endswith("/" + str(getattr(mod, "TIMEOUT_SIG", "\0"))) else 30.0)
        except InvalidScenario:
            return False
        return (not r.get("harness")) and r["sig"] == sig

    small, st = shrink(sc, test, budget_s=budget_s,
                       skip_keys=tuple(getattr(mod, "SHRINK_SKIP", ())))
    final = safe_run(mod, small)
    rep = {
        "property": prop, "tier": tier, "verif_seed": vseed, "run_index": run_index,
        "signature": sig, "message": final.get("msg") or msg, "digest": final.get("digest"),
        "shrink": st, "scenario": small,
    }
    d = os.path.join(repo.VERIF, "replays")
    os.makedirs(d, exist_ok=True)
    path = os.path.join(d, f"{prop}-{_sig_slug(sig)}-{run_index}.json")
    with open(path, "w") as f:
        json.dump(rep, f, indent=1)
    return path


def replay_in_fresh_process(prop: str, path: str, sig: str) -> bool:
    env = dict(os.environ)
    env["PYTHONHASHSEED"] = "0"
    p = subprocess.run(
        [sys.executable, os.path.join(repo.VERIF, "vcheck.py"), prop, "--replay", path, "--expect-sig", sig],
        env=env, capture_output=True, text=True, timeout=300,
    )
    return p.returncode == 0 and "REPLAY-OK" in p.stdout


def selftest_determinism(mod, prop, tier, vseed, k: int) -> dict:
    """Same scenario twice in-process, and once more in a fresh interpreter
    with a different PYTHONHASHSEED; compare (sig, digest)."""
    out = {"runs": k, "in_process_repeat": "ok", "fresh_interpreter_other_hashseed": "ok"}
    first = []
    for i in range(k):
        sc = scenario_for(mod, prop, tier, vseed, i)
        try:
            a = safe_run(mod, sc)
            b = safe_run(mod, json.loads(json.dumps(sc)))
        except InvalidScenario:
            continue
        first.append([i, a["sig"], a["digest"]])
        if (a["sig"], a["digest"]) != (b["sig"], b["digest"]):
            out["in_process_repeat"] = f"MISMATCH run {i}: {a['sig']}/{a['digest']} vs {b['sig']}/{b['digest']}"
            return out
    if getattr(mod, "HASHSEED_SELFTEST", True):
        env = dict(os.environ)
        env["PYTHONHASHSEED"] = "4242"
        p = subprocess.run(
            [sys.executable, os.path.join(repo.VERIF, "vcheck.py"), prop, "--tier", tier,
             "--seed", str(vseed), "--digests", str(k)],
            env=env, capture_output=True, text=True, timeout=600,
        )
        try:
            other = json.loads(p.stdout.strip().splitlines()[-1])
        except Exception:
            out["fresh_interpreter_other_hashseed"] = f"FAILED rc={p.returncode} {p.stderr[-400:]}"
            return out
        if other != first:
            diff = [(x, y) for x, y in zip(first, other) if x != y][:2]
            out["fresh_interpreter_other_hashseed"] = f"MISMATCH {diff}"
    else:
        out["fresh_interpreter_other_hashseed"] = "skipped (property perturbs hash seed itself)"
    return out


def main(argv=None) -> int:
    ap = argparse.ArgumentParser()
    ap.add_argument("property")
    ap.add_argument("--tier", default=os.environ.get("VERIF_TIER", "quick"), choices=["quick", "thorough"])
    ap.add_argument("--seed", type=int, default=None)
    ap.add_argument("--runs", type=int, default=None)
    ap.add_argument("--wall", type=float, default=None)
    ap.add_argument("--jobs", type=int, default=None)
    ap.add_argument("--replay")
    ap.add_argument("--expect-sig")
    ap.add_argument("--digests", type=int)
    ap.add_argument("--run-index", type=int, help="run one generated scenario and print the result")
    ap.add_argument("--no-selftest", action="store_true")
    ap.add_argument("--no-evidence", action="store_true")
    args = ap.parse_args(argv)

    repo.ensure_hashseed()
    repo.activate()
    prop = args.property.upper()
    mod = load_check(prop)
    tier = args.tier
    env_seed = os.environ.get("VERIF_SEED")
    vseed = args.seed if args.seed is not None else (int(env_seed) if env_seed else DEFAULT_SEED[tier])
    known = load_known()

    # ---- replay mode
    if args.replay:
        with open(args.replay) as f:
            rep = json.load(f)
        res = safe_run(mod, rep["scenario"])
        print(f"replay property={prop} sig={res['sig']} digest={res['digest']} msg={res['msg']}")
        if res.get("harness"):
            print(f"HARNESS-ERROR {res['harness']}: {res['msg']}")
            return 2
        if args.expect_sig is not None:
            ok = res["sig"] == args.expect_sig and (not rep.get("digest") or rep["digest"] == res["digest"])
            print("REPLAY-OK" if ok else "REPLAY-MISMATCH")
            return 0 if ok else 3
        if res["sig"]:
            k = match_known(prop, res["sig"], known)
            if k:
                print(f"KNOWN-FINDING: property={prop} {k['what']} [{res['sig']}]")
                return 0
            print(f"VIOLATION property={prop} replay={os.path.abspath(args.replay)}")
            return 1
        return 0

    if args.digests is not None:
        out = []
        for i in range(args.digests):
            sc = scenario_for(mod, prop, tier, vseed, i)
            try:
                r = safe_run(mod, sc)
            except InvalidScenario:
                continue
            out.append([i, r["sig"], r["digest"]])
        print(json.dumps(out))
        return 0

    if args.run_index is not None:
        sc = scenario_for(mod, prop, tier, vseed, args.run_index)
        r = safe_run(mod, sc)
        print(json.dumps({"scenario": sc, "result": r}, indent=1, default=str))
        return 0

    # ---- search mode
    print(f"VERIF_SEED={vseed} property={prop} tier={tier} repo={repo.REPO}", flush=True)
    t0 = time.monotonic()
    runs = args.runs or int(os.environ.get("VERIF_RUNS", 0)) or mod.RUNS[tier]
    wall_budget = args.wall or float(os.environ.get("VERIF_WALL", 0)) or mod.WALL[tier]
    jobs = args.jobs or int(os.environ.get("VERIF_JOBS", 0)) or min(16, os.cpu_count() or 1)
    batch = getattr(mod, "BATCH", {}).get(tier, 50)

    total = {
        "n": 0, "digests": set(), "states": set(), "counters": collections.Counter(),
        "classes": collections.Counter(), "sim_s": 0.0, "deliveries": 0, "nontrivial": 0,
        "viol": {}, "harness": [], "samples": [], "jobs": jobs,
    }

    def merge(a):
        total["n"] += a["n"]
        total["digests"].update(a["digests"])
        total["states"].update(a["states"])
        total["counters"].update(a["counters"])
        total["classes"].update(a["classes"])
        total["sim_s"] += a["sim_s"]
        total["deliveries"] += a["deliveries"]
        total["nontrivial"] += a["nontrivial"]
        total["harness"].extend(a["harness"])
        total["samples"].extend(a["samples"])
        total["samples"].sort(key=lambda x: x["run_index"])
        del total["samples"][3:]
        total["timeouts"] = total.get("timeouts", 0) + a.get("timeouts", 0)
        total["invalid"] = total.get("invalid", 0) + a.get("invalid", 0)
        if a.get("invalid_first") and not total.get("invalid_first"):
            total["invalid_first"] = a["invalid_first"]
        for sig, v in a["viol"].items():
            cur = total["viol"].get(sig)
            if cur is None:
                total["viol"][sig] = dict(v)
            else:
                cur["count"] += v["count"]
                if v["run"] < cur["run"]:
                    cur["run"], cur["msg"] = v["run"], v["msg"]

    truncated = False
    ctx = mp.get_context("fork")
    with cf.ProcessPoolExecutor(max_workers=jobs, mp_context=ctx) as ex:
        pending = set()
        nxt = 0
        try:
            while True:
                while nxt < runs and len(pending) < jobs + 2 and not truncated:
                    c = min(batch, runs - nxt)
                    pending.add(ex.submit(_batch, prop, tier, vseed, nxt, c))
                    nxt += c
                if not pending:
                    break
                done, pending = cf.wait(pending, timeout=5.0, return_when=cf.FIRST_COMPLETED)
                for fut in done:
                    merge(fut.result())
                if time.monotonic() - t0 > wall_budget and nxt < runs:
                    truncated = True
                if total.get("timeouts", 0) >= 4 and nxt < runs:
                    truncated = True        # non-terminating runs: stop searching, report what was found
        except cf.process.BrokenProcessPool as e:
            print(f"HARNESS-ERROR worker died: {e}")
            return 2
    search_wall = time.monotonic() - t0

    notes = []
    if truncated:
        notes.append(f"wall budget {wall_budget}s reached after {total['n']} of {runs} planned runs")

    if total.get("invalid", 0) > max(3, total["n"] // 1000):
        total["harness"].append(total["invalid_first"])      # more than 0.1 %: the generator is broken
    elif total.get("invalid", 0):
        notes.append(f"{total['invalid']} generated scenario(s) rejected by the check's own validator and skipped "
                     f"(first: run {total['invalid_first']['run']}: {total['invalid_first']['msg']})")
    if total["harness"]:
        for h in total["harness"][:3]:
            print(f"HARNESS-ERROR run={h['run']} {h['kind']}: {h['msg']}")
        return 2

    # ---- determinism self-test
    selftest = {"skipped": True}
    if not args.no_selftest:
        selftest = selftest_determinism(mod, prop, tier, vseed, getattr(mod, "SELFTEST_RUNS", 6))
        bad = [v for v in selftest.values() if isinstance(v, str) and (v.startswith("MISMATCH") or v.startswith("FAILED"))]
        if bad:
            print(f"HARNESS-ERROR nondeterministic replay: {bad}")
            return 2

    # ---- verdicts
    known_hits = {}
    new = []
    for sig in sorted(total["viol"]):
        v = total["viol"][sig]
        k = match_known(prop, sig, known)
        if k:
            key = k["signature"]
            if key not in known_hits:
                known_hits[key] = 0
                print(f"KNOWN-FINDING: property={prop} {k['what']} [{k['signature']}]")
            known_hits[key] += v["count"]
        else:
            new.append((sig, v))
    rc = 0
    shrink_budget = getattr(mod, "SHRINK_BUDGET_S", {}).get(tier, 25.0 if tier == "quick" else 90.0)
    for sig, v in new[:4]:
        path = minimise_and_write(mod, prop, tier, vseed, v["run"], sig, v["msg"], shrink_budget)
        ok = replay_in_fresh_process(prop, path, sig)
        print(f"violation signature={sig} runs={v['count']} first_run={v['run']} "
              f"replayed_in_fresh_process={'yes' if ok else 'NO'}")
        print(f"  {v['msg']}")
        print(f"VIOLATION property={prop} replay={path}")
        rc = 1
    for sig, v in new[4:]:
        print(f"violation signature={sig} runs={v['count']} first_run={v['run']} (not minimised)")
        rc = 1

    wall = time.monotonic() - t0
    if not args.no_evidence:
        agg = dict(total)
        agg["digests"] = sorted(total["digests"])
        write_evidence(prop, tier, vseed, mod, agg, search_wall, len(new), known_hits, selftest, notes)
    stuck = [k for k in getattr(mod, "EXPECTED_PROBES", []) if total["counters"].get(k, 0) == 0]
    print(f"done property={prop} runs={total['n']} nontrivial={total['nontrivial']} "
          f"distinct={len(total['digests'])} violations={len(new)} known={len(known_hits)} "
          f"wall={wall:.1f}s" + (f" WARNING probes stuck at zero: {stuck}" if stuck else ""))
    return rc
