"""C03 — the model zoo: small, self-contained models assembled from the
repository's components the way its examples and guides assemble them.

Every entry of ZOO is {"gen": rng -> params (plain JSON), "build": (params, seed) -> (Simulation, stats_fn),
"family": tag}.  `build` is called right after `random.seed(seed); numpy.random.seed(seed)`; every `seed=`
parameter a component offers is passed explicitly (derived from the user seed) — "the same seeds" of the
property covers all seeds the API lets a user fix.  Harness entities (clients, drivers, consumers) are
deliberately dumb: they draw from module `random` like user code would and keep no state that could order
anything by identity.

Models are sized for <= ~5k deliveries (simkit.c03_exec.CAP = 6000 is a hard stop).
"""
from __future__ import annotations

import random

from simkit import repo

repo.activate()

from happysimulator.components.common import Counter, Sink  # noqa: E402
from happysimulator.core.entity import Entity  # noqa: E402
from happysimulator.core.event import Event  # noqa: E402
from happysimulator.core.sim_future import SimFuture  # noqa: E402
from happysimulator.core.simulation import Simulation  # noqa: E402
from happysimulator.core.temporal import Instant  # noqa: E402
from happysimulator.load.source import SimpleEventProvider, Source  # noqa: E402

ZOO: dict[str, dict] = {}


def model(name: str, family: str, gen):
    def deco(fn):
        ZOO[name] = {"gen": gen, "build": fn, "family": family}
        return fn
    return deco


def at(seconds: float) -> Instant:
    return Instant.from_seconds(seconds)


SEED_MODE = "derived"      # set per job by simkit.c03_exec.execute


def sub(seed: int, k: int) -> int:
    """How the user fills the seed= parameters of the components: 'derived' = a different seed per component computed from
    the one model seed; 'same' = the model seed itself everywhere (so that boundary seeds such as 0 reach every component)."""
    if SEED_MODE == "same":
        return seed
    return (seed * 1_000_003 + k * 7919) % (2**31 - 1)


# Spec bundle: declarative, stateless-by-contract configuration objects (fault specs, node-name lists, constant latencies,
# sharding strategies, resolvers, retention / compaction / sync policies).  A user who runs a scenario repeatedly defines
# them once and builds the model again from the same objects.  simkit.c03_exec sets SPEC_STORE per job: None = every build
# creates fresh objects; a dict pair = objects are created on the first build in this interpreter and reused afterwards.
SPEC_STORE = None          # {"seeded": {...}, "shared": {...}} or None


def spec(name: str, factory):
    """An object that belongs to this model *and its seeds* (e.g. RandomPartition(..., seed=s))."""
    if SPEC_STORE is None:
        return factory()
    d = SPEC_STORE["seeded"]
    if name not in d:
        d[name] = factory()
    return d[name]


def shared(name: str, factory):
    """An object that only depends on the model's structure (e.g. the list of node names): also shared with a sibling."""
    if SPEC_STORE is None:
        return factory()
    d = SPEC_STORE["shared"]
    if name not in d:
        d[name] = factory()
    return d[name]


class ZooCrash(Exception):
    """Raised on purpose by a handler of the dying_run model (an application bug in an earlier experiment)."""


class ZooAbort(BaseException):
    """Same, but not an Exception subclass (KeyboardInterrupt-like abort caught by the caller)."""


class Proc(Entity):
    """Entity whose handler is a function given at construction (user glue code)."""

    def __init__(self, name, fn):
        super().__init__(name)
        self.fn = fn
        self.calls = 0

    def handle_event(self, event):
        self.calls += 1
        return self.fn(self, event)


def words(n: int, prefix: str = "k") -> list[str]:
    """String keys (str hashing is what PYTHONHASHSEED randomises)."""
    return [f"{prefix}:{i:03d}:{'abcdefghij'[i % 10]}" for i in range(n)]


def zipf_pick(keys: list, skew: float = 1.1):
    """Skewed key choice from module random (user code)."""
    n = len(keys)
    u = random.random()
    i = int(n * (u ** (1.0 + skew)))
    return keys[min(i, n - 1)]


# ===========================================================================
# 1. sources -> servers / queues
# ===========================================================================

def _gen_mm1(rng):
    return {"arrival": rng.choice(["poisson", "constant"]), "rate": rng.choice([40.0, 80.0, 150.0]),
            "service": rng.choice(["exp", "const"]), "mean_ms": rng.choice([5.0, 10.0, 20.0]),
            "conc": rng.choice([1, 2, 4]), "qcap": rng.choice([None, 5, 50]), "horizon": rng.choice([1.5, 3.0])}


@model("mm1", "sources-servers", _gen_mm1)
def build_mm1(p, seed):
    from happysimulator.components.server.server import Server
    from happysimulator.distributions.constant import ConstantLatency
    from happysimulator.distributions.exponential import ExponentialLatency

    sink = Sink("sink")
    dist = ExponentialLatency(p["mean_ms"] / 1e3) if p["service"] == "exp" else ConstantLatency(p["mean_ms"] / 1e3)
    server = Server("server", concurrency=p["conc"], service_time=dist, queue_capacity=p["qcap"], downstream=sink)
    mk = Source.poisson if p["arrival"] == "poisson" else Source.constant
    src = mk(rate=p["rate"], target=server, event_type="Request", name="src", stop_after=p["horizon"] * 0.8)
    sim = Simulation(sources=[src], entities=[server, sink], end_time=at(p["horizon"]))

    def stats(s):
        s.add("server", server.stats)
        s.add("server.accepted", server.stats_accepted)
        s.add("server.dropped", server.stats_dropped)
        s.add("server.avg_service", server.average_service_time)
        s.add("sink.received", sink.events_received)
        s.add("sink.latency", sink.latency_stats())
        s.add("src.generated", src.generated_count)
    return sim, stats


POLICIES = ["fifo", "lifo", "prio", "deadline", "fair", "wfq", "alifo", "codel", "red", "balk", "balk_red"]


def _gen_qpol(rng):
    return {"policies": sorted(rng.sample(POLICIES, 3)), "rate": rng.choice([120.0, 180.0]), "mean_ms": rng.choice([6.0, 9.0]),
            "cap": rng.choice([8, 20, 40]), "horizon": rng.choice([1.5, 2.5]), "balk_p": rng.choice([0.3, 0.7, 1.0]),
            "util": rng.choice([0.9, 1.1, 1.4])}


def _mk_policy(kind: str, p: dict, clock):
    from happysimulator.components.industrial.balking import BalkingQueue
    from happysimulator.components.queue_policies import (
        AdaptiveLIFO, CoDelQueue, DeadlineQueue, FairQueue, REDQueue, WeightedFairQueue,
    )
    from happysimulator.components.queue_policy import FIFOQueue, LIFOQueue, PriorityQueue

    cap = p["cap"]
    if kind == "fifo":
        return FIFOQueue(capacity=cap)
    if kind == "lifo":
        return LIFOQueue(capacity=cap)
    if kind == "prio":
        return PriorityQueue(capacity=cap, key=lambda e: e.context["prio"])
    if kind == "deadline":
        return DeadlineQueue(get_deadline=lambda e: e.context["deadline"], capacity=cap, clock_func=clock)
    if kind == "fair":
        return FairQueue(get_flow_id=lambda e: e.context["flow"], max_flows=None, per_flow_capacity=cap)
    if kind == "wfq":
        return WeightedFairQueue(get_flow_id=lambda e: e.context["flow"],
                                 get_weight=lambda f: {"tenant:a": 3, "tenant:b": 2}.get(f, 1), capacity=cap)
    if kind == "alifo":
        return AdaptiveLIFO(congestion_threshold=max(2, cap // 3), capacity=cap)
    if kind == "codel":
        return CoDelQueue(target_delay=0.004, interval=0.04, capacity=cap, clock_func=clock)
    if kind == "red":
        return REDQueue(min_threshold=max(1, cap // 4), max_threshold=max(3, (3 * cap) // 4), max_probability=0.3,
                        capacity=cap, weight=0.2)
    if kind == "balk":
        return BalkingQueue(FIFOQueue(capacity=cap), balk_threshold=max(1, cap // 3), balk_probability=p["balk_p"])
    if kind == "balk_red":
        return BalkingQueue(_mk_policy("red", p, clock), balk_threshold=max(2, cap // 2), balk_probability=p["balk_p"])
    raise KeyError(kind)


@model("queue_policies", "queues", _gen_qpol)
def build_queue_policies(p, seed):
    """Three single-server stations side by side, each with its own queue policy and Poisson source (one third of the rate)."""
    from happysimulator.components.server.server import Server
    from happysimulator.distributions.exponential import ExponentialLatency

    flows = ["tenant:a", "tenant:b", "tenant:c", "tenant:d"]

    def ctx(time, count):
        return {"created_at": time, "request_id": count, "prio": random.randint(0, 4), "flow": random.choice(flows),
                "deadline": time + random.uniform(0.005, 0.2)}

    stations, srcs = [], []
    for kind in p["policies"]:
        sink = Sink(f"sink-{kind}")
        holder = {}
        policy = _mk_policy(kind, p, lambda h=holder: h["server"].now)
        server = Server(f"server-{kind}", concurrency=1, service_time=ExponentialLatency(p["util"] / (p["rate"] / 3)),
                        queue_policy=policy, downstream=sink)
        holder["server"] = server
        prov = SimpleEventProvider(server, "Request", at(p["horizon"] * 0.8), ctx)
        srcs.append(Source.poisson(rate=p["rate"] / 3, event_provider=prov, name=f"src-{kind}"))
        stations.append((kind, server, policy, sink))
    # each station gets a third of the arrivals and a service time that gives utilisation p["util"] (queues must build up)
    sim = Simulation(sources=srcs, entities=[x for _, sv, _, sk in stations for x in (sv, sk)], end_time=at(p["horizon"]))

    def stats(s):
        for kind, server, policy, sink in stations:
            s.add(f"{kind}.server", server.stats)
            s.add(f"{kind}.accepted", server.stats_accepted)
            s.add(f"{kind}.dropped", server.stats_dropped)
            if hasattr(policy, "stats"):
                s.add(f"{kind}.policy", policy.stats)
            inner = getattr(policy, "_inner", None)
            if inner is not None and hasattr(inner, "stats"):
                s.add(f"{kind}.policy.inner", inner.stats)
            s.add(f"{kind}.sink.received", sink.events_received)
            s.add(f"{kind}.sink.latency", sink.latency_stats())
            st = getattr(inner if kind == "balk_red" else policy, "stats", None)
            if kind in ("red", "balk_red"):
                s.probe("red_probabilistic_drop", st.dropped_probabilistic > 0)
            if kind == "codel":
                s.probe("codel_drop", st.dropped > 0)
            if kind in ("balk", "balk_red"):
                s.probe("balked", server.stats_dropped > 0)
    return sim, stats


# ===========================================================================
# 2. network with lossy / jittered links
# ===========================================================================

def _mk_link(kind: str, name: str, scale: float = 1.0):
    """Link factories a user picks from (condition factories + hand-made jittered/lossy links)."""
    from happysimulator.components.network import conditions as C
    from happysimulator.components.network.link import NetworkLink
    from happysimulator.distributions.constant import ConstantLatency
    from happysimulator.distributions.exponential import ExponentialLatency

    if kind == "datacenter":
        return C.datacenter_network(name)
    if kind == "lossy":
        return C.lossy_network(0.15, name, base_latency=0.004 * scale)
    if kind == "jitter":
        return NetworkLink(name=name, latency=ConstantLatency(0.002 * scale), jitter=ExponentialLatency(0.003 * scale))
    if kind == "lossy_jitter":
        return NetworkLink(name=name, latency=ExponentialLatency(0.004 * scale), packet_loss_rate=0.1,
                           jitter=ExponentialLatency(0.001 * scale), bandwidth_bps=5_000_000)
    if kind == "cross_region":
        return C.cross_region_network(name)
    raise KeyError(kind)


LINKS = ["datacenter", "lossy", "jitter", "lossy_jitter"]


def _mesh(network, nodes, kind, scale=1.0, mixed=None):
    k = 0
    for i, a in enumerate(nodes):
        for b in nodes[i + 1:]:
            kk = mixed[k % len(mixed)] if mixed else kind
            network.add_bidirectional_link(a, b, _mk_link(kk, f"link-{a.name}-{b.name}", scale))
            k += 1


def _link_stats(s, network):
    s.add("net.routed", network.events_routed)
    s.add("net.dropped_partition", network.events_dropped_partition)
    s.add("net.dropped_no_route", network.events_dropped_no_route)
    for (a, b), link in network._routes.items() if hasattr(network, "_routes") else []:
        s.add(f"link[{a}>{b}]", link.link_stats)


def _gen_net(rng):
    return {"n": rng.choice([3, 4, 5]), "links": [rng.choice(LINKS) for _ in range(3)], "rate": rng.choice([40.0, 80.0]),
            "horizon": rng.choice([2.0, 4.0]), "timeout": rng.choice([0.02, 0.05])}


@model("network_rpc", "network", _gen_net)
def build_network_rpc(p, seed):
    """A gateway spreads requests over backends through a Network with lossy / jittered links, retries once on timeout."""
    from happysimulator.components.network.network import Network

    net = Network(name="net")
    done = {"ok": 0, "retry": 0, "lost": 0, "late": 0}
    pending = {}

    def backend_fn(self, ev):
        md = ev.context["metadata"]
        yield random.expovariate(1 / 0.002)
        return [net.send(self, gateway, "Reply", payload={"rid": md["rid"], "size": 800})]

    backends = [Proc(f"backend-{i}", backend_fn) for i in range(p["n"])]

    def gateway_fn(self, ev):
        et = ev.event_type
        if et == "Request":
            rid = ev.context["request_id"]
            b = random.choice(backends)
            pending[rid] = 1
            return [net.send(self, b, "Call", payload={"rid": rid, "size": 200}),
                    Event(time=self.now + p["timeout"], event_type="Timeout", target=self, context={"rid": rid})]
        if et == "Reply":
            rid = ev.context["metadata"]["rid"]
            if pending.pop(rid, None) is None:
                done["late"] += 1
            else:
                done["ok"] += 1
            return None
        if et == "Timeout":
            rid = ev.context["rid"]
            tries = pending.get(rid)
            if tries is None:
                return None
            if tries >= 2:
                del pending[rid]
                done["lost"] += 1
                return None
            pending[rid] = tries + 1
            done["retry"] += 1
            b = random.choice(backends)
            return [net.send(self, b, "Call", payload={"rid": rid, "size": 200}),
                    Event(time=self.now + p["timeout"], event_type="Timeout", target=self, context={"rid": rid})]
        return None

    gateway = Proc("gateway", gateway_fn)
    for i, b in enumerate(backends):
        net.add_bidirectional_link(gateway, b, _mk_link(p["links"][i % len(p["links"])], f"link-gw-{b.name}"))
    src = Source.poisson(rate=p["rate"], target=gateway, event_type="Request", name="src", stop_after=p["horizon"] * 0.8)
    sim = Simulation(sources=[src], entities=[net, gateway, *backends], end_time=at(p["horizon"]))

    def stats(s):
        s.add("gateway", done)
        s.add("backend.calls", [b.calls for b in backends])
        _link_stats(s, net)
        s.probe("link_packet_lost", any(l.packets_dropped > 0 for l in net._routes.values()))
        s.probe("rpc_retry", done["retry"] > 0)
    return sim, stats


# ===========================================================================
# 3. consensus: Raft, Paxos, Multi-Paxos, Flexible Paxos, leader election, SWIM
# ===========================================================================

def _start_all(nodes, t=0.01):
    """As in examples/distributed/raft_leader_election.py: one Event.once per node calling node.start()."""
    evs = []
    for node in nodes:
        def mk(n):
            def fn(event):
                return n.start()
            return fn
        evs.append(Event.once(time=at(t), event_type="StartNode", fn=mk(node)))
    return evs


def _gen_cluster(rng):
    return {"n": rng.choice([3, 5]), "link": rng.choice(LINKS), "mixed": rng.random() < 0.3, "horizon": rng.choice([2.0, 3.0]),
            "cmds": rng.randint(3, 12), "partition": rng.random() < 0.5}


def _cluster_net(p, nodes, scale=1.0):
    from happysimulator.components.network.network import Network

    net = Network(name="cluster-net")
    return net


def _submitter(nodes, p, leader_of, submit):
    """Client glue: every 0.1 s find a leader and submit the next command (examples/distributed/raft_leader_election.py)."""
    state = {"i": 0, "no_leader": 0, "futures": []}

    def fn(self, ev):
        out = []
        if state["i"] < p["cmds"]:
            ld = leader_of()
            if ld is None:
                state["no_leader"] += 1
            else:
                res = submit(ld, {"op": "set", "key": f"key:{state['i'] % 4}", "value": state["i"]})
                if isinstance(res, tuple):           # (future, events to schedule)
                    out.extend(res[1] or [])
                    res = res[0]
                state["futures"].append(res)
                state["i"] += 1
            out.append(Event(time=self.now + 0.1 + random.random() * 0.05, event_type="ClientTick", target=self))
        return out

    return Proc("client", fn), state


def _partition_events(net, nodes, p, t0, t1):
    handle = []

    def cut(ev):
        k = max(1, len(nodes) // 2)
        handle.append(net.partition(nodes[:k], nodes[k:]))
        return None

    def heal(ev):
        for h in handle:
            h.heal()
        return None

    if not p.get("partition"):
        return []
    return [Event.once(time=at(t0), event_type="Partition", fn=cut), Event.once(time=at(t1), event_type="Heal", fn=heal)]


@model("raft", "consensus", _gen_cluster)
def build_raft(p, seed):
    from happysimulator.components.consensus.raft import RaftNode
    from happysimulator.components.consensus.raft_state_machine import KVStateMachine
    from happysimulator.components.network.network import Network

    net = Network(name="raft-net")
    sms = [KVStateMachine() for _ in range(p["n"])]
    nodes = [RaftNode(name=f"node-{i + 1}", network=net, state_machine=sms[i], election_timeout_min=0.15,
                      election_timeout_max=0.3, heartbeat_interval=0.05) for i in range(p["n"])]
    for nd in nodes:
        nd.set_peers(nodes)
    _mesh(net, nodes, p["link"], mixed=LINKS if p["mixed"] else None)
    start = _start_all(nodes)
    client, cstate = _submitter(nodes, p, lambda: next((n for n in nodes if n.is_leader), None),
                                lambda ld, cmd: ld.submit(cmd))
    first = Event(time=at(0.6), event_type="ClientTick", target=client)
    faults = _partition_events(net, nodes, p, p["horizon"] * 0.4, p["horizon"] * 0.6)
    sim = Simulation(entities=[net, *nodes, client], duration=p["horizon"])
    for e in [*start, first, *faults]:
        sim.schedule(e)

    def stats(s):
        for nd, sm in zip(nodes, sms):
            s.add(f"{nd.name}", nd.stats)
            s.add(f"{nd.name}.sm", sm.data)
            s.add(f"{nd.name}.log", ";".join(f"{e.index}:{e.term}:{e.command!r}" for e in nd.log.entries_from(1)))
        s.add("client", {"submitted": cstate["i"], "no_leader": cstate["no_leader"],
                         "resolved": [(f.is_resolved, repr(f.value) if f.is_resolved else None) for f in cstate["futures"]]})
        _link_stats(s, net)
        s.probe("raft_leader_elected", any(nd.is_leader for nd in nodes))
        s.probe("raft_command_committed", any(nd.stats.commit_index > 0 for nd in nodes))
        s.probe("raft_second_election", sum(nd.stats.elections_started for nd in nodes) > 1)
        s.probe("partition_dropped_messages", net.events_dropped_partition > 0)
    return sim, stats


@model("paxos", "consensus", _gen_cluster)
def build_paxos(p, seed):
    """Single-decree Paxos with 2-3 competing proposers (retries draw random back-off)."""
    from happysimulator.components.consensus.paxos import PaxosNode
    from happysimulator.components.network.network import Network

    net = Network(name="paxos-net")
    nodes = [PaxosNode(name=f"node-{i + 1}", network=net, retry_delay=0.05) for i in range(p["n"])]
    for nd in nodes:
        nd.set_peers(nodes)
    _mesh(net, nodes, p["link"], mixed=LINKS if p["mixed"] else None)
    trig = []
    for j in range(min(3, p["n"])):
        def mk(nd, val):
            def fn(ev):
                nd.propose(val)
                return nd.start_phase1()
            return fn
        trig.append(Event.once(time=at(0.1 + 0.0005 * j), event_type="TriggerProposal", fn=mk(nodes[j], f"value-{j}")))
    sim = Simulation(entities=[net, *nodes], duration=p["horizon"])
    for e in trig:
        sim.schedule(e)

    def stats(s):
        for nd in nodes:
            s.add(nd.name, nd.stats)
            s.add(f"{nd.name}.decided", (nd.is_decided, nd.decided_value))
        _link_stats(s, net)
        s.probe("paxos_decided", any(nd.is_decided for nd in nodes))
        s.probe("paxos_nack_retry", any(nd.stats.nacks_received > 0 for nd in nodes))
    return sim, stats


def _log_cluster(cls_name, p, seed, **kw):
    from happysimulator.components.consensus.flexible_paxos import FlexiblePaxosNode
    from happysimulator.components.consensus.multi_paxos import MultiPaxosNode
    from happysimulator.components.consensus.raft_state_machine import KVStateMachine
    from happysimulator.components.network.network import Network

    cls = {"multi": MultiPaxosNode, "flex": FlexiblePaxosNode}[cls_name]
    net = Network(name="px-net")
    sms = [KVStateMachine() for _ in range(p["n"])]
    nodes = [cls(name=f"node-{i + 1}", network=net, state_machine=sms[i], heartbeat_interval=0.1, **kw)
             for i in range(p["n"])]
    for nd in nodes:
        nd.set_peers(nodes)
    _mesh(net, nodes, p["link"], mixed=LINKS if p["mixed"] else None)
    start = _start_all(nodes[:1]) + _start_all(nodes[1:2], t=0.5)      # a second node campaigns later
    def submit(ld, cmd):
        # as examples/distributed/flexible_paxos_quorums.py drives it: submit, then replicate the newly assigned slot
        fut = ld.submit(cmd)
        return fut, ld._replicate_slot(ld.log.last_index)

    client, cstate = _submitter(nodes, p, lambda: next((n for n in nodes if n.is_leader), None), submit)
    first = Event(time=at(0.3), event_type="ClientTick", target=client)
    faults = _partition_events(net, nodes, p, p["horizon"] * 0.4, p["horizon"] * 0.6)
    sim = Simulation(entities=[net, *nodes, client], duration=p["horizon"])
    for e in [*start, first, *faults]:
        sim.schedule(e)

    def stats(s):
        for nd, sm in zip(nodes, sms):
            s.add(nd.name, nd.stats)
            s.add(f"{nd.name}.leader", nd.leader)
            s.probe("multipaxos_committed", nd.stats.commands_committed > 0)
            s.add(f"{nd.name}.sm", sm.data)
            s.add(f"{nd.name}.log", ";".join(f"{e.index}:{e.term}:{e.command!r}" for e in nd.log.entries_from(1)))
        s.add("client", {"submitted": cstate["i"], "no_leader": cstate["no_leader"],
                         "resolved": [(f.is_resolved, repr(f.value) if f.is_resolved else None) for f in cstate["futures"]]})
        _link_stats(s, net)
    return sim, stats


@model("multi_paxos", "consensus", _gen_cluster)
def build_multi_paxos(p, seed):
    return _log_cluster("multi", p, seed, leader_lease_timeout=0.5)


def _gen_flex(rng):
    d = _gen_cluster(rng)
    d["n"] = 5
    d["q"] = rng.choice([[3, 3], [4, 2], [2, 4]])
    return d


@model("flexible_paxos", "consensus", _gen_flex)
def build_flexible_paxos(p, seed):
    return _log_cluster("flex", p, seed, phase1_quorum=p["q"][0], phase2_quorum=p["q"][1])


def _gen_election(rng):
    return {"n": rng.choice([3, 4, 6]), "strategy": rng.choice(["bully", "ring", "randomized"]), "link": rng.choice(LINKS),
            "horizon": rng.choice([3.0, 5.0]), "partition": rng.random() < 0.5}


@model("leader_election", "consensus", _gen_election)
def build_leader_election(p, seed):
    from happysimulator.components.consensus.election_strategies import BullyStrategy, RandomizedStrategy, RingStrategy
    from happysimulator.components.consensus.leader_election import LeaderElection
    from happysimulator.components.network.network import Network

    net = Network(name="el-net")
    mk = {"bully": BullyStrategy, "ring": RingStrategy, "randomized": lambda: RandomizedStrategy(ballot_range=1000)}[p["strategy"]]
    nodes = [LeaderElection(name=f"member-{chr(97 + i)}", network=net, strategy=mk(), election_timeout=0.3 + 0.05 * i,
                            heartbeat_interval=0.1) for i in range(p["n"])]
    for a in nodes:
        for b in nodes:
            a.add_member(b)
    _mesh(net, nodes, p["link"])
    faults = _partition_events(net, nodes, p, p["horizon"] * 0.4, p["horizon"] * 0.7)
    sim = Simulation(entities=[net, *nodes], duration=p["horizon"])
    for e in [*_start_all(nodes), *faults]:
        sim.schedule(e)

    def stats(s):
        for nd in nodes:
            s.add(nd.name, nd.stats)
        _link_stats(s, net)
        s.probe("election_leader_known", any(nd.current_leader for nd in nodes))
        s.probe("election_randomized_ballot", p["strategy"] == "randomized" and any(nd.stats.elections_started for nd in nodes))
    return sim, stats


def _gen_swim(rng):
    return {"n": rng.choice([4, 5, 6]), "link": rng.choice(LINKS), "horizon": rng.choice([4.0, 6.0]),
            "partition": rng.random() < 0.7, "indirect": rng.choice([1, 2, 3])}


@model("swim", "membership", _gen_swim)
def build_swim(p, seed):
    from happysimulator.components.consensus.membership import MembershipProtocol
    from happysimulator.components.network.network import Network

    net = Network(name="swim-net")
    nodes = [MembershipProtocol(name=f"node-{i + 1}", network=net, probe_interval=0.2, suspicion_timeout=0.8,
                                indirect_probe_count=p["indirect"], phi_threshold=4.0) for i in range(p["n"])]
    for a in nodes:
        for b in nodes:
            a.add_member(b)
    _mesh(net, nodes, p["link"])
    faults = _partition_events(net, nodes, p, p["horizon"] * 0.3, p["horizon"] * 0.7)
    sim = Simulation(entities=[net, *nodes], duration=p["horizon"])
    for e in [*_start_all(nodes), *faults]:
        sim.schedule(e)

    def stats(s):
        for nd in nodes:
            s.add(nd.name, nd.stats)
            s.add(f"{nd.name}.alive", nd.alive_members)
            s.add(f"{nd.name}.suspected", nd.suspected_members)
            s.add(f"{nd.name}.dead", nd.dead_members)
        _link_stats(s, net)
        s.probe("swim_suspected_or_dead", any(nd.stats.suspect_count + nd.stats.dead_count > 0 for nd in nodes))
        s.probe("swim_indirect_probe", any(nd.stats.indirect_probes_sent > 0 for nd in nodes))
    return sim, stats


# ===========================================================================
# 4. storage engines and caches (string keys everywhere)
# ===========================================================================

class KVClient(Entity):
    """A user's client process: think, pick a skewed key, get / put / delete through the store's generator API."""

    def __init__(self, name, store, keys, n_ops, mix=(0.6, 0.35, 0.05), think_s=0.002, scan=False):
        super().__init__(name)
        self.store, self.keys, self.n_ops, self.mix, self.think_s, self.scan = store, keys, n_ops, mix, think_s, scan
        self.results = []
        self.done = 0

    def handle_event(self, event):
        return self._run()

    def _run(self):
        st = self.store
        for i in range(self.n_ops):
            yield random.expovariate(1.0 / self.think_s)
            k = zipf_pick(self.keys)
            r = random.random()
            if r < self.mix[0]:
                v = yield from st.get(k)
                self.results.append(("g", k, v))
            elif r < self.mix[0] + self.mix[1]:
                yield from st.put(k, f"{self.name}#{i}")
                self.results.append(("p", k))
            elif self.scan and r > 0.97:
                lo, hi = sorted((zipf_pick(self.keys), zipf_pick(self.keys)))
                out = yield from st.scan(lo, hi)
                self.results.append(("s", lo, hi, len(out)))
            elif hasattr(st, "delete"):
                v = yield from st.delete(k)
                self.results.append(("d", k, v))
            self.done += 1
        return None


def _start_clients(sim, clients, stagger=0.0007):
    for i, c in enumerate(clients):
        sim.schedule(Event(time=at(0.001 + stagger * i), event_type="Start", target=c))


def _client_stats(s, clients):
    import hashlib as _h

    for c in clients:
        s.add(f"{c.name}.done", c.done)
        s.add(f"{c.name}.results", _h.blake2b(repr(c.results).encode(), digest_size=8).hexdigest())
        s.add(f"{c.name}.last", repr(c.results[-3:]))


def _gen_lsm(rng):
    return {"memtable": rng.choice([4, 8, 16]), "strategy": rng.choice(["size_tiered", "leveled", "fifo"]),
            "wal": rng.choice(["every", "batch", "periodic", None]), "disk": rng.random() < 0.4,
            "clients": rng.choice([1, 2, 3]), "ops": rng.choice([60, 100]), "keys": rng.choice([12, 30, 60])}


@model("lsm_wal", "storage", _gen_lsm)
def build_lsm_wal(p, seed):
    from happysimulator.components.resource import Resource
    from happysimulator.components.storage.lsm_tree import FIFOCompaction, LeveledCompaction, LSMTree, SizeTieredCompaction
    from happysimulator.components.storage.wal import SyncEveryWrite, SyncOnBatch, SyncPeriodic, WriteAheadLog

    disk = Resource("disk", capacity=2) if p["disk"] else None
    wal = None
    if p["wal"]:
        pol = shared("wal_sync", lambda: {"every": SyncEveryWrite, "batch": lambda: SyncOnBatch(batch_size=4),
                                          "periodic": lambda: SyncPeriodic(0.005)}[p["wal"]]())
        wal = WriteAheadLog("wal", sync_policy=pol, disk=disk, write_latency=0.0001, sync_latency=0.0005)
    strat = shared("compaction", lambda: {"size_tiered": lambda: SizeTieredCompaction(min_sstables=3),
                                          "leveled": lambda: LeveledCompaction(level_0_max=3, size_ratio=4, base_size_keys=16),
                                          "fifo": lambda: FIFOCompaction(max_total_sstables=6)}[p["strategy"]]())
    db = LSMTree("db", memtable_size=p["memtable"], compaction_strategy=strat, wal=wal, disk=disk,
                 sstable_read_latency=0.0004, sstable_write_latency=0.0008, max_levels=4)
    keys = shared("keys", lambda: words(p["keys"], "user"))
    clients = [KVClient(f"client-{i}", db, keys, p["ops"], think_s=0.003) for i in range(p["clients"])]
    ents = [db, *clients] + ([disk] if disk else []) + ([wal] if wal else [])
    sim = Simulation(entities=ents)
    _start_clients(sim, clients)

    def stats(s):
        s.add("db", db.stats)
        s.add("db.levels", db.level_summary)
        s.probe("lsm_flush", db.stats.memtable_flushes > 0)
        s.probe("lsm_compaction", db.stats.compactions > 0)
        s.probe("lsm_bloom_save", db.stats.bloom_filter_saves > 0)
        if wal is not None:
            s.add("wal", wal.stats)
            s.add("wal.synced_up_to", wal.synced_up_to)
        if disk is not None:
            s.add("disk", disk.stats)
        _client_stats(s, clients)
    return sim, stats


def _gen_btree(rng):
    return {"order": rng.choice([3, 4, 8, 32]), "clients": rng.choice([1, 2, 3]), "ops": rng.choice([60, 120]),
            "keys": rng.choice([20, 80]), "disk": rng.random() < 0.3}


@model("btree", "storage", _gen_btree)
def build_btree(p, seed):
    from happysimulator.components.resource import Resource
    from happysimulator.components.storage.btree import BTree

    disk = Resource("disk", capacity=1) if p["disk"] else None
    bt = BTree("index", order=p["order"], disk=disk, page_read_latency=0.0003, page_write_latency=0.0006)
    keys = words(p["keys"], "row")
    clients = [KVClient(f"client-{i}", bt, keys, p["ops"], mix=(0.45, 0.4, 0.15), think_s=0.002, scan=True)
               for i in range(p["clients"])]
    sim = Simulation(entities=[bt, *clients] + ([disk] if disk else []))
    _start_clients(sim, clients)

    def stats(s):
        s.add("btree", bt.stats)
        s.probe("btree_split", bt.stats.node_splits > 0)
        s.add("btree.depth", bt.depth)
        s.add("btree.size", bt.size)
        _client_stats(s, clients)
    return sim, stats


EVICTION = ["lru", "lfu", "ttl", "ttl_default_clock", "fifo", "random", "slru", "sampled_lru", "clock", "two_queue"]


def _mk_eviction(kind, seed, clock_s):
    from happysimulator.components.datastore import eviction_policies as EP

    if kind == "lru":
        return EP.LRUEviction()
    if kind == "lfu":
        return EP.LFUEviction()
    if kind == "ttl":
        return EP.TTLEviction(ttl=0.05, clock_func=clock_s)          # simulated clock passed explicitly
    if kind == "ttl_default_clock":
        return EP.TTLEviction(ttl=30.0)                              # documented default: time.time
    if kind == "fifo":
        return EP.FIFOEviction()
    if kind == "random":
        return EP.RandomEviction(seed=sub(seed, 11))
    if kind == "slru":
        return EP.SLRUEviction(protected_ratio=0.6)
    if kind == "sampled_lru":
        return EP.SampledLRUEviction(sample_size=3, seed=sub(seed, 12))
    if kind == "clock":
        return EP.ClockEviction()
    if kind == "two_queue":
        return EP.TwoQueueEviction(kin_ratio=0.25)
    raise KeyError(kind)


def _gen_cached(rng):
    return {"policy": rng.choice(EVICTION + ["random", "sampled_lru"]), "cap": rng.choice([4, 8, 16]), "write_back": rng.random() < 0.5,
            "clients": rng.choice([1, 2, 3]), "ops": rng.choice([80, 140]), "keys": rng.choice([24, 60]),
            "backing_cap": rng.choice([None, None, 20]), "flushes": rng.choice([0, 1, 2, 2]),
            "policy2": rng.choice(["random", "sampled_lru"])}


@model("cached_store", "caches", _gen_cached)
def build_cached_store(p, seed):
    from happysimulator.components.datastore.cached_store import CachedStore
    from happysimulator.components.datastore.kv_store import KVStore

    backing = KVStore("backing", read_latency=0.004, write_latency=0.006, capacity=p["backing_cap"])
    keys = words(p["keys"], "obj")
    for i, k in enumerate(keys[: len(keys) // 2]):
        backing.put_sync(k, f"init#{i}")
    pol = _mk_eviction(p["policy"], seed, lambda: backing.now.to_seconds())
    cache = CachedStore("cache", backing, p["cap"], pol, cache_read_latency=0.0002, write_through=not p["write_back"])
    clients = [KVClient(f"client-{i}", cache, keys, p["ops"], mix=(0.65, 0.3, 0.05)) for i in range(p["clients"])]

    def flusher(self, ev):
        n = yield from cache.flush()
        self.flushed = getattr(self, "flushed", 0) + n
        return [Event(time=self.now + 0.05, event_type="Flush", target=self, daemon=True)]

    fl = Proc("flusher", flusher)

    def wipe(self, ev):
        cache.invalidate_all()          # operator flushes the cache mid-run (also clears the eviction policy)
        return None

    wiper = Proc("wiper", wipe)
    # second, small cache with a *seeded* policy (random / sampled LRU) that is always flushed twice mid-run and refills:
    # the reset path of every seeded policy is exercised in every run of this model
    backing2 = KVStore("backing2", read_latency=0.003, write_latency=0.004)
    for i, k in enumerate(keys):
        backing2.put_sync(k, f"init#{i}")
    cache2 = CachedStore("cache2", backing2, 8, _mk_eviction(p.get("policy2", "sampled_lru"), seed + 7, lambda: backing2.now.to_seconds()),
                         cache_read_latency=0.0002)
    client2 = KVClient("client-seeded", cache2, keys, p["ops"], mix=(0.8, 0.2, 0.0))

    def wipe2(self, ev):
        cache2.invalidate_all()
        return None

    wiper2 = Proc("wiper2", wipe2)
    sim = Simulation(entities=[backing, cache, fl, wiper, backing2, cache2, wiper2, client2, *clients])
    _start_clients(sim, [*clients, client2])
    span = 0.003 * p["ops"]
    for frac in (0.3, 0.6):
        sim.schedule(Event(time=at(span * frac), event_type="InvalidateAll", target=wiper2))
    for i in range(p.get("flushes", 0)):
        sim.schedule(Event(time=at(span * (i + 1) / (p.get("flushes", 0) + 1.5)), event_type="InvalidateAll", target=wiper))
    if p["write_back"]:
        sim.schedule(Event(time=at(0.05), event_type="Flush", target=fl, daemon=True))

    def stats(s):
        s.add("cache", cache.stats)
        s.probe("cache_eviction", cache.stats.evictions > 0)
        s.probe("cache_eviction_random_policy", p["policy"] in ("random", "sampled_lru") and cache.stats.evictions > 0)
        s.probe("cache_writeback_flush", getattr(fl, "flushed", 0) > 0)
        s.probe("cache_invalidated_then_evicted_again", wiper.calls > 0 and cache.stats.evictions > 0)
        s.probe("seeded_policy_cleared_mid_run", wiper2.calls > 0 and cache2.stats.evictions > 0)
        s.add("cache2", cache2.stats)
        s.add("cache2.keys", cache2.get_cached_keys())
        _client_stats(s, [client2])
        s.add("cache.hit_rate", cache.hit_rate)
        s.add("cache.cached_keys", cache.get_cached_keys())
        s.add("cache.dirty", sorted(cache.get_dirty_keys()))
        s.add("backing", backing.stats)
        s.add("backing.keys", backing.keys())
        s.add("flushed", getattr(fl, "flushed", 0))
        _client_stats(s, clients)
    return sim, stats


def _gen_softttl(rng):
    return {"flushes": rng.choice([0, 1]), "soft": rng.choice([0.01, 0.03]), "hard": rng.choice([0.05, 0.2]), "cap": rng.choice([None, 6, 12]),
            "clients": rng.choice([2, 3]), "ops": rng.choice([80, 120]), "keys": rng.choice([10, 30])}


@model("soft_ttl_cache", "caches", _gen_softttl)
def build_soft_ttl(p, seed):
    from happysimulator.components.datastore.kv_store import KVStore
    from happysimulator.components.datastore.soft_ttl_cache import SoftTTLCache

    backing = KVStore("backing", read_latency=0.005, write_latency=0.005)
    keys = words(p["keys"], "page")
    for i, k in enumerate(keys):
        backing.put_sync(k, f"init#{i}")
    cache = SoftTTLCache("cache", backing, soft_ttl=p["soft"], hard_ttl=p["hard"], cache_capacity=p["cap"],
                         cache_read_latency=0.0002)
    clients = [KVClient(f"client-{i}", cache, keys, p["ops"], mix=(0.85, 0.15, 0.0), think_s=0.003) for i in range(p["clients"])]
    wiper = Proc("wiper", lambda self, ev: cache.invalidate_all())
    sim = Simulation(entities=[backing, cache, wiper, *clients])
    _start_clients(sim, clients)
    if p.get("flushes"):
        sim.schedule(Event(time=at(0.0015 * p["ops"]), event_type="InvalidateAll", target=wiper))

    def stats(s):
        s.add("cache", cache.stats)
        s.probe("softttl_stale_hit_refresh", cache.stats.background_refreshes > 0)
        s.add("cache.cached_keys", cache.get_cached_keys())
        s.add("backing", backing.stats)
        _client_stats(s, clients)
    return sim, stats


def _gen_multitier(rng):
    return {"l1": rng.choice(EVICTION), "l2": rng.choice(EVICTION), "cap1": rng.choice([3, 6]), "cap2": rng.choice([10, 20]),
            "promo": rng.choice(["always", "on_second_access", "never"]), "clients": rng.choice([1, 2]), "flushes": rng.choice([0, 1, 2]),
            "ops": rng.choice([80, 120]), "keys": rng.choice([30, 60])}


@model("multi_tier_cache", "caches", _gen_multitier)
def build_multi_tier(p, seed):
    from happysimulator.components.datastore.cached_store import CachedStore
    from happysimulator.components.datastore.kv_store import KVStore
    from happysimulator.components.datastore.multi_tier_cache import MultiTierCache

    backing = KVStore("backing", read_latency=0.006, write_latency=0.008)
    keys = words(p["keys"], "item")
    for i, k in enumerate(keys):
        backing.put_sync(k, f"init#{i}")
    clock = lambda: backing.now.to_seconds()  # noqa: E731
    l1 = CachedStore("L1", backing, p["cap1"], _mk_eviction(p["l1"], seed, clock), cache_read_latency=0.0001)
    l2 = CachedStore("L2", backing, p["cap2"], _mk_eviction(p["l2"], seed + 1, clock), cache_read_latency=0.001)
    cache = MultiTierCache("cache", [l1, l2], backing, promotion_policy=p["promo"])
    clients = [KVClient(f"client-{i}", cache, keys, p["ops"], mix=(0.75, 0.2, 0.05)) for i in range(p["clients"])]

    def warm(self, ev):
        # MultiTierCache itself only ever fills L1; the user warms L2 through its public API so that promotion can happen
        for i, k in enumerate(keys[: p["cap2"]]):
            yield from l2.put(k, f"init#{i}")
        return None

    warmer = Proc("warmer", warm)

    def wipe(self, ev):
        cache.invalidate_all()
        return None

    wiper = Proc("wiper", wipe)
    sim = Simulation(entities=[backing, l1, l2, cache, warmer, wiper, *clients])
    for i in range(p.get("flushes", 0)):
        sim.schedule(Event(time=at(0.003 * p["ops"] * (i + 1) / (p.get("flushes", 0) + 1.5)), event_type="InvalidateAll", target=wiper))
    sim.schedule(Event(time=at(0.0), event_type="Warm", target=warmer))
    _start_clients(sim, clients, stagger=0.0007)

    def stats(s):
        s.add("cache", cache.stats)
        s.add("tiers", cache.get_tier_stats())
        s.probe("multitier_promotion", cache.stats.promotions > 0)
        s.probe("multitier_l1_eviction", l1.stats.evictions > 0)
        s.probe("cache_eviction_random_policy", (p["l1"] in ("random", "sampled_lru") and l1.stats.evictions > 0)
                or (p["l2"] in ("random", "sampled_lru") and l2.stats.evictions > 0))
        s.add("L1.keys", l1.get_cached_keys())
        s.add("L2.keys", l2.get_cached_keys())
        s.add("backing", backing.stats)
        _client_stats(s, clients)
    return sim, stats


def _gen_sharded(rng):
    return {"shards": rng.choice([2, 3, 5]), "strategy": rng.choice(["hash", "range", "consistent"]), "vnodes": rng.choice([8, 50]),
            "clients": rng.choice([1, 3]), "ops": rng.choice([80, 150]), "keys": rng.choice([40, 100])}


@model("sharded_store", "datastore", _gen_sharded)
def build_sharded(p, seed):
    from happysimulator.components.datastore.kv_store import KVStore
    from happysimulator.components.datastore.sharded_store import (
        ConsistentHashSharding, HashSharding, RangeSharding, ShardedStore,
    )

    shards = [KVStore(f"shard-{i}", read_latency=0.001 * (i + 1), write_latency=0.002) for i in range(p["shards"])]
    strat = spec("sharding", lambda: {"hash": HashSharding, "range": RangeSharding,
                                      "consistent": lambda: ConsistentHashSharding(virtual_nodes=p["vnodes"], seed=sub(seed, 3))}[p["strategy"]]())
    store = ShardedStore("sharded", shards, strat)
    keys = [f"{'abcdefghijklmnopqrstuvwxyz'[i % 26]}{w}" for i, w in enumerate(words(p["keys"], "u"))]
    clients = [KVClient(f"client-{i}", store, keys, p["ops"], mix=(0.5, 0.4, 0.1)) for i in range(p["clients"])]

    def scatter(self, ev):
        ks = random.sample(keys, 8)
        out = yield from store.scatter_gather(ks)
        self.got = sorted((k, v) for k, v in out.items())
        return None

    sg = Proc("scatter", scatter)
    sim = Simulation(entities=[store, *shards, sg, *clients])
    _start_clients(sim, clients)
    sim.schedule(Event(time=at(0.15), event_type="Scatter", target=sg))

    def stats(s):
        s.add("store", store.stats)
        s.add("distribution", store.stats.get_shard_distribution())
        s.add("shard_sizes", store.get_shard_sizes())
        s.add("all_keys", store.get_all_keys())
        s.add("scatter", getattr(sg, "got", None))
        _client_stats(s, clients)
    return sim, stats


def _gen_replicated(rng):
    lv = ["ONE", "QUORUM", "ALL"]
    return {"replicas": rng.choice([3, 5]), "r": rng.choice(lv), "w": rng.choice(lv), "clients": rng.choice([1, 2, 3]),
            "ops": rng.choice([50, 90]), "keys": rng.choice([10, 40])}


@model("replicated_store", "datastore", _gen_replicated)
def build_replicated(p, seed):
    from happysimulator.components.datastore.kv_store import KVStore
    from happysimulator.components.datastore.replicated_store import ConsistencyLevel, ReplicatedStore

    reps = [KVStore(f"replica-{i}", read_latency=0.001 + 0.0007 * i, write_latency=0.002 + 0.001 * ((i * 3) % 4))
            for i in range(p["replicas"])]
    store = ReplicatedStore("replicated", reps, read_consistency=ConsistencyLevel[p["r"]],
                            write_consistency=ConsistencyLevel[p["w"]], read_timeout=0.05, write_timeout=0.05)
    keys = words(p["keys"], "acct")
    clients = [KVClient(f"client-{i}", store, keys, p["ops"], mix=(0.5, 0.4, 0.1)) for i in range(p["clients"])]
    sim = Simulation(entities=[store, *reps, *clients])
    _start_clients(sim, clients)

    def stats(s):
        s.add("store", store.stats)
        s.add("replica_status", store.get_replica_status())
        s.probe("replicated_quorum_write", store.stats.write_successes > 0)
        for r in reps:
            s.add(r.name, r.stats)
        _client_stats(s, clients)
    return sim, stats


# ===========================================================================
# 5. replication: primary-backup, chain, multi-leader; CRDT store gossip
# ===========================================================================

class RWClient(Entity):
    """Writer/reader after examples/distributed/*_replication.py: Write/Read events carrying a reply future."""

    def __init__(self, name, write_targets, read_targets, keys, read_p=0.3):
        super().__init__(name)
        self.wt, self.rt, self.keys, self.read_p = write_targets, read_targets, keys, read_p
        self.n = 0
        self.replies = []

    def handle_event(self, event):
        self.n += 1
        key = zipf_pick(self.keys)
        reply = SimFuture()
        if random.random() < self.read_p:
            tgt = random.choice(self.rt)
            ev = Event(time=self.now, event_type="Read", target=tgt, context={"metadata": {"key": key, "reply_future": reply}})
        else:
            tgt = random.choice(self.wt)
            ev = Event(time=self.now, event_type="Write", target=tgt,
                       context={"metadata": {"key": key, "value": f"{self.name}#{self.n}", "reply_future": reply}})
        start = self.now
        yield 0.0, [ev]
        r = yield reply
        self.replies.append((tgt.name, key, (self.now - start).nanoseconds, _plain(r)))
        return None


def _plain(r):
    if isinstance(r, dict):
        return sorted((str(k), _plain(v)) for k, v in r.items())
    if isinstance(r, (list, tuple)):
        return [_plain(x) for x in r]
    if isinstance(r, (set, frozenset)):
        return sorted(_plain(x) for x in r)
    return r if isinstance(r, (int, float, str, bool, type(None))) else str(r)


def _rw_stats(s, clients):
    import hashlib as _h

    for c in clients:
        s.add(f"{c.name}.n", c.n)
        s.add(f"{c.name}.replies", len(c.replies))
        s.add(f"{c.name}.digest", _h.blake2b(repr(c.replies).encode(), digest_size=8).hexdigest())
        s.add(f"{c.name}.last", repr(c.replies[-2:]))


def _gen_repl(rng):
    return {"n": rng.choice([2, 3, 4]), "link": rng.choice(LINKS), "rate": rng.choice([30.0, 50.0]), "horizon": rng.choice([2.0, 3.0]),
            "mode": rng.choice(["ASYNC", "SEMI_SYNC", "SYNC"]), "craq": rng.random() < 0.5, "keys": rng.choice([6, 20]),
            "resolver": rng.choice(["lww", "vcm"]), "ae": rng.choice([0.0, 0.3]), "partition": rng.random() < 0.4}


@model("primary_backup", "replication", _gen_repl)
def build_primary_backup(p, seed):
    from happysimulator.components.datastore.kv_store import KVStore
    from happysimulator.components.network.network import Network
    from happysimulator.components.replication.primary_backup import BackupNode, PrimaryNode, ReplicationMode

    net = Network(name="net")
    ps = KVStore("ps", write_latency=0.001, read_latency=0.001)
    bss = [KVStore(f"bs{i}", write_latency=0.001 + 0.0005 * i, read_latency=0.001) for i in range(p["n"])]
    primary = PrimaryNode("primary", store=ps, backups=[], network=net, mode=ReplicationMode[p["mode"]])
    backups = [BackupNode(f"backup-{i}", store=bss[i], network=net, primary=primary) for i in range(p["n"])]
    primary._backups = backups                                   # wiring exactly as the repo's example does it
    primary._backup_lag = {b.name: 0 for b in backups}
    for b in backups:
        net.add_bidirectional_link(primary, b, _mk_link(p["link"], f"link-{b.name}"))
    keys = words(p["keys"], "acct")
    client = RWClient("writer", [primary], [primary, *backups], keys)
    src = Source.poisson(rate=p["rate"], target=client, event_type="NewOp", name="src", stop_after=p["horizon"] * 0.7)
    sim = Simulation(sources=[src], entities=[client, primary, *backups, net, ps, *bss], duration=p["horizon"])

    def stats(s):
        s.add("primary", primary.stats)
        s.add("primary.lag", primary.backup_lag)
        s.probe("pb_replicated", any(b.stats.replications_applied > 0 for b in backups))
        s.probe("link_packet_lost", any(l.packets_dropped > 0 for l in net._routes.values()))
        for b, st in zip(backups, bss):
            s.add(b.name, b.stats)
            s.add(f"{b.name}.seq", b.last_applied_seq)
            s.add(f"{b.name}.data", sorted((k, st.get_sync(k)) for k in st.keys()))
        s.add("ps.data", sorted((k, ps.get_sync(k)) for k in ps.keys()))
        _rw_stats(s, [client])
        _link_stats(s, net)
    return sim, stats


@model("chain_replication", "replication", _gen_repl)
def build_chain(p, seed):
    from happysimulator.components.datastore.kv_store import KVStore
    from happysimulator.components.network.network import Network
    from happysimulator.components.replication.chain_replication import build_chain as _bc

    net = Network(name="net")
    n = p["n"] + 1
    nodes = _bc([f"node-{i}" for i in range(n)], net, store_factory=lambda nm: KVStore(nm, write_latency=0.001, read_latency=0.001),
                craq_enabled=p["craq"])
    for i in range(n - 1):
        net.add_bidirectional_link(nodes[i], nodes[i + 1], _mk_link(p["link"], f"link-{i}-{i + 1}"))
    if n > 2:
        net.add_bidirectional_link(nodes[0], nodes[-1], _mk_link(p["link"], "link-head-tail"))
    keys = words(p["keys"], "obj")
    readers = nodes if p["craq"] else [nodes[-1]]
    client = RWClient("writer", [nodes[0]], readers, keys)
    src = Source.poisson(rate=p["rate"], target=client, event_type="NewOp", name="src", stop_after=p["horizon"] * 0.7)
    sim = Simulation(sources=[src], entities=[client, *nodes, net, *[nd.store for nd in nodes]], duration=p["horizon"])

    def stats(s):
        for nd in nodes:
            s.add(nd.name, nd.stats)
            s.add(f"{nd.name}.dirty", nd.dirty_keys)
            s.add(f"{nd.name}.data", sorted((k, nd.store.get_sync(k)) for k in nd.store.keys()))
        _rw_stats(s, [client])
        _link_stats(s, net)
    return sim, stats


@model("multi_leader", "replication", _gen_repl)
def build_multi_leader(p, seed):
    from happysimulator.components.datastore.kv_store import KVStore
    from happysimulator.components.network.network import Network
    from happysimulator.components.replication.conflict_resolver import LastWriterWins, VectorClockMerge
    from happysimulator.components.replication.multi_leader import LeaderNode

    net = Network(name="net")
    regions = ["east", "west", "north", "south"][: max(2, p["n"])]
    resolver = shared("resolver", {"lww": LastWriterWins, "vcm": VectorClockMerge}[p["resolver"]])
    leaders = [LeaderNode(f"leader-{r}", store=KVStore(f"store-{r}", write_latency=0.001, read_latency=0.001), network=net,
                          conflict_resolver=resolver, anti_entropy_interval=p["ae"]) for r in regions]
    for ld in leaders:
        ld.add_peers([x for x in leaders if x is not ld])
    _mesh(net, leaders, p["link"])
    keys = words(p["keys"], "doc")
    clients = [RWClient(f"writer-{r}", [ld], [ld], keys, read_p=0.2) for r, ld in zip(regions, leaders)]
    srcs = [Source.poisson(rate=p["rate"] / len(leaders), target=c, event_type="NewOp", name=f"src-{c.name}",
                           stop_after=p["horizon"] * 0.6) for c in clients]
    ae = [Event(time=at(p["ae"]), event_type="AntiEntropy", target=ld, daemon=True) for ld in leaders] if p["ae"] > 0 else []
    faults = _partition_events(net, leaders, p, p["horizon"] * 0.2, p["horizon"] * 0.5)
    sim = Simulation(sources=srcs, entities=[*clients, *leaders, net, *[ld.store for ld in leaders]], duration=p["horizon"])
    for e in [*ae, *faults]:
        sim.schedule(e)

    def stats(s):
        for ld in leaders:
            s.add(ld.name, ld.stats)
            s.add(f"{ld.name}.merkle", ld.merkle_tree.root_hash)
            s.probe("multileader_conflict", ld.stats.conflicts_detected > 0)
            s.probe("multileader_anti_entropy_random_peer", ld.stats.anti_entropy_syncs > 0)
            s.add(f"{ld.name}.versions", sorted((k, str(v.value), v.writer_id, sorted((v.vector_clock or {}).items()))
                                                for k, v in ld.versions.items()))
        _rw_stats(s, clients)
        _link_stats(s, net)
    return sim, stats


def _gen_crdt(rng):
    return {"n": rng.choice([2, 3, 5]), "kind": rng.choice(["gcounter", "pncounter", "orset", "orset"]), "link": rng.choice(LINKS),
            "gossip": rng.choice([0.05, 0.1]), "ops": rng.choice([40, 90]), "keys": rng.choice([2, 6]), "horizon": 1.5,
            "partition": rng.random() < 0.4}


@model("crdt_store", "crdt", _gen_crdt)
def build_crdt_store(p, seed):
    from happysimulator.components.crdt import CRDTStore, GCounter, LWWRegister, ORSet, PNCounter
    from happysimulator.components.network.network import Network

    net = Network(name="net")
    cls = {"gcounter": GCounter, "pncounter": PNCounter, "lww": LWWRegister, "orset": ORSet}[p["kind"]]
    stores = [CRDTStore(f"replica-{i}", network=net, crdt_factory=lambda nid, c=cls: c(nid), gossip_interval=p["gossip"])
              for i in range(p["n"])]
    for st in stores:
        st.add_peers([x for x in stores if x is not st])
    _mesh(net, stores, p["link"])
    keys = words(p["keys"], "crdt")
    ur = random.Random(sub(seed, 5))                      # the user's own workload generator
    evs = []
    for i in range(p["ops"]):
        t = ur.uniform(0.01, p["horizon"] * 0.6)
        node = ur.choice(stores)
        key = ur.choice(keys)
        if p["kind"] == "gcounter":
            op, val = "increment", ur.randint(1, 3)
        elif p["kind"] == "pncounter":
            op, val = ur.choice(["increment", "decrement"]), ur.randint(1, 3)
        elif p["kind"] == "lww":
            op, val = "set", f"v{i}"
        else:
            op, val = ur.choice(["add", "add", "remove"]), f"elem:{ur.randint(0, 5)}"
        evs.append(Event(time=at(t), event_type="Write", target=node,
                         context={"metadata": {"key": key, "value": val, "operation": op}}))
    faults = _partition_events(net, stores, p, 0.3, 0.7)
    sim = Simulation(entities=[net, *stores], duration=p["horizon"])
    sim.schedule(evs)
    for st in stores:
        g = st.get_gossip_event()
        if g is not None:
            sim.schedule(g)
    for e in faults:
        sim.schedule(e)

    def stats(s):
        for st in stores:
            s.add(st.name, st.stats)
            s.add(f"{st.name}.lag", st.convergence_lag)
            s.probe("crdt_gossip_random_peer", st.stats.gossip_sent > 0)
            s.probe("crdt_keys_merged", st.stats.keys_merged > 0)
            s.add(f"{st.name}.values", sorted((k, _plain(c.value)) for k, c in st.crdts.items()))
            s.add(f"{st.name}.state", sorted((k, repr(_plain(c.to_dict()))) for k, c in st.crdts.items()))
        _link_stats(s, net)
    return sim, stats


# ===========================================================================
# 6. messaging and streaming
# ===========================================================================

def _gen_mq(rng):
    return {"consumers": rng.choice([1, 2, 4]), "msgs": rng.choice([40, 90]), "reject_p": rng.choice([0.15, 0.3, 0.4]),
            "silent_p": rng.choice([0.0, 0.1]), "max_redeliveries": rng.choice([1, 3]), "dlq": rng.random() < 0.85,
            "capacity": rng.choice([None, 2, 8]), "latency": rng.choice([0.001, 0.004])}


@model("message_queue", "messaging", _gen_mq)
def build_message_queue(p, seed):
    from happysimulator.components.messaging.dlq import DeadLetterQueue
    from happysimulator.components.messaging.message_queue import MessageQueue

    dlq = DeadLetterQueue("dlq") if p["dlq"] else None
    q = MessageQueue("orders", delivery_latency=p["latency"], redelivery_delay=0.05, max_redeliveries=p["max_redeliveries"],
                     capacity=p["capacity"], dead_letter_queue=dlq)
    got = {}

    def consume(self, ev):
        if ev.event_type == "message_delivery":
            mid = ev.context["message_id"]
            order = ev.context["payload"].context["metadata"]["order"]
            got.setdefault(self.name, []).append((order, ev.context["delivery_count"]))
            yield random.expovariate(1 / 0.003)
            r = random.random()
            if r < p["silent_p"]:
                red = q.schedule_redelivery(mid)           # consumer-side visibility timeout
                return [red] if red is not None else None
            if r < p["silent_p"] + p["reject_p"]:
                q.reject(mid, requeue=random.random() < 0.5)
                return [Event(time=self.now, event_type="poll", target=q)]
            q.acknowledge(mid)
        return None

    consumers = [Proc(f"consumer-{i}", consume) for i in range(p["consumers"])]
    for c in consumers:
        q.subscribe(c)
    refused = {"n": 0}
    ids = []

    def produce(self, ev):
        i = ev.context["i"]
        payload = Event(time=self.now, event_type="Order", target=q, context={"metadata": {"order": i}})
        try:
            mid = yield from q.publish(payload)
        except RuntimeError:
            refused["n"] += 1
            return None
        ids.append(mid)
        return [Event(time=self.now, event_type="poll", target=q)]

    producer = Proc("producer", produce)

    def drain(self, ev):
        out = [Event(time=self.now + 0.02, event_type="Drain", target=self, daemon=True)]
        if q.pending_count:
            out.append(Event(time=self.now, event_type="poll", target=q))
        return out

    drainer = Proc("drainer", drain)
    sim = Simulation(entities=[q, producer, drainer, *consumers] + ([dlq] if dlq else []), duration=2.0)
    t = 0.0
    for i in range(p["msgs"]):
        t += random.expovariate(1 / 0.006)
        sim.schedule(Event(time=at(0.01 + t), event_type="Produce", target=producer, context={"i": i}))
    sim.schedule(Event(time=at(0.02), event_type="Drain", target=drainer, daemon=True))

    def stats(s):
        s.add("queue", q.stats)
        s.probe("mq_redelivered", q.stats.messages_redelivered > 0)
        s.probe("mq_dead_lettered", q.stats.messages_dead_lettered > 0)
        s.probe("mq_refused_at_capacity", refused["n"] > 0)
        s.add("queue.pending", q.pending_count)
        s.add("queue.in_flight", q.in_flight_count)
        if dlq is not None:
            s.add("dlq", dlq.stats)
            s.add("dlq.orders", [m.payload.context["metadata"]["order"] for m in dlq.messages])
        s.add("refused", refused["n"])
        s.add("published", len(ids))
        s.add("distinct_ids", len(set(ids)))
        for c in consumers:
            s.add(f"{c.name}.got", got.get(c.name, []))
    return sim, stats


def _gen_topic(rng):
    return {"subs": rng.choice([2, 3, 5]), "msgs": rng.choice([30, 80]), "latency": rng.choice([0.0, 0.002]),
            "churn": rng.random() < 0.6, "retain": rng.random() < 0.5}


@model("topic", "messaging", _gen_topic)
def build_topic(p, seed):
    from happysimulator.components.messaging.topic import Topic

    topic = Topic("events", delivery_latency=p["latency"])
    if p["retain"]:
        topic.set_retain_messages(True, max_history=10)
    got = {}

    def on_msg(self, ev):
        if ev.event_type == "topic_message":
            got.setdefault(self.name, []).append((ev.context["payload"].context["metadata"]["n"], bool(ev.context.get("is_replay"))))
        return None

    subs = [Proc(f"subscriber-{i}", on_msg) for i in range(p["subs"])]
    for sb in subs[: max(1, p["subs"] - 1)]:
        topic.subscribe(sb)

    def admin(self, ev):
        sb = random.choice(subs)
        if topic.get_subscription(sb) is not None and topic.get_subscription(sb).active:
            topic.unsubscribe(sb)
            return None
        return topic.subscribe(sb, replay_history=True)

    adm = Proc("admin", admin)
    sim = Simulation(entities=[topic, adm, *subs], duration=2.0)
    t = 0.0
    for n in range(p["msgs"]):
        t += random.expovariate(1 / 0.01)
        payload = Event(time=at(0.01 + t), event_type="Tick", target=topic, context={"metadata": {"n": n}})
        sim.schedule(Event(time=at(0.01 + t), event_type="publish", target=topic, context={"payload": payload}))
        if p["churn"] and n % 7 == 3:
            sim.schedule(Event(time=at(0.01 + t + 0.0005), event_type="Churn", target=adm))

    def stats(s):
        s.add("topic", topic.stats)
        s.probe("topic_unsubscribe", topic.stats.subscribers_removed > 0)
        s.probe("topic_replay", any(r for v in got.values() for _, r in v))
        s.add("topic.subscribers", [x.name for x in topic.subscribers])
        for sb in subs:
            s.add(f"{sb.name}.got", got.get(sb.name, []))
    return sim, stats


def _gen_stream(rng):
    return {"partitions": rng.choice([2, 4, 6]), "consumers": rng.choice([2, 3, 4]), "assign": rng.choice(["range", "rr", "sticky", "custom", "custom"]),
            "records": rng.choice([60, 120]), "retention": rng.choice([None, "size", "time"]), "leave": rng.random() < 0.6,
            "sharding": rng.choice(["hash", "consistent"])}


@model("event_log_group", "streaming", _gen_stream)
def build_event_log_group(p, seed):
    from happysimulator.components.datastore.sharded_store import ConsistentHashSharding, HashSharding
    from happysimulator.components.streaming.consumer_group import (
        ConsumerGroup, RangeAssignment, RoundRobinAssignment, StickyAssignment,
    )
    from happysimulator.components.streaming.event_log import EventLog, SizeRetention, TimeRetention

    ret = shared("retention", lambda: {None: None, "size": SizeRetention(max_records=15), "time": TimeRetention(max_age_s=0.3)}[p["retention"]])
    shard = spec("sharding", lambda: HashSharding() if p["sharding"] == "hash" else ConsistentHashSharding(virtual_nodes=20, seed=sub(seed, 9)))
    log = EventLog("log", num_partitions=p["partitions"], sharding_strategy=shard, retention_policy=ret, append_latency=0.001,
                   read_latency=0.0005, retention_check_interval=0.2)
    class FirstTakesHalf:
        """A user's PartitionAssignment: the first consumer in the list the group hands over takes the lower half."""

        def assign(self, partitions, consumers):
            res = {c: [] for c in consumers}
            if consumers:
                half = (len(partitions) + 1) // 2
                res[consumers[0]] = list(partitions[:half])
                for i, pid in enumerate(partitions[half:]):
                    res[consumers[1 + i % (len(consumers) - 1)] if len(consumers) > 1 else consumers[0]].append(pid)
            return res

    strat = {"range": RangeAssignment, "rr": RoundRobinAssignment, "sticky": StickyAssignment, "custom": FirstTakesHalf}[p["assign"]]()
    group = ConsumerGroup("group", event_log=log, assignment_strategy=strat, rebalance_delay=0.02, poll_latency=0.001)
    keys = words(12, "device")
    seen = {}

    def produce(self, ev):
        for i in range(p["records"]):
            yield random.expovariate(1 / 0.008)
            rec = yield from log.append(random.choice(keys), {"i": i})
            self.appended = getattr(self, "appended", []) + [(rec.partition, rec.offset)]
        return None

    def consume(self, ev):
        name = self.name
        yield self.delay
        parts = yield from group.join(name, self)
        seen.setdefault(name, []).append(("joined", tuple(parts)))
        for rnd in range(25):
            yield 0.03 + random.random() * 0.01
            recs = yield from group.poll(name, max_records=8)
            if recs:
                seen[name].append(tuple((r.partition, r.offset, r.key) for r in recs))
                offs = {}
                for r in recs:
                    offs[r.partition] = max(offs.get(r.partition, 0), r.offset + 1)
                yield from group.commit(name, offs)
            if p["leave"] and self.leaver and rnd == 8:
                yield from group.leave(name)
                seen[name].append(("left",))
                return None
        return None

    producer = Proc("producer", produce)
    consumers = [Proc(f"consumer-{chr(97 + i)}", consume) for i in range(p["consumers"])]
    for i, c in enumerate(consumers):
        c.delay = 0.01 + 0.05 * i
        c.leaver = (i == 1)
    sim = Simulation(entities=[log, group, producer, *consumers], duration=2.0)
    sim.schedule(Event(time=at(0.005), event_type="Start", target=producer))
    for c in consumers:
        sim.schedule(Event(time=at(0.005), event_type="Start", target=c))

    def stats(s):
        s.add("log", log.stats)
        s.add("log.hw", log.high_watermarks())
        s.add("log.total", log.total_records)
        s.add("group", group.stats)
        s.probe("group_rebalanced_more_than_once", group.stats.rebalances > 1)
        s.probe("group_leave", group.stats.leaves > 0)
        s.probe("log_records_expired", log.stats.records_expired > 0)
        s.add("group.assignments", group.assignments)
        s.add("group.generation", group.generation)
        s.add("group.lag", group.total_lag())
        s.add("producer.appended", getattr(producer, "appended", []))
        for c in consumers:
            s.add(f"{c.name}.seen", seen.get(c.name, []))
    return sim, stats


# ===========================================================================
# 7. rate limiters
# ===========================================================================

LIMITERS = ["token_bucket", "leaky_bucket", "sliding_window", "fixed_window", "adaptive", "inductor", "distributed"]


def _gen_limiter(rng):
    return {"kind": rng.choice(LIMITERS), "rate": rng.choice([60.0, 120.0]), "limit": rng.choice([20, 50]),
            "horizon": rng.choice([2.0, 3.0]), "qcap": rng.choice([10, 100]), "arrival": rng.choice(["poisson", "poisson", "constant"])}


@model("rate_limiters", "rate-limiters", _gen_limiter)
def build_rate_limiters(p, seed):
    from happysimulator.components import rate_limiter as RL
    from happysimulator.components.datastore.kv_store import KVStore

    sink = Sink("sink")
    ents = [sink]
    k = p["kind"]
    lim = float(p["limit"])
    if k == "inductor":
        front = RL.Inductor(name="limiter", downstream=sink, time_constant=0.5, queue_capacity=p["qcap"])
        fronts = [front]
    elif k == "distributed":
        store = KVStore("counter-store", read_latency=0.0005, write_latency=0.0005)
        fronts = [RL.DistributedRateLimiter(name=f"limiter-{i}", downstream=sink, backing_store=store, global_limit=p["limit"],
                                            window_size=0.5, local_threshold=0.8) for i in range(2)]
        ents.append(store)
    else:
        pol = {"token_bucket": lambda: RL.TokenBucketPolicy(capacity=10.0, refill_rate=lim),
               "leaky_bucket": lambda: RL.LeakyBucketPolicy(leak_rate=lim),
               "sliding_window": lambda: RL.SlidingWindowPolicy(window_size_seconds=0.5, max_requests=max(1, p["limit"] // 2)),
               "fixed_window": lambda: RL.FixedWindowPolicy(requests_per_window=max(1, p["limit"] // 2), window_size=0.5),
               "adaptive": lambda: RL.AdaptivePolicy(initial_rate=lim, min_rate=5.0, max_rate=4 * lim, window_size=0.25)}[k]()
        fronts = [RL.RateLimitedEntity(name="limiter", downstream=sink, policy=pol, queue_capacity=p["qcap"])]
    ents += fronts
    mk = Source.poisson if p["arrival"] == "poisson" else Source.constant
    srcs = [mk(rate=p["rate"] / len(fronts), target=f, event_type="Request", name=f"src-{i}", stop_after=p["horizon"] * 0.7)
            for i, f in enumerate(fronts)]
    sim = Simulation(sources=srcs, entities=ents, end_time=at(p["horizon"]))

    def stats(s):
        for f in fronts:
            s.add(f.name, f.stats)
            s.probe("limiter_queued_or_dropped", getattr(f.stats, "queued", 0) + getattr(f.stats, "dropped", 0) > 0
                    or sink.events_received < sum(x.generated_count for x in srcs))
        s.add("sink.received", sink.events_received)
        s.add("sink.latency", sink.latency_stats())
    return sim, stats


# ===========================================================================
# 8. load balancer strategies
# ===========================================================================

LB = ["round_robin", "weighted_rr", "random", "least_conn", "weighted_least_conn", "least_response_time", "ip_hash",
      "consistent_hash", "p2c"]


def _gen_lb(rng):
    return {"strategies": sorted(rng.sample(LB, 3)), "backends": rng.choice([3, 4]), "rate": rng.choice([90.0, 150.0]), "horizon": 2.0,
            "vnodes": rng.choice([5, 50]), "flap": rng.random() < 0.5, "clients": rng.choice([7, 40])}


@model("load_balancer", "load-balancer", _gen_lb)
def build_load_balancer(p, seed):
    """Three load balancers side by side, each with its own strategy, backends and Poisson source (one third of the rate)."""
    from happysimulator.components.load_balancer import strategies as S
    from happysimulator.components.load_balancer.load_balancer import LoadBalancer
    from happysimulator.components.server.server import Server
    from happysimulator.distributions.exponential import ExponentialLatency

    clients = shared("client_ids", lambda: words(p["clients"], "client"))

    def ctx(time, count):
        return {"created_at": time, "request_id": count, "metadata": {"client_id": zipf_pick(clients, 0.5)}}

    groups, srcs, ents = [], [], []
    for kind in p["strategies"]:
        sink = Sink(f"sink-{kind}")
        servers = [Server(f"{kind}-backend-{i}", concurrency=2, service_time=ExponentialLatency(0.01 * (1 + i % 3)), downstream=sink,
                          queue_capacity=30) for i in range(p["backends"])]
        st = {"round_robin": S.RoundRobin, "weighted_rr": S.WeightedRoundRobin, "random": S.Random, "least_conn": S.LeastConnections,
              "weighted_least_conn": S.WeightedLeastConnections, "least_response_time": S.LeastResponseTime, "ip_hash": S.IPHash,
              "consistent_hash": lambda: S.ConsistentHash(virtual_nodes=p["vnodes"]), "p2c": S.PowerOfTwoChoices}[kind]()
        if hasattr(st, "set_weight"):
            for i, sv in enumerate(servers):
                st.set_weight(sv, 1 + i % 3)
        lb = LoadBalancer(f"lb-{kind}", backends=servers, strategy=st)
        srcs.append(Source.poisson(rate=p["rate"] / 3, event_provider=SimpleEventProvider(lb, "Request", at(p["horizon"] * 0.8), ctx),
                                   name=f"src-{kind}"))
        groups.append((kind, lb, servers, sink))
        ents += [lb, *servers, sink]

    def flap(self, ev):
        _, lb, servers, _ = random.choice(groups)
        sv = random.choice(servers)
        if sv in lb.healthy_backends and lb.healthy_count > 1:
            lb.mark_unhealthy(sv)
        else:
            lb.mark_healthy(sv)
        return [Event(time=self.now + random.uniform(0.05, 0.15), event_type="Flap", target=self, daemon=True)]

    fl = Proc("health", flap)

    def reset_strategies(self, ev):
        for _, lb, _, _ in groups:
            st = lb.strategy
            if hasattr(st, "reset"):
                st.reset()
        return None

    rs = Proc("strategy-reset", reset_strategies)
    sim = Simulation(sources=srcs, entities=[*ents, fl, rs], end_time=at(p["horizon"]))
    if p["flap"]:
        sim.schedule(Event(time=at(0.2), event_type="Flap", target=fl, daemon=True))
        sim.schedule(Event(time=at(p["horizon"] * 0.5), event_type="ResetStrategies", target=rs))

    def stats(s):
        for kind, lb, servers, sink in groups:
            s.add(f"{kind}.lb", lb.stats)
            s.probe("lb_backend_marked_unhealthy", lb.stats.backends_marked_unhealthy > 0)
            s.add(f"{kind}.healthy", [b.name for b in lb.healthy_backends])
            for sv in servers:
                s.add(sv.name, sv.stats)
                info = lb.get_backend_info(sv)
                s.add(f"{sv.name}.total_requests", info.total_requests if info else None)
            s.add(f"{kind}.sink.received", sink.events_received)
            s.add(f"{kind}.sink.latency", sink.latency_stats())
    return sim, stats


# ===========================================================================
# 9. sketch collectors fed string items
# ===========================================================================

def _gen_sketch(rng):
    return {"items": rng.choice([30, 200]), "rate": rng.choice([300.0, 600.0]), "horizon": 2.0, "width": rng.choice([16, 64, 272]),
            "depth": rng.choice([2, 4]), "k": rng.choice([5, 10]), "weights": rng.random() < 0.5,
            "item_kind": rng.choice(ITEM_KINDS), "clear_at": rng.choice([None, None, 0.3, 0.6]),
            # sketch seeds: derived from the user seed, or fixed by the scenario (default seed / a constant shared by all replications)
            "sketch_seed": rng.choice(["derived", "default", 7, "default"]), "shared_dist": rng.random() < 0.4}


ITEM_KINDS = ["str", "str", "tuple", "dataclass", "frozenset", "frozenset", "number", "number", "number"]
# "number": the items are bucket numbers; *which numeric type* (int / float / bool / Decimal / Fraction — all equal and hashing
# equal for the same value) follows the user seed, so a sibling or another run of the model uses another type for equal values
NUMBER_TYPES = ["int", "float", "Decimal", "Fraction", "bool"]


import dataclasses as _dc  # noqa: E402


@_dc.dataclass(frozen=True)
class CustomerKey:
    """A user's composite sketch item (hashable, contains strings)."""

    region: str
    customer_id: str


def _sketch_pipeline(p, seed, which):
    from happysimulator.components.sketching.quantile_estimator import QuantileEstimator
    from happysimulator.components.sketching.sketch_collector import SketchCollector
    from happysimulator.components.sketching.topk_collector import TopKCollector
    from happysimulator.distributions.zipf import ZipfDistribution
    from happysimulator.load.providers.distributed_field import DistributedFieldProvider
    from happysimulator.sketching import BloomFilter, CountMinSketch, HyperLogLog, ReservoirSampler

    customers = shared("customers", lambda: words(p["items"], "customer"))
    kind = p.get("item_kind", "str")
    region_of = lambda c: ["us-east", "us-west", "eu", "ap"][len(c) % 4 if c is None else int(c.split(":")[1]) % 4]  # noqa: E731

    ntype = NUMBER_TYPES[seed % len(NUMBER_TYPES)]

    def mk_item(c, region=None):
        """str: the customer id; number: its bucket number in the numeric type of this run; otherwise a composite hashable
        containing strings (region derived from the id)."""
        if c is None or kind == "str":
            return c
        if kind == "number":
            n = int(c.split(":")[1])
            if ntype == "float":
                return float(n)
            if ntype == "bool":
                return bool(n % 2)
            if ntype == "Decimal":
                import decimal
                return decimal.Decimal(n)
            if ntype == "Fraction":
                import fractions
                return fractions.Fraction(n, 1)
            return n
        r = region_of(c)
        if kind == "tuple":
            return (r, c)
        if kind == "dataclass":
            return CustomerKey(r, c)
        return frozenset({r, c})

    get = lambda e: mk_item(e.context.get("customer_id"))  # noqa: E731
    w = (lambda e: 1 + e.context.get("n", 0) % 3) if p["weights"] else None
    cols = {}
    if "cms" in which:
        ss = p.get("sketch_seed", "derived")
        cms_seed = sub(seed, 21) if ss == "derived" else (None if ss == "default" else int(ss))
        cols["cms"] = SketchCollector("cms", CountMinSketch(width=p["width"], depth=p["depth"], seed=cms_seed), get, w)
    if "others" in which:
        cols["hll"] = SketchCollector("hll", HyperLogLog(precision=8, seed=sub(seed, 22)), get)
        cols["bloom"] = SketchCollector("bloom", BloomFilter(size_bits=512, num_hashes=3, seed=sub(seed, 23)), get)
        cols["reservoir"] = SketchCollector("reservoir", ReservoirSampler(size=8, seed=sub(seed, 24)), get)
        cols["topk"] = TopKCollector("topk", k=p["k"], value_extractor=get, seed=sub(seed, 25))
        cols["quant"] = QuantileEstimator("quant", value_extractor=lambda e: float(len(e.context.get("customer_id", ""))) +
                                          e.context.get("n", 0) % 17, compression=50.0, seed=sub(seed, 26))
    order = list(cols.values())
    regions = {}

    def fan(self, ev):
        ev.context["n"] = self.calls
        r = (ev.context.get("region"), ev.context.get("dst_region"), ev.context.get("billing_region"))
        regions[r] = regions.get(r, 0) + 1
        return [Event(time=self.now, event_type="Observe", target=c, context=ev.context) for c in order]

    fanout = Proc("fanout", fan)
    from happysimulator.distributions.uniform import UniformDistribution

    zipf = ZipfDistribution(customers, s=1.1, seed=sub(seed, 27))
    uni = UniformDistribution(["us-east", "us-west", "eu", "ap"], seed=sub(seed, 28))
    fields = {"customer_id": zipf, "region": uni}
    if p.get("shared_dist"):
        # one distribution instance registered under several field names: the fields draw from one stream, in field order
        fields.update({"referrer_id": zipf, "dst_region": uni, "billing_region": uni})
    prov = DistributedFieldProvider(target=fanout, event_type="Request", field_distributions=fields,
                                    static_fields={"api_version": "v2", "tenant": "acme"}, stop_after=at(p["horizon"] * 0.8))
    src = Source.poisson(rate=p["rate"] / max(1, len(order)), event_provider=prov, name="src")

    def clear_all(self, ev):
        for c in order:                 # the operator resets the collectors mid-run (seeded sketches start over)
            if hasattr(c, "clear"):
                c.clear()
        return None

    resetter = Proc("resetter", clear_all)
    sim = Simulation(sources=[src], entities=[fanout, resetter, *order], end_time=at(p["horizon"]))
    if p.get("clear_at"):
        sim.schedule(Event(time=at(p["horizon"] * p["clear_at"]), event_type="ClearSketches", target=resetter))

    def stats(s):
        if "cms" in cols:
            sk = cols["cms"].sketch
            s.add("cms.items", sk.item_count)
            s.add("cms.estimates", [(c, sk.estimate(mk_item(c))) for c in customers[:12]])
            s.add("cms.total_estimate", sum(sk.estimate(mk_item(c)) for c in customers))
        if "hll" in cols:
            s.add("hll.cardinality", cols["hll"].sketch.cardinality())
            bf = cols["bloom"].sketch
            s.add("bloom.fill", bf.fill_ratio)
            s.add("bloom.contains", [bf.contains(mk_item(c)) for c in customers[:20]])
            s.add("reservoir.sample", [_plain_item(x) for x in cols["reservoir"].sketch.sample()])
            tk = cols["topk"]
            s.add("topk.top", [(_plain_item(e.item), e.count, e.error) for e in tk.top(p["k"])])
            s.add("topk.estimates", [tk.estimate(mk_item(c)) for c in customers[:12]])
            s.add("topk.max_error", tk.max_error())
            q = cols["quant"]
            s.add("quant.p50", q.quantile(0.5))
            s.add("quant.p99", q.quantile(0.99))
            s.add("quant.summary", q.summary())
        for nm, c in cols.items():
            s.add(f"{nm}.events", c.events_processed)
        s.add("regions", sorted((repr(k), v) for k, v in regions.items()))
        s.probe("sketch_number_items", kind == "number")
        s.probe("provider_shared_distribution", bool(p.get("shared_dist")))
        s.probe("sketch_cleared_mid_run", resetter.calls > 0)
    return sim, stats


def _plain_item(x):
    """Items as the harness prints them (a frozenset's own repr is hash-ordered; that is Python, not the library)."""
    if isinstance(x, frozenset):
        return sorted(x)
    if isinstance(x, CustomerKey):
        return (x.region, x.customer_id)
    return x


@model("sketch_cms", "sketches", _gen_sketch)
def build_sketch_cms(p, seed):
    """Count-Min Sketch collector fed customer-id strings (examples: SketchCollector docstring)."""
    return _sketch_pipeline(p, seed, {"cms"})


@model("sketch_others", "sketches", _gen_sketch)
def build_sketch_others(p, seed):
    """HyperLogLog / Bloom / Reservoir / TopK / T-Digest collectors fed the same kind of string stream."""
    return _sketch_pipeline(p, seed, {"others"})


# ===========================================================================
# 10. industrial components with random draws
# ===========================================================================

def _gen_industrial(rng):
    return {"rate": rng.choice([20.0, 40.0]), "horizon": rng.choice([6.0, 9.0]), "pass_rate": rng.choice([0.7, 0.9]),
            "no_show": rng.choice([0.1, 0.3]), "mttf": rng.choice([1.0, 3.0]), "balk": rng.choice([2, 5]), "batch": rng.choice([3, 6])}


@model("industrial_line", "industrial", _gen_industrial)
def build_industrial(p, seed):
    """A small plant: appointments + walk-ins -> balking front desk -> machine with random breakdowns -> conveyor ->
    inspection (random pass/fail) -> router by grade -> batch packer / rework; perishable stock on the side."""
    from happysimulator.components.industrial import (
        AppointmentScheduler, BalkingQueue, BatchProcessor, BreakdownScheduler, ConditionalRouter, ConveyorBelt,
        InspectionStation, PerishableInventory,
    )
    from happysimulator.components.queue_policy import FIFOQueue
    from happysimulator.components.server.server import Server
    from happysimulator.distributions.exponential import ExponentialLatency

    shipped, scrap, waste, rework_sink = Sink("shipped"), Sink("scrap"), Sink("waste"), Sink("rework")
    packer = BatchProcessor("packer", downstream=shipped, batch_size=p["batch"], process_time=0.05, timeout_s=0.5)
    router = ConditionalRouter.by_context_field("router", "grade", {"gold": packer, "silver": packer, "rework": rework_sink},
                                                default=scrap)
    inspect = InspectionStation("inspection", pass_target=router, fail_target=scrap, inspection_time=0.01, pass_rate=p["pass_rate"])
    belt = ConveyorBelt("belt", downstream=inspect, transit_time=0.2)

    class Machine(Server):
        def has_capacity(self, weight: int = 1) -> bool:
            return not getattr(self, "_broken", False) and super().has_capacity(weight)

    machine = Machine("machine", concurrency=1, service_time=ExponentialLatency(0.02),
                      queue_policy=BalkingQueue(FIFOQueue(), balk_threshold=p["balk"], balk_probability=0.6), downstream=belt)
    breaker = BreakdownScheduler("breaker", target=machine, mean_time_to_failure=p["mttf"], mean_repair_time=0.2)
    stock = PerishableInventory("stock", initial_stock=30, shelf_life_s=2.0, spoilage_check_interval_s=0.5, reorder_point=10,
                                order_quantity=20, lead_time=0.4, downstream=None, waste_target=waste)
    grades = ["gold", "silver", "rework", "unknown"]

    def ctx(time, count):
        return {"created_at": time, "request_id": count, "grade": random.choice(grades)}

    walkins = Source.poisson(rate=p["rate"], event_provider=SimpleEventProvider(machine, "Job", at(p["horizon"] * 0.8), ctx),
                             name="walkins")
    consume = Source.poisson(rate=p["rate"] / 2, target=stock, event_type="Consume", name="consumers", stop_after=p["horizon"] * 0.8)
    appts = AppointmentScheduler("appointments", target=machine, appointments=[0.25 * i for i in range(1, int(p["horizon"] * 3))],
                                 no_show_rate=p["no_show"], event_type="Job")
    sim = Simulation(sources=[walkins, consume],
                     entities=[machine, breaker, belt, inspect, router, packer, stock, appts, shipped, scrap, waste, rework_sink],
                     end_time=at(p["horizon"]))
    for e in appts.start_events():
        sim.schedule(e)
    sim.schedule(breaker.start_event())

    def stats(s):
        s.add("machine", machine.stats)
        s.add("machine.dropped", machine.stats_dropped)
        s.probe("industrial_breakdown", breaker.stats.breakdown_count > 0)
        s.probe("industrial_inspection_failed", inspect.stats.failed > 0)
        s.probe("industrial_no_show", appts.stats.no_shows > 0)
        s.probe("balked", machine.stats_dropped > 0)
        s.add("breaker", breaker.stats)
        s.add("belt", belt.stats)
        s.add("inspection", inspect.stats)
        s.add("router", router.stats)
        s.add("packer", packer.stats)
        s.add("stock", stock.stats)
        s.add("appointments", appts.stats)
        for k in (shipped, scrap, waste, rework_sink):
            s.add(f"{k.name}.received", k.events_received)
    return sim, stats


# ===========================================================================
# 11. behaviour agents
# ===========================================================================

def _gen_behaviour(rng):
    return {"size": rng.choice([8, 15, 25]), "graph": rng.choice(["small_world", "complete", "random"]),
            "influence": rng.choice(["degroot", "bounded", "voter"]), "model": rng.choice(["utility", "softmax", "social"]),
            "rounds": rng.choice([4, 8])}


@model("behaviour_agents", "behaviour", _gen_behaviour)
def build_behaviour(p, seed):
    from happysimulator.components.behavior import (
        BoundedConfidenceModel, DeGrootModel, Environment, Population, SocialInfluenceModel, UtilityModel, VoterModel,
        broadcast_stimulus, influence_propagation, price_change,
    )

    def util(choice, ctx):
        base = {"buy": 0.55, "wait": 0.5, "ignore": 0.2}.get(choice.action, 0.1)
        return base + 0.3 * ctx.traits.get("openness") * (1 if choice.action == "buy" else -1)

    dm = {"utility": lambda: UtilityModel(util), "softmax": lambda: UtilityModel(util, temperature=0.5),
          "social": lambda: SocialInfluenceModel(util, conformity_weight=0.6)}[p["model"]]()
    pop = Population.uniform(size=p["size"], decision_model=dm, graph_type=p["graph"], seed=sub(seed, 31), name_prefix="citizen")
    ur = random.Random(sub(seed, 32))
    for a in pop.agents:
        a.state.beliefs["product"] = ur.uniform(-1, 1)
    infl = {"degroot": lambda: DeGrootModel(self_weight=0.3), "bounded": lambda: BoundedConfidenceModel(epsilon=0.4, self_weight=0.3),
            "voter": VoterModel}[p["influence"]]()
    env = Environment(name="market", agents=pop.agents, social_graph=pop.social_graph, influence_model=infl, seed=sub(seed, 33))
    sim = Simulation(entities=[env, *pop.agents], duration=p["rounds"] + 2.0)
    for t in range(1, p["rounds"] + 1):
        sim.schedule(broadcast_stimulus(float(t), env, "Promo", choices=["buy", "wait", "ignore"]))
        sim.schedule(influence_propagation(t + 0.5, env, topic="product"))
    sim.schedule(price_change(2.25, env, "ProductX", 100.0, 80.0))

    def stats(s):
        s.add("env", env.stats)
        s.add("pop", pop.stats)
        s.probe("behaviour_decisions", pop.stats.total_decisions > 0)
        s.probe("behaviour_influence_rounds", env.stats.influence_rounds > 0)
        s.add("graph.edges", pop.social_graph.edge_count)
        s.add("graph.nodes", pop.social_graph.nodes)
        for a in pop.agents:
            s.add(f"{a.name}", a.stats)
            s.add(f"{a.name}.belief", a.state.beliefs.get("product"))
            s.add(f"{a.name}.neighbors", pop.social_graph.neighbors(a.name))
    return sim, stats


# ===========================================================================
# 12. events built before the Simulation object exists (examples/distributed/*: Event.once(...) first, Simulation(...) later)
# ===========================================================================

def _gen_prebuilt(rng):
    pre = rng.choice([0, 0, 1, 2, 4])
    return {"pre": pre, "once": pre > 0 and rng.random() < 0.5, "post": rng.randint(1, 4), "sources": rng.choice([0, 1, 2, 3]),
            "tie_s": rng.choice([0.5, 1.0]), "pre_first": rng.random() < 0.6}


@model("prebuilt_events", "engine", _gen_prebuilt)
def build_prebuilt(p, seed):
    """Kick-off events are created before `Simulation(...)` (as the repo's examples do), further events and sources after it;
    several share one timestamp."""
    seen = []

    def note(self, ev):
        seen.append((ev.time.nanoseconds, ev.event_type))
        return None

    probe = Proc("probe", note)
    t = p["tie_s"]
    pre = [Event(time=at(t), event_type=f"pre-{i}", target=probe) for i in range(p["pre"])]
    if p.get("once"):
        pre.append(Event.once(time=at(t), event_type="pre-once", fn=lambda e: seen.append((e.time.nanoseconds, "pre-once")) or None))
    srcs = [Source.constant(rate=1.0 / t, target=probe, event_type=f"tick-{i}", name=f"src-{i}", stop_after=3 * t)
            for i in range(p["sources"])]
    sim = Simulation(sources=srcs, entities=[probe], end_time=at(4 * t))
    post = [Event(time=at(t), event_type=f"post-{i}", target=probe) for i in range(p["post"])]
    for e in (pre + post) if p["pre_first"] else (post + pre):
        sim.schedule(e)

    def stats(s):
        s.add("order", [et for _, et in seen])
    return sim, stats


# ===========================================================================
# 13. clients with retry jitter; infrastructure components with random draws
# ===========================================================================

def _gen_client(rng):
    return {"retry": rng.choice(["none", "fixed", "expo_jitter", "decorrelated"]), "rate": rng.choice([40.0, 80.0]),
            "timeout": rng.choice([0.015, 0.04]), "mean_ms": rng.choice([10.0, 25.0]), "horizon": 2.0}


@model("client_retry", "clients", _gen_client)
def build_client_retry(p, seed):
    from happysimulator.components.client.client import Client
    from happysimulator.components.client.retry import DecorrelatedJitter, ExponentialBackoff, FixedRetry, NoRetry

    # the request's completion hook answers the client; a QueuedResource completes the request when it is *enqueued*, so the
    # backend here is a plain generator entity (service time drawn from module random), as in the Client docstring
    def serve(self, ev):
        yield random.expovariate(1e3 / p["mean_ms"])
        self.served = getattr(self, "served", 0) + 1
        return None

    server = Proc("server", serve)
    pol = {"none": NoRetry, "fixed": lambda: FixedRetry(max_attempts=3, delay=0.01),
           "expo_jitter": lambda: ExponentialBackoff(max_attempts=4, initial_delay=0.005, max_delay=0.1, jitter=0.01),
           "decorrelated": lambda: DecorrelatedJitter(max_attempts=4, base_delay=0.005, max_delay=0.1)}[p["retry"]]()
    outcomes = {"ok": 0, "fail": 0}
    client = Client("client", target=server, timeout=p["timeout"], retry_policy=pol,
                    on_success=lambda req, resp: outcomes.__setitem__("ok", outcomes["ok"] + 1),
                    on_failure=lambda req, why: outcomes.__setitem__("fail", outcomes["fail"] + 1))

    def drive(self, ev):
        return [client.send_request(payload={"n": self.calls})]

    driver = Proc("driver", drive)
    src = Source.poisson(rate=p["rate"], target=driver, event_type="Tick", name="src", stop_after=p["horizon"] * 0.7)
    sim = Simulation(sources=[src], entities=[driver, client, server], end_time=at(p["horizon"]))

    def stats(s):
        s.add("client", client.stats)
        s.probe("client_retry_with_jitter", client.stats.retries > 0 and p["retry"] in ("expo_jitter", "decorrelated"))
        s.probe("client_timeout", client.stats.timeouts > 0)
        s.add("client.avg_rt", client.average_response_time)
        s.add("outcomes", outcomes)
        s.add("server.served", getattr(server, "served", 0))
    return sim, stats


def _gen_infra(rng):
    return {"disk": rng.choice(["hdd", "ssd", "nvme"]), "rate": rng.choice([100.0, 200.0]), "horizon": 2.0, "targets": rng.choice([2, 4])}


@model("infra_random", "infrastructure", _gen_infra)
def build_infra(p, seed):
    from happysimulator.components.infrastructure.disk_io import HDD, NVMe, SSD, DiskIO
    from happysimulator.components.random_router import RandomRouter

    disk = DiskIO("disk", profile={"hdd": HDD, "ssd": SSD, "nvme": NVMe}[p["disk"]]())

    def work(self, ev):
        if random.random() < 0.6:
            yield from disk.read(4096 * random.randint(1, 8))
        else:
            yield from disk.write(4096 * random.randint(1, 4))
        return None

    workers = [Proc(f"worker-{i}", work) for i in range(p["targets"])]
    router = RandomRouter("router", targets=workers)
    src = Source.poisson(rate=p["rate"], target=router, event_type="IO", name="src", stop_after=p["horizon"] * 0.8)
    sim = Simulation(sources=[src], entities=[router, disk, *workers], end_time=at(p["horizon"]))

    def stats(s):
        s.add("disk", disk.stats)
        s.add("router.routed", router.stats_routed)
        s.add("router.targets", dict(router.target_counts))
        s.add("workers", [w.calls for w in workers])
    return sim, stats



# ===========================================================================
# 14. user-level cache server with TTLEviction (after examples/load-balancing/common.py) and a WriteBack policy user
# ===========================================================================

def _gen_ttl_server(rng):
    return {"clock": rng.choice(["sim", "sim", "sim", "default"]), "rate": rng.choice([150.0, 300.0]), "customers": rng.choice([20, 60]),
            "cap": rng.choice([8, 30]), "horizon": 2.0}


@model("ttl_cache_server", "caches", _gen_ttl_server)
def build_ttl_cache_server(p, seed):
    """CachingServer of examples/load-balancing/common.py: hit = key cached and `not policy.is_expired(key)`.
    clock='sim' passes the simulation clock as the example does (ttl in simulated seconds); clock='default' leaves
    TTLEviction's documented default (time.time, ttl = the example's 30 s)."""
    from happysimulator.components.datastore import eviction_policies as EP
    from happysimulator.components.datastore.cached_store import CachedStore
    from happysimulator.components.datastore.kv_store import KVStore
    from happysimulator.components.queue_policy import FIFOQueue
    from happysimulator.components.queued_resource import QueuedResource

    datastore = KVStore("datastore", read_latency=0.005, write_latency=0.005)

    class CachingServer(QueuedResource):
        def __init__(self, name):
            super().__init__(name, policy=FIFOQueue())
            self.hits = self.misses = self.processed = 0
            if p["clock"] == "sim":
                self.policy = EP.TTLEviction(ttl=0.08, clock_func=lambda: self.now.to_seconds())
            else:
                self.policy = EP.TTLEviction(ttl=30.0)
            self.cache = CachedStore(f"{name}_cache", datastore, p["cap"], self.policy, cache_read_latency=0.0001)
            self.busy = False

        def has_capacity(self):
            return not self.busy

        def handle_queued_event(self, event):
            self.busy = True
            try:
                key = f"customer:{event.context['customer_id']}"
                hit = key in self.cache._cache and not self.policy.is_expired(key)
                yield 0.0001
                if hit:
                    self.hits += 1
                    self.policy.on_access(key)
                else:
                    self.misses += 1
                    yield 0.005
                    self.policy.on_remove(key)
                    self.cache._cache_remove(key)
                    self.cache._cache_put(key, {"customer_id": key})
                yield 0.001
                self.processed += 1
            finally:
                self.busy = False
            return []

    server = CachingServer("server")
    customers = words(p["customers"], "c")

    def ctx(time, count):
        return {"created_at": time, "request_id": count, "customer_id": zipf_pick(customers, 0.8)}

    src = Source.poisson(rate=p["rate"], event_provider=SimpleEventProvider(server, "Request", at(p["horizon"] * 0.8), ctx), name="src")
    sim = Simulation(sources=[src], entities=[server, server.cache, datastore], end_time=at(p["horizon"]))

    def stats(s):
        s.add("server", {"hits": server.hits, "misses": server.misses, "processed": server.processed})
        s.probe("ttl_server_expired_entry_miss", server.misses > p["customers"])
        s.add("cache", server.cache.stats)
        s.add("cache.keys", server.cache.get_cached_keys())
    return sim, stats


def _gen_wpolicy(rng):
    return {"policy": rng.choice(["write_back", "write_back", "write_through", "write_around"]), "max_dirty": rng.choice([3, 6, 12]),
            "ops": rng.choice([80, 150]), "keys": rng.choice([10, 40])}


@model("write_policy", "caches", _gen_wpolicy)
def build_write_policy(p, seed):
    """A user cache entity driven by the library's WritePolicy objects (WriteBack batches dirty keys, flushes them in the
    order get_keys_to_flush() returns)."""
    from happysimulator.components.datastore.kv_store import KVStore
    from happysimulator.components.datastore.write_policies import WriteAround, WriteBack, WriteThrough

    backing = KVStore("backing", read_latency=0.002, write_latency=0.003, capacity=max(4, p["keys"] // 2))
    pol = {"write_back": lambda: WriteBack(flush_interval=0.05, max_dirty=p["max_dirty"]), "write_through": WriteThrough,
           "write_around": WriteAround}[p["policy"]]()
    keys = words(p["keys"], "doc")
    cache = {}
    flushed = []

    def writer(self, ev):
        for i in range(p["ops"]):
            yield random.expovariate(1 / 0.002)
            k, v = zipf_pick(keys), f"v{i}"
            if isinstance(pol, WriteAround):
                yield from backing.put(k, v)
                continue
            cache[k] = v
            pol.on_write(k, v)
            if pol.should_write_through():
                yield from backing.put(k, v)
            elif pol.should_flush():
                ks = pol.get_keys_to_flush()
                for kk in ks:
                    yield from backing.put(kk, cache[kk])
                    flushed.append(kk)
                pol.on_flush(ks)
        return None

    w = Proc("writer", writer)
    sim = Simulation(entities=[backing, w])
    sim.schedule(Event(time=at(0.001), event_type="Start", target=w))

    def stats(s):
        s.add("backing", backing.stats)
        s.add("backing.keys", backing.keys())
        s.add("flushed", flushed)
        s.add("dirty", getattr(pol, "dirty_count", 0))
        s.probe("writeback_policy_flush", len(flushed) > 0)
    return sim, stats



# ===========================================================================
# 15. fault schedule: RandomPartition + the other fault specs on a network with traffic
# ===========================================================================

FAULT_KINDS = ["latency", "loss", "partition", "crash", "pause", "capacity"]


def _gen_fault_schedule(rng):
    return {"n": rng.choice([4, 5, 6]), "rate": rng.choice([120.0, 200.0]), "horizon": rng.choice([3.0, 4.0]),
            "mtbf": rng.choice([0.3, 0.6]), "mttr": rng.choice([0.2, 0.4]), "link": rng.choice(LINKS),
            "extra": sorted(rng.sample(FAULT_KINDS, 3))}


@model("fault_schedule", "faults", _gen_fault_schedule)
def build_fault_schedule(p, seed):
    """Nodes on a full mesh exchange messages (each delivery takes a CPU slot from a shared Resource); a FaultSchedule holds a
    seeded RandomPartition over all nodes plus three other fault specs.  The specs (frozen dataclasses) and the node-name
    list are the declarative part of the scenario: with a spec bundle they are created once and reused by later builds."""
    from happysimulator.components.network.network import Network
    from happysimulator.components.resource import Resource
    from happysimulator.faults import (
        CrashNode, FaultSchedule, InjectLatency, InjectPacketLoss, NetworkPartition, PauseNode, RandomPartition, ReduceCapacity,
    )

    n, h = p["n"], p["horizon"]
    names = shared("node_names", lambda: [f"n{i}" for i in range(n)])
    cpu = Resource("cpu", capacity=4)

    def on_msg(self, ev):
        if ev.event_type != "msg":
            return None
        grant = yield cpu.acquire(1)
        yield 0.002
        grant.release()
        self.received = getattr(self, "received", 0) + 1
        return None

    nodes = [Proc(nm, on_msg) for nm in list(names)]
    net = Network(name="net")
    _mesh(net, nodes, p["link"])

    def send(self, ev):
        a, b = random.sample(nodes, 2)
        return [net.send(a, b, "msg", payload={"size": 300})]

    sender = Proc("sender", send)
    src = Source.poisson(rate=p["rate"], target=sender, event_type="Tick", name="traffic", stop_after=h * 0.9)

    def mk_faults():
        out = [RandomPartition(nodes=names, mtbf=p["mtbf"], mttr=p["mttr"], seed=sub(seed, 41))]
        for k in p["extra"]:
            if k == "latency":
                out.append(InjectLatency(names[0], names[1], extra_ms=20.0, start=h * 0.2, end=h * 0.5))
            elif k == "loss":
                out.append(InjectPacketLoss(names[1], names[2], loss_rate=0.5, start=h * 0.1, end=h * 0.6))
            elif k == "partition":
                out.append(NetworkPartition(group_a=names[:1], group_b=names[2:], start=h * 0.3, end=h * 0.4))
            elif k == "crash":
                out.append(CrashNode(names[-1], at=h * 0.25, restart_at=h * 0.55))
            elif k == "pause":
                out.append(PauseNode(names[0], start=h * 0.6, end=h * 0.7))
            elif k == "capacity":
                out.append(ReduceCapacity("cpu", factor=0.5, start=h * 0.35, end=h * 0.65))
        return out

    faults = FaultSchedule()
    for f in spec("faults", mk_faults):
        faults.add(f)
    sim = Simulation(sources=[src], entities=[net, cpu, sender, *nodes], fault_schedule=faults, end_time=at(h))

    def stats(s):
        s.add("faults", faults.stats)
        s.add("received", [getattr(nd, "received", 0) for nd in nodes])
        s.add("cpu", cpu.stats)
        s.add("node_names", list(names))
        _link_stats(s, net)
        s.probe("random_partition_dropped_messages", net.events_dropped_partition > 0)
    return sim, stats



# ===========================================================================
# 16. engine family: a simulation that dies with an exception; events prepared before the run and handed over during it
# ===========================================================================

def _gen_dying(rng):
    return {"how": rng.choice(["handler", "generator", "base"]), "after": rng.choice([3, 10, 40]), "rate": rng.choice([50.0, 200.0])}


@model("dying_run", "engine", _gen_dying)
def build_dying_run(p, seed):
    """An earlier experiment with an application bug: after `after` requests a handler raises (plain handler, inside a generator
    after a yield, or a BaseException like an abort); run() propagates it and the caller catches it (simkit.c03_exec)."""
    from happysimulator.components.server.server import Server
    from happysimulator.distributions.exponential import ExponentialLatency

    seen = []

    def boom(self, ev):
        seen.append(ev.time.nanoseconds)
        if len(seen) >= p["after"]:
            if p["how"] == "base":
                raise ZooAbort("abort")
            if p["how"] == "handler":
                raise ZooCrash("bug in handler")
        if p["how"] == "generator":
            def gen():
                yield 0.001
                if len(seen) >= p["after"]:
                    raise ZooCrash("bug after yield")
                return None
            return gen()
        return [Event(time=self.now + 0.0005, event_type="Echo", target=sink)]

    sink = Sink("sink")
    buggy = Proc("buggy", boom)
    server = Server("server", concurrency=2, service_time=ExponentialLatency(0.002), downstream=buggy)
    src = Source.poisson(rate=p["rate"], target=server, event_type="Request", name="src")
    sim = Simulation(sources=[src], entities=[server, buggy, sink], end_time=at(2.0))

    def stats(s):
        s.add("seen", len(seen))
        s.add("last", seen[-3:])
        s.add("sink", sink.events_received)
    return sim, stats


def _gen_prepared(rng):
    return {"scheduled": rng.randint(1, 3), "prepared": rng.randint(2, 4), "runtime": rng.randint(2, 5), "before_sim": rng.random() < 0.3,
            "sources": rng.choice([0, 0, 0, 1]), "rounds": rng.choice([1, 1, 1, 2])}


@model("prepared_events", "engine", _gen_prepared)
def build_prepared_events(p, seed):
    """Events are *built* before run() but only some are scheduled up front; the rest are kept in a list and handed to the
    engine by a handler during the run, for the same instant as events the handler creates on the spot.  Creation order is
    scheduled < prepared < run-time, and that is the order in which same-instant events must be delivered."""
    seen = []

    def note(self, ev):
        seen.append((ev.time.nanoseconds, ev.event_type))
        return None

    probe = Proc("probe", note)
    rounds = [0.5 * (r + 1) for r in range(p["rounds"])]
    prepared = {}

    def mk_prepared():
        for t in rounds:
            prepared[t] = [Event(time=at(t), event_type=f"prepared-{i}", target=probe) for i in range(p["prepared"])]

    def feed(self, ev):
        t = ev.context["t"]
        out = list(prepared[t])                 # built long ago, handed over now
        out += [Event(time=at(t), event_type=f"runtime-{i}", target=probe) for i in range(p["runtime"])]
        return out

    feeder = Proc("feeder", feed)
    srcs = [Source.constant(rate=2.0, target=probe, event_type=f"tick-{i}", name=f"src-{i}", stop_after=rounds[-1]) for i in range(p["sources"])]
    if p["before_sim"]:
        mk_prepared_later = False
    else:
        mk_prepared_later = True
    sched = []
    if not mk_prepared_later:
        # everything is built before the Simulation object exists (examples build their kick-off events first)
        sched = [Event(time=at(t), event_type=f"scheduled-{i}", target=probe) for t in rounds for i in range(p["scheduled"])]
        kicks = [Event(time=at(t - 0.25), event_type="Feed", target=feeder, context={"t": t}) for t in rounds]
        mk_prepared()
    sim = Simulation(sources=srcs, entities=[probe, feeder], end_time=at(rounds[-1] + 0.5))
    if mk_prepared_later:
        sched = [Event(time=at(t), event_type=f"scheduled-{i}", target=probe) for t in rounds for i in range(p["scheduled"])]
        kicks = [Event(time=at(t - 0.25), event_type="Feed", target=feeder, context={"t": t}) for t in rounds]
        mk_prepared()
    for e in sched + kicks:
        sim.schedule(e)

    def stats(s):
        s.add("order", [et for _, et in seen])
        s.probe("prepared_events_tied_with_runtime_events", len(seen) > 0 and p["prepared"] > 0 and p["runtime"] > 0)
    return sim, stats


# ===========================================================================
# 17. ParallelSimulation with lossy / latency-overriding partition links
# ===========================================================================

class _NoControl:
    def on_event(self, cb):
        return "no-hook"


class _ParallelRun:
    """What simkit.c03_exec needs from a 'simulation': a control.on_event seam (a ParallelSimulation has none; the model's
    recorder entities keep the delivery logs) and run()."""

    control = _NoControl()

    def __init__(self, psim):
        self.psim = psim

    def run(self):
        return self.psim.run()


def _gen_parallel(rng):
    return {"senders": rng.choice([2, 3, 4]), "receivers": rng.choice([1, 2]), "rate": rng.choice([50.0, 100.0]), "loss": rng.choice([0.0, 0.3, 0.5]),
            "latency": rng.choice([None, "seeded", "seeded"]), "window": rng.choice([None, 0.01]), "horizon": rng.choice([1.0, 2.0]), "ack": rng.random() < 0.5,
            "ties": rng.random() < 0.3}


@model("parallel_links", "parallel", _gen_parallel)
def build_parallel_links(p, seed):
    """Sender partitions (constant-rate sources, deterministic handlers: no module-level random in worker threads) forward to
    recorder partitions over PartitionLinks with packet loss and / or a sampled latency override — both drawn by the
    coordinator from its seeded generator while it exchanges the outboxes; several partitions send in every window."""
    from happysimulator.parallel import ParallelSimulation, PartitionLink, SimulationPartition

    class SeededDelay:
        """Latency override of a link: the coordinator calls .sample() (seconds) for every event it carries over.
        (A LatencyDistribution, which the PartitionLink annotation names, has no sample() — AttributeError in
        WindowedCoordinator._exchange_events; functional defect outside C03, so the model brings its own sampler.)"""

        def __init__(self, s):
            self.rng = random.Random(s)

        def sample(self):
            return 0.02 + self.rng.random() * 0.02

    ties = bool(p.get("ties"))

    if p["loss"] == 0.0 and p["latency"] is None:
        p = {**p, "loss": 0.3}
    logs = {}

    def mk_recorder(name):
        log = logs.setdefault(name, [])

        def rec(self, ev):
            log.append((ev.time.nanoseconds, ev.event_type, ev.context.get("seq")))
            if p["ack"] and ev.context.get("seq", 0) % 5 == 0:
                return [Event(time=self.now + 0.03 + (0.0 if ties else 0.0003 * (1 + int(self.name[3:]))), event_type=f"ack_{self.name}",
                              target=ev.context["from"], context={"seq": ev.context["seq"]})]
            return None
        return Proc(name, rec)

    recorders = [mk_recorder(f"rec{j}") for j in range(p["receivers"])]

    def mk_sender(name, k):
        state = {"sent": 0, "acks": 0}

        def snd(self, ev):
            if ev.event_type.startswith("ack_"):
                state["acks"] += 1
                return None
            state["sent"] += 1
            tgt = recorders[(state["sent"] + k) % len(recorders)]
            # ties=False: every sender has its own sub-millisecond offset, so two partitions never address the same instant
            # at one recorder (cross-partition same-instant order is a recorded finding of its own)
            return [Event(time=self.now + 0.02 + (0.0 if ties else 0.0007 * (k + 1)), event_type=f"from_{name}", target=tgt,
                          context={"seq": state["sent"], "from": self})]
        pr = Proc(name, snd)
        pr.state = state
        return pr

    senders = [mk_sender(f"snd{i}", i) for i in range(p["senders"])]
    parts, links = [], []
    for i, sd in enumerate(senders):
        src = Source.constant(rate=p["rate"], target=sd, event_type="tick", name=f"src{i}", stop_after=p["horizon"] * 0.9)
        parts.append(SimulationPartition(name=f"p{i}", entities=[sd], sources=[src]))
    for j, rc in enumerate(recorders):
        parts.append(SimulationPartition(name=f"r{j}", entities=[rc]))
    shared_delay = SeededDelay(sub(seed, 52)) if p["latency"] == "seeded" else None      # one sampler for all links: draw order matters
    for i in range(len(senders)):
        for j in range(len(recorders)):
            links.append(PartitionLink(f"p{i}", f"r{j}", min_latency=0.02, latency=shared_delay, packet_loss=p["loss"]))
            if p["ack"]:
                links.append(PartitionLink(f"r{j}", f"p{i}", min_latency=0.02))
    psim = ParallelSimulation(partitions=parts, links=links, end_time=at(p["horizon"]), window_size=p["window"], seed=sub(seed, 51))

    def stats(s):
        import hashlib as _h

        for name, log in logs.items():
            s.add(f"{name}.received", len(log))
            s.add(f"{name}.log", _h.blake2b(repr(log).encode(), digest_size=8).hexdigest())
            s.add(f"{name}.first", log[:4])
        for sd in senders:
            s.add(f"{sd.name}", sd.state)
        total_sent = sum(sd.state["sent"] for sd in senders)
        s.probe("parallel_cross_partition_loss", 0 < sum(len(l) for l in logs.values()) < total_sent)
        s.probe("parallel_several_senders_per_window", len(senders) >= 2 and total_sent > 10)
    return _ParallelRun(psim), stats



# ===========================================================================
# 18. sources family: DistributedFieldProvider with shared distribution instances and static fields
# ===========================================================================

def _gen_field_provider(rng):
    return {"rate": rng.choice([150.0, 300.0]), "horizon": rng.choice([1.0, 1.5]), "share": rng.choice(["regions", "regions+ids", "none"]),
            "pinned": rng.random() < 0.5, "arrival": rng.choice(["poisson", "poisson", "constant"]), "regions": rng.choice([3, 5])}


@model("field_provider", "sources-servers", _gen_field_provider)
def build_field_provider(p, seed):
    """A Source whose DistributedFieldProvider samples five request fields; with share != none several field names are
    registered with ONE distribution instance (src_region / dst_region / via_region share a UniformDistribution, customer_id /
    referrer_id a ZipfDistribution), plus static fields — one of them under the name of a distributed field when `pinned`.
    A router sends every request to the server of its dst_region; per-route counters are the statistics."""
    from happysimulator.components.server.server import Server
    from happysimulator.distributions.constant import ConstantLatency
    from happysimulator.distributions.uniform import UniformDistribution
    from happysimulator.distributions.zipf import ZipfDistribution
    from happysimulator.load.providers.distributed_field import DistributedFieldProvider

    regions = ["us-east", "us-west", "eu-central", "ap-south", "sa-east"][: p["regions"]]
    ids = words(40, "cust")
    sink = Sink("sink")
    servers = {r: Server(f"server-{r}", concurrency=2, service_time=ConstantLatency(0.002), downstream=sink) for r in regions}
    routes = {}

    def route(self, ev):
        c = ev.context
        key = (c.get("src_region"), c.get("dst_region"), c.get("via_region"), c.get("tier"))
        routes[key] = routes.get(key, 0) + 1
        self.pairs = getattr(self, "pairs", 0) + int(c.get("customer_id") == c.get("referrer_id"))
        return [Event(time=self.now, event_type="Request", target=servers[c["dst_region"]], context=c)]

    router = Proc("router", route)
    uni = lambda k: UniformDistribution(regions, seed=sub(seed, 61 + k))  # noqa: E731
    zipf = lambda k: ZipfDistribution(ids, s=1.2, seed=sub(seed, 71 + k))  # noqa: E731
    if p["share"] == "none":
        fields = {"src_region": uni(0), "dst_region": uni(1), "via_region": uni(2), "customer_id": zipf(0), "referrer_id": zipf(1)}
    else:
        u = uni(0)
        fields = {"src_region": u, "dst_region": u, "via_region": u, "customer_id": zipf(0), "referrer_id": zipf(1)}
        if p["share"] == "regions+ids":
            zz = zipf(0)
            fields["customer_id"] = fields["referrer_id"] = zz
    static = {"api_version": "v2", "tier": "gold"}
    if p["pinned"]:
        static["via_region"] = regions[0]
    prov = DistributedFieldProvider(target=router, event_type="Request", field_distributions=fields, static_fields=static,
                                    stop_after=at(p["horizon"] * 0.9))
    mk = Source.poisson if p["arrival"] == "poisson" else Source.constant
    src = mk(rate=p["rate"], event_provider=prov, name="src")
    sim = Simulation(sources=[src], entities=[router, sink, *servers.values()], end_time=at(p["horizon"]))

    def stats(s):
        s.add("routes", sorted((repr(k), v) for k, v in routes.items()))
        s.add("same_customer_and_referrer", getattr(router, "pairs", 0))
        for r, sv in servers.items():
            s.add(sv.name, sv.stats)
        s.add("sink", sink.events_received)
        s.probe("provider_shared_distribution", p["share"] != "none")
        s.probe("provider_static_field_shadows_distribution", bool(p["pinned"]))
    return sim, stats


# ---------------------------------------------------------------------------
# variant = the categorical parameter(s) that select the code path; part of the violation signature so that a recorded
# finding about one policy/strategy does not hide another one in the same model
# ---------------------------------------------------------------------------

VARIANT = {
    "mm1": lambda p: f"{p['arrival']}-{p['service']}",
    "queue_policies": lambda p: "+".join(p["policies"]),
    "network_rpc": lambda p: "+".join(sorted(set(p["links"]))),
    "raft": lambda p: "mixed" if p["mixed"] else p["link"],
    "paxos": lambda p: "mixed" if p["mixed"] else p["link"],
    "multi_paxos": lambda p: "mixed" if p["mixed"] else p["link"],
    "flexible_paxos": lambda p: "mixed" if p["mixed"] else p["link"],
    "leader_election": lambda p: p["strategy"],
    "swim": lambda p: p["link"],
    "lsm_wal": lambda p: f"{p['strategy']}-wal_{p['wal']}",
    "btree": lambda p: "disk" if p["disk"] else "nodisk",
    "cached_store": lambda p: p["policy"] + ("-wb" if p["write_back"] else "") + "+" + p.get("policy2", "none"),
    "soft_ttl_cache": lambda p: "bounded" if p["cap"] else "unbounded",
    "multi_tier_cache": lambda p: f"{p['l1']}+{p['l2']}",
    "sharded_store": lambda p: p["strategy"],
    "replicated_store": lambda p: f"{p['r']}-{p['w']}",
    "primary_backup": lambda p: p["mode"],
    "chain_replication": lambda p: "craq" if p["craq"] else "plain",
    "multi_leader": lambda p: p["resolver"] + ("-ae" if p["ae"] > 0 else ""),
    "crdt_store": lambda p: p["kind"],
    "message_queue": lambda p: "dlq" if p["dlq"] else "nodlq",
    "topic": lambda p: "churn" if p["churn"] else "static",
    "event_log_group": lambda p: f"{p['assign']}-{p['sharding']}",
    "rate_limiters": lambda p: p["kind"],
    "load_balancer": lambda p: "+".join(p["strategies"]),
    "sketch_cms": lambda p: ("weighted" if p["weights"] else "unit") + ("" if p.get("item_kind", "str") == "str" else "-" + p["item_kind"])
    + ("-shareddist" if p.get("shared_dist") else ""),
    "sketch_others": lambda p: "all" + ("" if p.get("item_kind", "str") == "str" else "-" + p["item_kind"]) + ("-shareddist" if p.get("shared_dist") else ""),
    "industrial_line": lambda p: "line",
    "behaviour_agents": lambda p: f"{p['graph']}-{p['influence']}-{p['model']}",
    "prebuilt_events": lambda p: "post-only" if p["pre"] == 0 and not p.get("once") else "pre+post",
    "client_retry": lambda p: p["retry"],
    "infra_random": lambda p: p["disk"],
    "ttl_cache_server": lambda p: p["clock"],
    "write_policy": lambda p: p["policy"],
    "fault_schedule": lambda p: "+".join(p["extra"]),
    "dying_run": lambda p: p["how"],
    "field_provider": lambda p: p["share"] + ("+pinned" if p["pinned"] else ""),
    "prepared_events": lambda p: "built-before-sim" if p["before_sim"] else "built-after-sim",
    "parallel_links": lambda p: ("ties" if p.get("ties") else "noties") + ("+loss" if p["loss"] or not p["latency"] else "")
    + ("+latency" if p["latency"] else "") + ("+ack" if p["ack"] else ""),
}
assert set(VARIANT) == set(ZOO), set(VARIANT) ^ set(ZOO)
