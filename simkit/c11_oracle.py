"""C11 — Raft oracle: observes a cluster of real RaftNode objects after every
delivery and judges the five clauses of the property.

Observation points (no repo hook needed):
  * public node properties `state`, `current_term`, `log`, `log.commit_index`;
  * the per-node RecordingSM (sequence of applied commands);
  * submit() futures (`is_resolved`, `value`);
  * messages as they are *sent*: every message is an Event delivered to the
    Network entity at the send instant, so the hook sees every vote response
    and every AppendEntries response (with the reported match_index) even if it
    is lost afterwards;
  * the leader's private `_match_index` table (anchored state of the property;
    there is no public accessor).

Order of evaluation per delivery (fine before coarse, stop at the first):
  fine   vote-once-per-term            (from observed granted vote responses)
  fine   leader-has-majority-votes     (a node turns leader of term T only with
         a majority of granted term-T votes, own vote included)
  fine   match-index-le-matching-prefix (follower's reported match_index vs the
         true common prefix with the leader it reports to; leader's table)
  fine   future-own-command            (a resolved submit future names an index
         at which the submitting node holds exactly that command, committed)
  coarse election-safety, log-matching, leader-completeness,
         state-machine-safety (apply-order per node, apply-conflict across nodes)

Fine breaches whose tag is in `tolerate` (the "coarse" scenario class tolerates
exactly the three recorded defects) are only remembered as *causes*: the run
continues, every other fine invariant and every clause of the statement is
still judged, and a coarse signature carries the cause.
"""
from __future__ import annotations

import collections
from collections import Counter

from happysimulator.components.consensus.raft import RaftState
from happysimulator.core.event import ProcessContinuation

from simkit.world import Violation

ROLE = {RaftState.FOLLOWER: "F", RaftState.CANDIDATE: "C", RaftState.LEADER: "L"}
P = "C11"


class RecordingSM:
    """StateMachine protocol implementation that records what it is asked to apply."""

    __slots__ = ("applied",)

    def __init__(self):
        self.applied: list = []

    def apply(self, command):
        self.applied.append(command)
        return ("applied", command)

    def snapshot(self):
        return list(self.applied)

    def restore(self, snapshot):
        self.applied = list(snapshot)


def _same(a, b) -> bool:
    return a.term == b.term and a.command == b.command


def _dense_rank(vals):
    order = {v: k for k, v in enumerate(sorted(set(vals)))}
    return [order[v] for v in vals]


class RaftOracle:
    def __init__(self, nodes, sms, network, *, fine_raises: bool = True, tolerate=(), on_react=None):
        self.nodes = nodes
        self.n = len(nodes)
        self.sms = sms
        self.net = network
        self.fine_raises = fine_raises
        self.tolerate = tolerate        # fine tags '<inv>:<detail>' that are only remembered as causes ('*' = all)
        self.on_react = on_react or (lambda kind, i: None)
        self.by_id = {id(nd): i for i, nd in enumerate(nodes)}
        self.idx = {nd.name: i for i, nd in enumerate(nodes)}
        self.quorum = self.n // 2 + 1
        n = self.n
        # last observed view per node
        self.role = ["F"] * n
        self.term = [0] * n
        self.logs: list[list] = [[] for _ in range(n)]
        self.commit = [0] * n
        self.napplied = [0] * n
        # elections
        self.votes: dict = {}            # (voter idx, term) -> (candidate name, seq)
        self.ae_last_seq = [dict() for _ in range(n)]   # per node: term -> seq of last AppendEntries handled
        # every handled AppendEntries / RequestVote produces exactly one response, sent at the same instant; same-instant
        # events are FIFO, so the k-th response of a node seen at the network answers the k-th request it handled
        self.ae_queue = [collections.deque() for _ in range(n)]   # (leader name, term, prev+len(entries), last_index after handling)
        self.rv_queue = [collections.deque() for _ in range(n)]   # (seq at handling, seq of last same-term AE handled before it)
        self.grants: dict = {}           # (term, candidate name) -> set(voter idx) of granted responses seen at the network
        self.leader_of: dict = {}        # term -> node idx
        self.cands_of: dict = {}         # term -> set(node idx)
        self.double_vote: dict = {}      # term -> detail
        self.leader_events = 0
        self.backoffs = 0
        self.old_match = [dict() for _ in range(n)]   # per node: peer idx -> last match_index it took from a same-term success response
        self.led_terms = [set() for _ in range(n)]
        # commits / applies
        self.ledger: list = []           # i-1 -> (term, cmd, commit_term, by)
        self.applied_at: list = []       # i-1 -> (cmd, by)
        # futures
        self.subs: list[list] = [[] for _ in range(n)]   # unresolved submit records per node
        self.all_subs: list = []
        self.causes: list[str] = []
        self.probes: Counter = Counter()
        self.states: set = set()
        self.touched: list[int] = []
        self.established_at = None       # liveness: first instant with one leader and all others its followers
        self.seq = 0
        self.now_ns = 0

    # ------------------------------------------------------------------ verdict helpers
    def _fine(self, inv: str, mech: str, detail: str, msg: str):
        sig = f"{P}/{inv}/RaftNode/{mech}/{detail}"
        tag = f"{inv}:{detail}"
        if self.fine_raises and not (self.tolerate == "*" or tag in self.tolerate):
            raise Violation(sig, msg)
        if tag not in self.causes:
            self.causes.append(tag)
        self.probes["cause." + tag] += 1

    def _cause(self, prefer=("match-index-le-matching-prefix", "vote-once-per-term")) -> str:
        """Cause tag for a coarse breach (coarse mode only; in fine mode `causes` is always empty).
        future-own-command breaches are outputs, never causes."""
        for inv in prefer:
            for c in self.causes:
                if c.startswith(inv + ":"):
                    return c
        for c in self.causes:
            if not c.startswith("future-own-command:"):
                return c
        return "no-fine-cause"

    def _coarse(self, inv: str, detail: str, msg: str, cause: str | None = None):
        if cause is None:
            cause = self._cause()
        raise Violation(f"{P}/{inv}/RaftNode/{detail}/cause={cause}",
                        msg + (f" [fine breaches seen earlier: {self.causes}]" if self.causes else ""))

    # ------------------------------------------------------------------ hook
    def after_delivery(self, ev, mon):
        self.seq = mon.seq
        self.now_ns = ev.time.nanoseconds
        tgt = ev.target
        i = self.by_id.get(id(tgt))
        if i is not None:
            if getattr(tgt, "_crashed", False):
                self.probes["deliveries_dropped_at_down_node"] += 1
            else:
                self._note_delivery(i, ev)
                self.observe(i)
                if ev.event_type == "RaftAppendEntriesResponse":
                    self._leader_side_match(i, ev)
        elif tgt is self.net and not isinstance(ev, ProcessContinuation):
            self._on_send(ev)
        if self.touched:
            t, self.touched = self.touched, []
            for j in t:
                self.observe(j)

    # ------------------------------------------------------------------ message bookkeeping
    def _note_delivery(self, i, ev):
        et = ev.event_type
        md = ev.context.get("metadata", {})
        if et == "RaftAppendEntries":
            t = md.get("term", 0)
            end = md.get("prev_log_index", 0) + len(md.get("entries", ()))
            if md.get("source") in self.idx:
                self.ae_queue[i].append((md.get("leader_id"), t, end, self.nodes[i].log.last_index))
            if t >= self.nodes[i].current_term:      # handled, not rejected as stale
                self.ae_last_seq[i][t] = self.seq
                if self.nodes[i].log.last_index > end:
                    self.probes["follower_log_longer_than_append"] += 1
        elif et == "RaftRequestVote":
            t = md.get("term", 0)
            if md.get("source") in self.idx:
                self.rv_queue[i].append((self.seq, self.ae_last_seq[i].get(t, -1)))
            if t in self.ae_last_seq[i]:
                self.probes["request_vote_after_same_term_append"] += 1
        elif et == "RaftElectionTimeout" and self.role[i] == "C":
            self.probes["candidate_timed_out_again"] += 1

    def _on_send(self, ev):
        et = ev.event_type
        md = ev.context.get("metadata", {})
        if et == "RaftVoteResponse":
            voter = self.idx.get(md.get("source"))
            if voter is None:
                return
            handled_seq, ae_seq = self.rv_queue[voter].popleft() if self.rv_queue[voter] else (self.seq, -1)
            if not md.get("vote_granted"):
                prev = self.votes.get((voter, md.get("term")))
                if prev is not None and prev[0] != md.get("destination"):
                    self.probes["second_candidate_refused_in_voted_term"] += 1
                    if ae_seq > prev[1]:
                        self.probes["revote_refused_after_same_term_append"] += 1
                return
            t = md.get("term")
            cand = md.get("destination")
            self.grants.setdefault((t, cand), set()).add(voter)
            key = (voter, t)
            prev = self.votes.get(key)
            if prev is None:
                self.votes[key] = (cand, handled_seq)
            elif prev[0] != cand:
                after_ae = ae_seq > prev[1]
                detail = "after-same-term-AppendEntries" if after_ae else "other"
                self.double_vote.setdefault(t, detail)
                self._fine("vote-once-per-term", "RaftRequestVote", detail,
                           f"{md.get('source')} granted its term-{t} vote to {prev[0]} and then to {cand}"
                           + (" after handling an AppendEntries of that same term" if after_ae else ""))
        elif et == "RaftAppendEntriesResponse":
            p = self.idx.get(md.get("source"))
            l = self.idx.get(md.get("destination"))
            if p is None or l is None:
                return
            la = self.ae_queue[p].popleft() if self.ae_queue[p] else None
            if not md.get("success"):
                if md.get("term") == self.nodes[l].current_term and self.role[l] == "L":
                    self.backoffs += 1
                    if self.backoffs == 3:
                        self.probes["next_index_backed_off_3_times"] += 1
                return
            if la is not None and md.get("match_index", 0) < la[3]:
                self.probes["longer_follower_reported_only_what_matched"] += 1
            t = md.get("term")
            m = md.get("match_index", 0)
            ln, pn = self.nodes[l], self.nodes[p]
            # judged only while both are still in the term of the response and the addressee still leads it:
            # then, in Raft, the follower's log can only have been extended by that leader since it answered.
            if ln.state is RaftState.LEADER and ln.current_term == t and pn.current_term == t:
                true = self._matching_prefix(l, p)
                if m > true:
                    beyond = la is not None and la[1] == t and m > la[2] and m == la[3]
                    detail = "reported-own-last-index-beyond-appended" if beyond else "other"
                    self._fine("match-index-le-matching-prefix", "RaftAppendEntries", detail,
                               f"{pn.name} answered leader {ln.name} (term {t}) with match_index={m} but its log agrees "
                               f"with the leader's only up to index {true}"
                               + (f"; the AppendEntries it answered covered indices <= {la[2]}" if la else ""))

    def _leader_side_match(self, l, ev):
        """After a leader handled an AppendEntriesResponse from p: as long as p's term is not above the leader's, nobody
        but this leader (in this term) can have changed p's log since p last acknowledged to it, so what the leader's
        table says about p must be a prefix p really shares with it."""
        md = ev.context.get("metadata", {})
        ln = self.nodes[l]
        if ln.state is not RaftState.LEADER:
            return
        p = self.idx.get(md.get("from"))
        if p is None:
            return
        t = md.get("term")
        older = t < ln.current_term
        if md.get("success"):
            if older:
                self.probes["success_response_of_older_term_reached_leader"] += 1
            elif t == ln.current_term:
                self.old_match[l][p] = md.get("match_index", 0)
        if self.nodes[p].current_term > ln.current_term:
            return
        table = getattr(ln, "_match_index", None)
        if not isinstance(table, dict):
            return
        m = table.get(self.nodes[p].name, 0)
        true = self._matching_prefix(l, p)
        if m > true:
            if older and md.get("success") and m == md.get("match_index", 0):
                detail = "response-of-older-term-accepted"
            elif md.get("success") and m > md.get("match_index", 0):
                detail = "leader-recorded-more-than-reported"
            else:
                detail = "other"
            self._fine("match-index-le-matching-prefix", "RaftAppendEntriesResponse", detail,
                       f"leader {ln.name} (term {ln.current_term}) holds match_index={m} for {self.nodes[p].name} after a "
                       f"{'success' if md.get('success') else 'failure'} response of term {t} reporting {md.get('match_index')}; "
                       f"that peer's log agrees with the leader's only up to index {true}")

    def _match_table_at_election(self, i, term):
        """Right after a node turns leader: whatever its match_index table says about a peer must not exceed the
        prefix that peer really shares with it now (a correct node starts every leadership from 0)."""
        nd = self.nodes[i]
        table = getattr(nd, "_match_index", None)
        trues = {p: self._matching_prefix(i, p) for p in range(self.n) if p != i}
        if any(self.old_match[i].get(p, 0) > t for p, t in trues.items()):
            self.probes["reelected_after_a_peer_lost_what_it_had_acknowledged"] += 1
        self.old_match[i] = {}
        if isinstance(table, dict):
            for p, true in trues.items():
                m = table.get(self.nodes[p].name, 0)
                if m > true:
                    self._fine("match-index-le-matching-prefix", "become_leader", "kept-from-earlier-leadership",
                               f"{nd.name} became leader of term {term} with match_index[{self.nodes[p].name}]={m} left over from an "
                               f"earlier leadership, but that peer's log now agrees with its own only up to index {true}")

    def _matching_prefix(self, a, b) -> int:
        la, lb = self.logs[a], self.logs[b]
        k = 0
        for x, y in zip(la, lb):
            if not _same(x, y):
                break
            k += 1
        return k

    # ------------------------------------------------------------------ per-node observation
    def observe(self, i):
        nd = self.nodes[i]
        role = ROLE[nd.state]
        term = nd.current_term
        log = nd.log
        li = log.last_index
        ci = log.commit_index
        old = self.logs[i]
        changed = False
        log_changed = False

        if li != len(old) or (li and log.last_entry is not old[-1]):
            log_changed = changed = True
            self._log_changed(i, old, log.entries_after(0), role)
        if self.subs[i]:
            self._futures(i)          # fine invariant: judged before the coarse clauses
        if role != self.role[i] or term != self.term[i]:
            changed = True
            self._role_changed(i, role, term)
        elif log_changed and role == "L":
            self._leader_completeness(i)
        if log_changed:
            self._log_matching(i)
        sm = self.sms[i]
        if len(sm.applied) != self.napplied[i]:
            self._applies(i, sm)
        if ci != self.commit[i]:
            changed = True
            self._commit_changed(i, ci, role, term)
        if changed:
            self._abstract()

    # -- log
    def _log_changed(self, i, old, new, role):
        cut = 0
        m = min(len(old), len(new))
        while cut < m and old[cut] is new[cut]:
            cut += 1
        self.logs[i] = new
        if cut < len(old):
            self.probes["truncation"] += 1
            if cut < len(self.ledger) and any(
                    k < len(self.ledger) and self.ledger[k][0] == old[k].term and self.ledger[k][1] == old[k].command
                    for k in range(cut, len(old))):
                self.probes["committed_entry_truncated"] += 1
            for s in self.subs[i]:
                ix = s["index"]
                if ix is not None and ix > cut and (ix > len(new) or new[ix - 1].command != s["cmd"]):
                    s["lost"] = True
                    self.probes["submitted_entry_overwritten_on_submitter"] += 1
        if role == "L" and cut < len(old):
            self.probes["leader_truncated_own_log"] += 1

    def _log_matching(self, i):
        a = self.logs[i]
        for j in range(self.n):
            if j == i:
                continue
            b = self.logs[j]
            k = min(len(a), len(b))
            while k > 0 and a[k - 1].term != b[k - 1].term:
                k -= 1
            for x in range(k):
                if not _same(a[x], b[x]):
                    top = a[k - 1]
                    kind = "same-index-term-different-command" if a[x].term == b[x].term else "prefix-differs-below-common-entry"
                    self._coarse("log-matching", kind,
                                 f"{self.nodes[i].name} and {self.nodes[j].name} both hold an entry (index {k}, term {top.term}) "
                                 f"but differ at index {x + 1}: ({a[x].term},{a[x].command!r}) vs ({b[x].term},{b[x].command!r})")

    # -- role / term
    def _role_changed(self, i, role, term):
        prev_role, prev_term = self.role[i], self.term[i]
        self.role[i], self.term[i] = role, term
        if role == "C":
            s = self.cands_of.setdefault(term, set())
            s.add(i)
            if len(s) > 1:
                self.probes["two_candidates_one_term"] += 1
        if prev_role == "L" and role != "L":
            self.probes["leader_stepped_down"] += 1
        if role == "L":
            if prev_role != "L" or prev_term != term:
                got = 1 + len(self.grants.get((term, self.nodes[i].name), set()) - {i})
                if got < self.quorum:
                    self._fine("leader-has-majority-votes", "RaftVoteResponse", "fewer-grants-than-quorum",
                               f"{self.nodes[i].name} became leader of term {term} with {got} term-{term} vote(s) granted to it "
                               f"(own vote included); quorum is {self.quorum}")
            if prev_role != "L" or prev_term != term:
                self._match_table_at_election(i, term)
            cur = self.leader_of.get(term)
            if cur is None:
                self.leader_of[term] = i
                self.leader_events += 1
                self.led_terms[i].add(term)
                if len(self.led_terms[i]) == 2:
                    self.probes["same_node_leader_in_two_terms"] += 1
                if self.leader_events == 5:
                    self.probes["five_leader_elections"] += 1
                top = max(len(l) for l in self.logs)
                if self.leader_events > 1 and top > len(self.ledger):
                    self.probes["leader_change_while_entry_uncommitted"] += 1
                if any(self.role[j] == "L" for j in range(self.n) if j != i):
                    self.probes["two_self_believed_leaders_different_terms"] += 1
                self._leader_completeness(i)
                self.on_react("leader", i)
            elif cur != i:
                dv = self.double_vote.get(term)
                self._coarse("election-safety", "two-leaders-one-term",
                             f"{self.nodes[cur].name} and {self.nodes[i].name} were both leader in term {term}",
                             cause=(f"vote-once-per-term:{dv}" if dv else None))
            else:
                self._leader_completeness(i)
        self._check_established()

    def _check_established(self):
        if self.established_at is not None:
            return
        if self.unique_leader() is not None:
            self.established_at = self.now_ns

    def unique_leader(self):
        """Index of the single established leader (everyone else follows it in its term), else None."""
        ls = [j for j in range(self.n) if self.role[j] == "L"]
        if len(ls) != 1:
            return None
        l = ls[0]
        t = self.term[l]
        for j in range(self.n):
            if j != l and (self.role[j] != "F" or self.term[j] != t):
                return None
        return l

    # -- commits
    def _commit_changed(self, i, ci, role, term):
        old = self.commit[i]
        self.commit[i] = ci
        log = self.logs[i]
        grew = False
        for ix in range(old + 1, min(ci, len(log)) + 1):
            e = log[ix - 1]
            if ix <= len(self.ledger):
                g = self.ledger[ix - 1]
                if g[0] != e.term or g[1] != e.command:
                    self.probes["commit_conflict"] += 1
                continue
            if ix != len(self.ledger) + 1:
                break  # cannot happen: commit indices are contiguous from 1; guard only
            holders = sum(1 for l in self.logs if len(l) >= ix and _same(l[ix - 1], e))
            if holders < self.quorum:
                self.probes["commit_without_quorum_holding_entry"] += 1
            self.ledger.append((e.term, e.command, term, i, holders >= self.quorum))
            if e.term < term:
                self.probes["earlier_term_entry_committed_under_later_term"] += 1
            grew = True
        if grew:
            for j in range(self.n):
                if self.role[j] == "L":
                    self._leader_completeness(j)
            if role == "L":
                self.on_react("commit", i)

    def _leader_completeness(self, i):
        term = self.term[i]
        log = self.logs[i]
        for ix, g in enumerate(self.ledger, 1):
            if g[2] > term:
                continue  # committed under a higher term than this (stale) leader's: not a "later" leader
            if ix > len(log) or log[ix - 1].term != g[0] or log[ix - 1].command != g[1]:
                have = f"({log[ix - 1].term},{log[ix - 1].command!r})" if ix <= len(log) else "nothing"
                if g[4]:      # a majority held the entry when it was committed: an over-claimed match_index cannot be the cause
                    cause = self._cause(prefer=("vote-once-per-term",))
                    if cause.startswith("match-index-le-matching-prefix:"):
                        cause = "no-fine-cause"
                    kind = "committed-on-majority-missing-in-later-leader"
                else:
                    cause = self._cause(prefer=("match-index-le-matching-prefix",))
                    kind = "committed-without-majority-missing-in-later-leader"
                self._coarse("leader-completeness", kind,
                             f"entry index {ix} ({g[0]},{g[1]!r}) was committed (first seen on {self.nodes[g[3]].name} in term {g[2]}, "
                             f"{'a majority' if g[4] else 'NO majority'} holding it) but leader {self.nodes[i].name} of term {term} "
                             f"holds {have} there", cause=cause)

    # -- applies
    def _applies(self, i, sm):
        log = self.logs[i]
        name = self.nodes[i].name
        for k in range(self.napplied[i] + 1, len(sm.applied) + 1):
            cmd = sm.applied[k - 1]
            if not (k <= len(log) and log[k - 1].command == cmd):
                where = [e.index for e in log if e.command == cmd]
                if where:
                    kind = "apply-skipped-index" if where[0] > k else "apply-repeated-or-reordered"
                    self._coarse("state-machine-safety", kind,
                                 f"{name}: apply number {k} was {cmd!r}, which sits at log index {where[0]} (indices must be applied 1,2,3,... without gaps)")
                self._coarse("state-machine-safety", "applied-command-not-in-log",
                             f"{name}: apply number {k} was {cmd!r}, which is not in its log")
            if k <= len(self.applied_at):
                g = self.applied_at[k - 1]
                if g[0] != cmd:
                    self._coarse("state-machine-safety", "different-commands-at-one-index",
                                 f"index {k}: {self.nodes[g[1]].name} applied {g[0]!r}, {name} applied {cmd!r}")
            else:
                self.applied_at.append((cmd, i))
        self.napplied[i] = len(sm.applied)

    # -- futures
    def register_submit(self, i, cmd, fut, t_ns):
        nd = self.nodes[i]
        was_leader = nd.state is RaftState.LEADER
        rec = {"cmd": cmd, "node": i, "fut": fut, "t": t_ns, "leader": was_leader, "lost": False,
               "index": None, "term": nd.current_term, "resolved": None}
        if was_leader:
            le = nd.log.last_entry
            if le is not None and le.command == cmd:
                rec["index"] = le.index
        self.subs[i].append(rec)
        self.all_subs.append(rec)
        self.touched.append(i)
        return rec

    def _futures(self, i):
        keep = []
        log = self.logs[i]
        for s in self.subs[i]:
            f = s["fut"]
            if not f.is_resolved:
                keep.append(s)
                continue
            v = f.value
            ix = v[0] if isinstance(v, tuple) and v and isinstance(v[0], int) else None
            s["resolved"] = ix
            ok = ix is not None and 1 <= ix <= len(log) and log[ix - 1].command == s["cmd"] and ix <= self.commit_now(i)
            if ok:
                self.probes["future_resolved_ok"] += 1
                continue
            reused = s["lost"] and ix is not None and ix == s["index"]
            detail = "index-reused-after-truncation" if reused else (
                "never-accepted-command" if not s["leader"] else "other")
            have = f"({log[ix - 1].term},{log[ix - 1].command!r})" if ix and ix <= len(log) else "nothing"
            self._fine("future-own-command", "apply", detail,
                       f"submit({s['cmd']!r}) on {self.nodes[i].name} (term {s['term']}) resolved with {v!r}; "
                       f"index {ix} of its log holds {have}, commit_index={self.commit_now(i)}")
        self.subs[i] = keep

    def commit_now(self, i):
        return self.nodes[i].log.commit_index

    # -- abstract state
    def _abstract(self):
        tr = _dense_rank(self.term)
        lr = _dense_rank([len(l) for l in self.logs])
        cr = _dense_rank(self.commit)
        self.states.add("|".join(sorted(f"{self.role[j]}{tr[j]}{lr[j]}{cr[j]}" for j in range(self.n))))

    # ------------------------------------------------------------------ end of run
    def final(self):
        """Full sweep from scratch (does not rely on the incremental bookkeeping)."""
        for i in range(self.n):
            self.observe(i)
        # from-scratch pairwise log matching on fresh copies
        fresh = [nd.log.entries_after(0) for nd in self.nodes]
        self.logs = fresh
        for i in range(self.n):
            self._log_matching(i)
        for i in range(self.n):
            if self.subs[i]:
                self._futures(i)
            if ROLE[self.nodes[i].state] == "L":
                self._leader_completeness(i)
            if any(s["lost"] and not s["fut"].is_resolved for s in self.subs[i]):
                self.probes["future_of_overwritten_submit_left_unresolved"] += 1
