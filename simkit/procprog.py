"""Process/future programs for C02: generation, execution on the real engine,
and an independent reference interpreter.

Program JSON
------------
  "futures": n                       leaf futures F0..Fn-1
  "procs":   [ {"t": ns, "hook": bool, "hook_emits": [emit], "steps": [step...],
                "ret": "none"|"one"|"list", "ret_emits": [emit], "daemon": bool} ]
  "initial": [ emit with absolute "t" instead of "dt" ]     (resolve / note events)
  "plain":   [ {"t": ns, "hook_emits": [emit]} ]            plain (non-generator) events with a completion hook
  "loop":    "auto" | "fast" | "control"

  step = {"op":"delay","d":seconds,"emits":[emit],"form":"bare"|"tuple"|"single"}
       | {"op":"wait","tree":tree}             tree = {"f": i} | {"any":[tree,..]} | {"all":[tree,..]}
       | {"op":"make","slot":k,"tree":tree}    build a combinator now, wait for it later
       | {"op":"wait_slot","slot":k}
       | {"op":"resolve_now","f":i,"val":v}
       | {"op":"sub","steps":[...]}            yield from
  emit = {"kind":"resolve","f":i,"val":v,"dt":ns} | {"kind":"note","id":n,"dt":ns}

Each leaf future is consumed by at most one wait (the documented constraint).
"""
from __future__ import annotations

import random

from happysimulator.core.entity import Entity
from happysimulator.core.event import Event
from happysimulator.core.sim_future import SimFuture, all_of, any_of
from happysimulator.core.temporal import Instant

from simkit.refengine import q

TIMES_NS = [0, 0, 1, 2, 1_000, 1_001, 10_000_000_000, 10_000_001_000]
DELAYS_S = [0.0, 0.0, 4e-10, 1e-9, 1e-6, 10.0, 0, 1, 0.1 + 0.2, 86400.0]   # ints are legal delays too
DTS_NS = [0, 0, 1, 1_000, 10_000_000_000]


# --------------------------------------------------------------------------
# generation
# --------------------------------------------------------------------------

def gen_procprog(rng: random.Random) -> dict:
    n_procs = rng.randint(1, 5)
    fut_counter = [0]
    note_counter = [0]

    direct_used: set[int] = set()

    def new_fut() -> int:
        fut_counter[0] += 1
        return fut_counter[0] - 1

    def leaf(in_tree: set, direct: bool) -> dict:
        # a future may be awaited directly by one process AND be an input of combinators others wait on
        if fut_counter[0] > 0 and rng.random() < 0.3:
            f = rng.randrange(fut_counter[0])
            if f not in in_tree and not (direct and f in direct_used):
                in_tree.add(f)
                if direct:
                    direct_used.add(f)
                return {"f": f}
        f = new_fut()
        in_tree.add(f)
        if direct:
            direct_used.add(f)
        return {"f": f}

    def gen_tree(depth: int, in_tree: set | None = None) -> dict:
        if in_tree is None:
            in_tree = set()
        r = rng.random()
        if depth >= 2 or r < 0.45:
            return leaf(in_tree, direct=(depth == 0))
        kind = "any" if r < 0.75 else "all"
        kids = [gen_tree(depth + 1, in_tree) for _ in range(rng.randint(2, 3))]
        if rng.random() < 0.12:
            leaves = [k for k in kids if "f" in k]
            if leaves:   # the same future passed twice to one combinator
                kids.insert(rng.randint(0, len(kids)), {"f": rng.choice(leaves)["f"]})
        return {kind: kids}

    def gen_emit(existing_futs: bool = True) -> dict:
        if existing_futs and fut_counter[0] > 0 and rng.random() < 0.6:
            return {"kind": "resolve", "f": rng.randrange(fut_counter[0]), "val": gen_val(),
                    "dt": rng.choice(DTS_NS)}
        note_counter[0] += 1
        return {"kind": "note", "id": note_counter[0] - 1, "dt": rng.choice(DTS_NS)}

    prepared_pool = []      # events built before the run and handed out later as side effects

    def gen_prepared():
        j = len(prepared_pool)
        note_counter[0] += 1
        prepared_pool.append({"id": note_counter[0] - 1, "t": 500_000_000_000_000 + j})
        return {"kind": "prepared", "idx": j}

    def gen_val():
        if fut_counter[0] > 0 and rng.random() < 0.08:
            return {"fut": rng.randrange(fut_counter[0])}   # a future object handed over as a plain value
        if rng.random() < 0.06:
            return {"exc": rng.randrange(1000)}             # an exception instance handed over as a plain value
        return rng.randrange(1000)

    def gen_steps(depth: int, budget: int, slot_counter: list) -> list:
        steps = []
        slots = []
        for _ in range(rng.randint(1, budget)):
            r = rng.random()
            if r < 0.35:
                emits = [gen_emit() for _ in range(rng.choice([0, 0, 1, 2]))]
                if rng.random() < 0.15:
                    emits.insert(rng.randint(0, len(emits)), gen_prepared())
                if rng.random() < 0.12:
                    # self.forward(<the event that started this process>, recorder): a new event sharing its context
                    note_counter[0] += 1
                    emits.insert(rng.randint(0, len(emits)), {"kind": "forward", "id": note_counter[0] - 1, "dt": 0})
                steps.append({"op": "delay", "d": rng.choice(DELAYS_S),
                              "emits": emits,
                              "form": rng.choice(["bare", "tuple", "single", "shared_empty"])})
                if not steps[-1]["emits"] and rng.random() < 0.4:
                    steps[-1]["form"] = "shared_empty"
                if rng.random() < 0.08:
                    # cancel() on an event that has already been dispatched (this process's own start event): a no-op
                    steps.append({"op": "cancel_fired"})
            elif r < 0.65:
                steps.append({"op": "wait", "tree": gen_tree(0)})
                if "f" in steps[-1]["tree"] and rng.random() < 0.2:
                    # the same (by then resolved) future awaited once more by the same process
                    steps.append({"op": "wait", "tree": {"f": steps[-1]["tree"]["f"]}, "again": True})
            elif r < 0.75:
                k = slot_counter[0]
                slot_counter[0] += 1
                slots.append(k)
                in_tree: set = set()
                tree = gen_tree(1, in_tree)
                if "f" in tree:
                    tree = {"any": [tree, leaf(in_tree, direct=False)]}
                steps.append({"op": "make", "slot": k, "tree": tree})
            elif r < 0.85 and fut_counter[0] > 0:
                steps.append({"op": "resolve_now", "f": rng.randrange(fut_counter[0]), "val": gen_val()})
            elif r < 0.95 and depth < 2:
                steps.append({"op": "sub", "steps": gen_steps(depth + 1, 3, slot_counter)})
            else:
                steps.append({"op": "delay", "d": 0.0, "emits": [], "form": "bare"})
        for k in slots:
            if rng.random() < 0.8:
                steps.insert(rng.randint(_index_after_make(steps, k), len(steps)), {"op": "wait_slot", "slot": k})
        return steps

    procs = []
    for _ in range(n_procs):
        steps = gen_steps(0, 6, [0])
        procs.append({"t": rng.choice(TIMES_NS), "hook": rng.random() < 0.5, "hook_when": rng.choice(["create", "create", "body"]), "wrap_gen": rng.random() < 0.15, "host_once": rng.random() < 0.15, "ret_shared": rng.random() < 0.5,
                      "hook_emits": [], "steps": steps, "ret": rng.choice(["none", "one", "list"]),
                      "ret_emits": [], "daemon": rng.random() < 0.1})
    # emits that refer to any future (now that all exist)
    for p in procs:
        p["ret_emits"] = [gen_emit() for _ in range(rng.choice([0, 1, 2]))]
        if p["hook"]:
            p["hook_emits"] = [gen_emit() for _ in range(rng.choice([0, 1]))]
    initial = []
    for f in range(fut_counter[0]):
        for _ in range(rng.choice([0, 1, 1, 1, 2])):
            initial.append({"kind": "resolve", "f": f, "val": gen_val(), "t": rng.choice(TIMES_NS)})
    for _ in range(rng.randint(0, 3)):
        note_counter[0] += 1
        initial.append({"kind": "note", "id": note_counter[0] - 1, "t": rng.choice(TIMES_NS)})
    rng.shuffle(initial)
    plain = [{"t": rng.choice(TIMES_NS), "hook_emits": [gen_emit() for _ in range(rng.choice([0, 1, 1]))],
              "ret_shared": rng.random() < 0.6,
              # two-phase job: the completion hook registers a second hook on the SAME event object and hands the
              # event back for another round `rearm` ns later (None: ordinary one-shot event)
              "rearm": rng.choice(DTS_NS) if rng.random() < 0.25 else None}
             for _ in range(rng.choice([0, 0, 1, 2, 3, 4]))]
    return {"futs_from_earlier_run": rng.random() < 0.15,
            "futures": fut_counter[0], "procs": procs, "initial": initial, "plain": plain, "prepared": prepared_pool,
            "loop": rng.choice(["auto", "fast", "control"])}


def _index_after_make(steps, k) -> int:
    for i, s in enumerate(steps):
        if s.get("op") == "make" and s.get("slot") == k:
            return i + 1
    return len(steps)


def validate(sc: dict) -> None:
    """Reject structurally meaningless programs (produced by shrinking)."""
    from simkit.world import InvalidScenario

    n = sc.get("futures", 0)
    n_prep = len(sc.get("prepared", []))
    if any(pe["t"] < 500_000_000_000_000 for pe in sc.get("prepared", [])):
        raise InvalidScenario("prepared events lie beyond every other timestamp (never in the past when yielded)")
    used_prep: set[int] = set()
    direct: set[int] = set()

    proc_direct: set[int] = set()

    def walk_tree(t, in_tree=None, top=True, again=False):
        if in_tree is None:
            in_tree = set()
        if "f" in t:
            f = t["f"]
            if not (0 <= f < n):
                raise InvalidScenario("future out of range")
            in_tree.add(f)
            if top and not again:
                if f in direct:
                    raise InvalidScenario("future yielded directly by two waits")
                direct.add(f)
            if top and again and f not in proc_direct:
                raise InvalidScenario("re-await of a future this process never awaited")
            if top:
                proc_direct.add(f)
            return
        kids = t.get("any") or t.get("all")
        if not kids or len(kids) < 2:
            raise InvalidScenario("combinator needs >= 2 inputs")
        for c in kids:
            walk_tree(c, in_tree, False)

    def walk_emit(e, in_process=False):
        if e["kind"] == "forward" and (not in_process or e.get("dt", 0) != 0):
            raise InvalidScenario("forward() is only used by a process, for an event at the current instant")
        if e["kind"] == "resolve" and not (0 <= e["f"] < n):
            raise InvalidScenario("emit future out of range")
        if e["kind"] == "prepared":
            if not (0 <= e["idx"] < n_prep) or e["idx"] in used_prep:
                raise InvalidScenario("prepared event out of range or used twice")
            used_prep.add(e["idx"])

    def walk_steps(steps, slots):
        for s in steps:
            op = s["op"]
            if op == "delay":
                for e in s.get("emits", []):
                    walk_emit(e, in_process=True)
            elif op == "wait":
                walk_tree(s["tree"], again=bool(s.get("again")))
            elif op == "make":
                if s["slot"] in slots:
                    raise InvalidScenario("slot reused")
                slots[s["slot"]] = False
                walk_tree(s["tree"])
                if "f" in s["tree"]:
                    raise InvalidScenario("make needs a combinator")
            elif op == "wait_slot":
                if slots.get(s["slot"]) is not False:
                    raise InvalidScenario("slot not made or waited twice")
                slots[s["slot"]] = True
            elif op == "cancel_fired":
                pass
            elif op == "resolve_now":
                if not (0 <= s["f"] < n):
                    raise InvalidScenario("resolve_now out of range")
            elif op == "sub":
                walk_steps(s["steps"], slots)

    for p in sc["procs"]:
        proc_direct.clear()
        walk_steps(p["steps"], {})
        for e in p.get("ret_emits", []):
            walk_emit(e, in_process=True)
        for e in p.get("hook_emits", []):
            walk_emit(e)
    for e in sc["initial"]:
        walk_emit(e)
    for pl in sc.get("plain", []):
        for e in pl.get("hook_emits", []):
            walk_emit(e)


_FUT_INDEX: dict[int, int] = {}


def _norm(v):
    if isinstance(v, SimFuture):
        return ["FUT", _FUT_INDEX.get(id(v), -1)]   # a future passed as a plain value (a handle)
    if isinstance(v, BaseException):
        return ["EXC", v.args[0] if v.args else None]    # an exception instance delivered as a plain value
    if isinstance(v, tuple):
        return [_norm(x) for x in v]
    if isinstance(v, list):
        return [_norm(x) for x in v]
    return v


# --------------------------------------------------------------------------
# real engine
# --------------------------------------------------------------------------

class _Resolver(Entity):
    def __init__(self, world):
        super().__init__("Resolver")
        self.w = world

    def handle_event(self, event):
        f, val = event.context["metadata"]["f"], event.context["metadata"]["val"]
        self.w.futs[f].resolve(self.w.value(val))
        return None


class _Recorder(Entity):
    def __init__(self, world):
        super().__init__("Recorder")
        self.w = world

    def handle_event(self, event):
        self.w.notes.append((event.context["metadata"]["id"], self.now.nanoseconds))
        return None


class _Plain(Entity):
    def __init__(self, world):
        super().__init__("Plain")
        self.w = world
        self._NOTHING: list = []   # one list object returned by every call (a handler's shared "no events" constant)

    def handle_event(self, event):
        self.w.plain_log.append((event.context["metadata"]["idx"], self.now.nanoseconds))
        return self._NOTHING if self.w.sc["plain"][event.context["metadata"]["idx"]].get("ret_shared") else None


import collections
import collections.abc as _abc


class GenWrapper(_abc.Generator):
    """A generator object that is not a native generator (an auditing wrapper): legal per the Generator ABC."""

    def __init__(self, gen):
        self._gen = gen

    def send(self, value):
        return self._gen.send(value)

    def throw(self, typ=None, val=None, tb=None):
        return self._gen.throw(typ) if val is None else self._gen.throw(typ, val, tb)

    def close(self):
        return self._gen.close()


class ValueAsException(TimeoutError):
    """An exception INSTANCE used as an ordinary resolved value; the harness never raises it."""


class _FwdRecorder(Entity):
    """Receives events made with Entity.forward(): they carry the start event's context (and nothing of their own)."""

    def __init__(self, world):
        super().__init__("fwd")
        self.w = world

    def handle_event(self, event):
        pid = event.context["metadata"]["proc"]
        self.w.notes.append((self.w.fwd_ids[pid].popleft(), self.now.nanoseconds))
        return None


class _Proc(Entity):
    def __init__(self, world, idx):
        super().__init__(f"P{idx}")
        self.w = world
        self.idx = idx
        self._NO_EVENTS: list = []

    def handle_event(self, event):
        p = self.w.sc["procs"][self.idx]
        body = self._body(p, event)
        return GenWrapper(body) if p.get("wrap_gen") else body

    def _body(self, p, event):
        w = self.w
        log = w.plog[self.idx]
        log.append(("start", self.now.nanoseconds, None))
        self._start_event = event
        if p.get("hook") and p.get("hook_when") == "body":
            # registered from inside the running process, on an event that had no hooks at dispatch
            event.add_completion_hook(w._hook(("proc", self.idx), p.get("hook_emits", [])))
        slots = {}
        yield from self._steps(p["steps"], log, slots)
        created = w.make_events(self.now.nanoseconds, p.get("ret_emits", []), proc=self)
        log.append(("finish", self.now.nanoseconds, None))
        if p["ret"] == "shared_empty" or (p["ret"] == "list" and not created and p.get("ret_shared")):
            return w.NO_EVENTS   # one list object returned by every process that has nothing to return
        if p["ret"] == "none":
            return None
        if p["ret"] == "one":
            return created[0] if created else None
        return created

    def _steps(self, steps, log, slots):
        w = self.w
        for s in steps:
            op = s["op"]
            if op == "delay":
                evs = w.make_events(self.now.nanoseconds, s.get("emits", []), proc=self)
                form = s.get("form", "bare")
                if not evs and form == "shared_empty":
                    got = yield s["d"], self._NO_EVENTS  # one list object reused by every such yield
                elif evs and form == "single" and len(evs) == 1:
                    got = yield s["d"], evs[0]
                elif evs or form == "tuple":
                    got = yield s["d"], (evs if evs else None)
                else:
                    got = yield s["d"]
                # a delay yield resumes with nothing (None): log what was actually received
                log.append(("delay", self.now.nanoseconds, _norm(got)))
            elif op == "wait":
                v = yield w.build_tree(s["tree"])
                log.append((_tree_kind(s["tree"]), self.now.nanoseconds, _norm(v)))
            elif op == "make":
                slots[s["slot"]] = (w.build_tree(s["tree"]), _tree_kind(s["tree"]))
            elif op == "wait_slot":
                fut, kind = slots[s["slot"]]
                v = yield fut
                log.append((kind, self.now.nanoseconds, _norm(v)))
            elif op == "cancel_fired":
                self._start_event.cancel()
            elif op == "resolve_now":
                w.futs[s["f"]].resolve(w.value(s["val"]))
            elif op == "sub":
                yield from self._steps(s["steps"], log, slots)


def _tree_kind(t) -> str:
    return "future" if "f" in t else ("any_of" if "any" in t else "all_of")


class EngineWorld:
    def __init__(self, sc: dict, futs=None):
        self.sc = sc
        # (futs: SimFuture objects built elsewhere, e.g. by a handler of an earlier, completed simulation)
        self.futs = futs if futs is not None else [SimFuture() for _ in range(sc["futures"])]
        _FUT_INDEX.clear()
        for i, f in enumerate(self.futs):
            _FUT_INDEX[id(f)] = i
        self.plog = [[] for _ in sc["procs"]]
        self.hooks: list[tuple] = []
        self.notes: list[tuple] = []
        self.plain_log: list[tuple] = []
        self.NO_EVENTS: list = []
        self.resolver = _Resolver(self)
        self.recorder = _Recorder(self)
        self.plain = _Plain(self)
        self.procs = [_Proc(self, i) for i in range(len(sc["procs"]))]
        self.fwd_rec = _FwdRecorder(self)
        self.fwd_ids = [collections.deque() for _ in sc["procs"]]

    def entities(self):
        return [self.resolver, self.recorder, self.plain, self.fwd_rec] + self.procs

    def value(self, val):
        """Scenario values are ints, or {"fut": j}: the j-th future object itself, handed over as a value."""
        if isinstance(val, dict) and "exc" in val:
            return ValueAsException(val["exc"])      # failures as plain values: future.resolve(Error("timeout"))
        if isinstance(val, dict):
            return self.futs[val["fut"] % len(self.futs)]
        return val

    def make_event(self, t_ns: int, e: dict) -> Event:
        if e["kind"] == "prepared":
            return self.prepared[e["idx"]]       # built before the run, handed to the engine only now
        if e["kind"] == "resolve":
            ev = Event(time=Instant(t_ns), event_type="resolve", target=self.resolver)
            ev.context["metadata"]["f"] = e["f"]
            ev.context["metadata"]["val"] = e["val"]
        else:
            ev = Event(time=Instant(t_ns), event_type="note", target=self.recorder)
            ev.context["metadata"]["id"] = e["id"]
        return ev

    def make_events(self, now_ns: int, emits, proc=None) -> list[Event]:
        out = []
        for e in emits:
            if e["kind"] == "forward":
                # Entity.forward(): a new event at the current instant that shares the original event's context
                self.fwd_ids[proc.idx].append(e["id"])
                out.append(proc.forward(proc._start_event, self.fwd_rec, event_type="fwd"))
            else:
                out.append(self.make_event(now_ns + e.get("dt", 0), e))
        return out

    def build_tree(self, t):
        if "f" in t:
            return self.futs[t["f"]]
        if "any" in t:
            return any_of(*[self.build_tree(c) for c in t["any"]])
        return all_of(*[self.build_tree(c) for c in t["all"]])

    def initial_events(self) -> list[Event]:
        out = []
        for i, p in enumerate(self.sc["procs"]):
            if p.get("host_once"):
                # the process is the generator returned by a one-shot callback (Event.once -> CallbackEntity)
                ev = Event.once(time=Instant(p["t"]), event_type="start", fn=self.procs[i].handle_event,
                                daemon=p.get("daemon", False))
            else:
                ev = Event(time=Instant(p["t"]), event_type="start", target=self.procs[i], daemon=p.get("daemon", False))
            ev.context["metadata"]["proc"] = i
            if p.get("hook") and p.get("hook_when", "create") == "create":
                ev.add_completion_hook(self._hook(("proc", i), p.get("hook_emits", [])))
            out.append(ev)
        for e in self.sc["initial"]:
            out.append(self.make_event(e["t"], e))
        for j, pl in enumerate(self.sc.get("plain", [])):
            ev = Event(time=Instant(pl["t"]), event_type="plain", target=self.plain)
            ev.context["metadata"]["idx"] = j
            if pl.get("rearm") is None:
                ev.add_completion_hook(self._hook(("plain", j), pl.get("hook_emits", [])))
            else:
                ev.add_completion_hook(self._rearm_hook(ev, j, pl))
            out.append(ev)
        # events prepared now (after everything that gets scheduled) but not scheduled: a process yields them later
        self.prepared = []
        for pe in self.sc.get("prepared", []):
            ev = Event(time=Instant(pe["t"]), event_type="note", target=self.recorder)
            ev.context["metadata"]["id"] = pe["id"]
            self.prepared.append(ev)
        return out

    def _rearm_hook(self, ev, j, pl):
        """First-phase hook of a two-phase job: registers the second-phase hook on the same event object while the
        hooks of the first completion are running, and returns that event re-timed for another round."""

        def second(finish_time):
            self.hooks.append((("plain2", j), finish_time.nanoseconds, self.resolver.now.nanoseconds))
            return None

        def first(finish_time):
            self.hooks.append((("plain", j), finish_time.nanoseconds, self.resolver.now.nanoseconds))
            evs = self.make_events(finish_time.nanoseconds, pl.get("hook_emits", []))
            ev.add_completion_hook(second)
            ev.time = Instant(finish_time.nanoseconds + pl["rearm"])
            return evs + [ev]

        return first

    def _hook(self, who, emits):
        def hook(finish_time):
            self.hooks.append((who, finish_time.nanoseconds, self.resolver.now.nanoseconds))
            evs = self.make_events(finish_time.nanoseconds, emits)
            return evs if len(evs) != 1 else evs[0]

        return hook


# --------------------------------------------------------------------------
# reference interpreter (declarative futures, plain sorted list)
# --------------------------------------------------------------------------

class RefWorld:
    def __init__(self, sc: dict):
        self.sc = sc
        self.now = 0
        self.seq = 0
        self.pending: list[dict] = []
        self.res_order = 0
        self.bseq = 0   # combinator construction sequence
        self.pseq = 0   # parking sequence
        self.leaf: list[tuple | None] = [None] * sc["futures"]  # (value, resolve order)
        self.waiting: list[dict] = []  # parked processes {proc, tree, built_at_order}
        self.plog = [[] for _ in sc["procs"]]
        self.hooks: list[tuple] = []
        self.notes: list[tuple] = []
        self.plain_log: list[tuple] = []
        self.probes = {"shared_leaf_woke_two": 0, "pre_resolved_wait": 0, "resolve_twice": 0, "resolve_same_instant_as_yield": 0,
                       "nested_combinator": 0, "any_ambiguous_at_build": 0}

    def push(self, t, kind, **kw):
        daemon = False
        if kind in ("start", "resume"):
            daemon = bool(self.sc["procs"][kw["proc"]].get("daemon", False))
        rec = {"t": t, "seq": self.seq, "kind": kind, "daemon": daemon}
        rec.update(kw)
        self.seq += 1
        self.pending.append(rec)

    # --- declarative future trees -------------------------------------
    def tree_state(self, t, built_order: int):
        """-> None if unresolved, else (value, order, ambiguous)."""
        if "f" in t:
            st = self.leaf[t["f"]]
            return None if st is None else (st[0], st[1], False)
        if "any" in t:
            best = None
            amb = False
            kids = [self.tree_state(c, built_order) for c in t["any"]]
            pre = [i for i, k in enumerate(kids) if k is not None and k[1] <= built_order]
            if len(pre) >= 2:
                # several inputs were already resolved when the combinator was built: the engine
                # reports the first *argument*; the statement is read as "one of those" (weaker reading)
                i = pre[0]
                return ([i, kids[i][0]], built_order, True)
            for i, k in enumerate(kids):
                if k is None:
                    continue
                if best is None or k[1] < best[1][1]:
                    best = (i, k)
                amb = amb or k[2]
            if best is None:
                return None
            i, k = best
            return ([i, k[0]], max(k[1], built_order), amb)
        kids = [self.tree_state(c, built_order) for c in t["all"]]
        if any(k is None for k in kids):
            return None
        return ([k[0] for k in kids], max([k[1] for k in kids] + [built_order]), any(k[2] for k in kids))

    def resolve_leaf(self, f, val):
        if isinstance(val, dict) and "exc" in val:
            val = ["EXC", val["exc"]]
        elif isinstance(val, dict):
            val = ["FUT", val["fut"] % max(1, self.sc["futures"])]
        if self.leaf[f] is not None:
            self.probes["resolve_twice"] += 1
            return
        self.res_order += 1
        self.leaf[f] = (val, self.res_order)
        # wake parked processes whose tree became resolved, in parking order
        still = []
        # the engine resumes the process parked directly on this future first, then fires the
        # combinator callbacks in the order the combinators were constructed
        woken = 0
        order = sorted(self.waiting, key=lambda w: (0 if w["tree"].get("f") == f else 1, w["bseq"]))
        for w in order:
            st = self.tree_state(w["tree"], w["built"])
            if st is None:
                still.append(w)
            else:
                woken += 1
                if w.get("at") == self.now:
                    self.probes["resolve_same_instant_as_yield"] += 1
                if "any" in w["tree"]:
                    self.probes["any_race_observed"] = self.probes.get("any_race_observed", 0) + 1
                self.push(self.now, "resume", proc=w["proc"], value=st[0], wkind=_tree_kind(w["tree"]))
        if woken >= 2:
            self.probes["shared_leaf_woke_two"] += 1
        still.sort(key=lambda w: w["pseq"])
        self.waiting = still

    # --- events ---------------------------------------------------------
    def emit(self, now, e):
        if e["kind"] == "prepared":
            pe = self.sc["prepared"][e["idx"]]
            self.push(pe["t"], "note", id=pe["id"])
            return
        t = now + e["dt"] if "dt" in e else e["t"]
        if e["kind"] == "resolve":
            self.push(t, "resolve", f=e["f"], val=e["val"])
        else:
            self.push(t, "note", id=e["id"])

    def load(self):
        for i, p in enumerate(self.sc["procs"]):
            self.push(p["t"], "start", proc=i)
        for e in self.sc["initial"]:
            self.emit(0, e)
        for j, pl in enumerate(self.sc.get("plain", [])):
            self.push(pl["t"], "plain", idx=j)

    def run(self, cap=20000):
        self.load()
        self.frames = {}
        n = 0
        auto = self.sc.get("loop") != "fast"
        while self.pending:
            if auto and all(r["daemon"] for r in self.pending):
                break  # daemon work alone never keeps the run alive
            nxt = min(self.pending, key=lambda r: (r["t"], r["seq"]))
            self.pending.remove(nxt)
            self.now = nxt["t"]
            n += 1
            if n > cap:
                raise RuntimeError("reference cap")
            k = nxt["kind"]
            if k == "resolve":
                self.resolve_leaf(nxt["f"], nxt["val"])
            elif k == "note":
                self.notes.append((nxt["id"], self.now))
            elif k == "plain":
                self.plain_log.append((nxt["idx"], self.now))
                pl = self.sc["plain"][nxt["idx"]]
                if nxt.get("phase2"):
                    self.hooks.append((("plain2", nxt["idx"]), self.now, self.now))
                    continue
                self.hooks.append((("plain", nxt["idx"]), self.now, self.now))
                for e in pl.get("hook_emits", []):
                    self.emit(self.now, e)
                if pl.get("rearm") is not None:
                    # the SAME event object goes back on the heap: it keeps its original creation index (C01)
                    self.pending.append({"t": self.now + pl["rearm"], "seq": nxt["seq"], "kind": "plain", "daemon": False,
                                         "idx": nxt["idx"], "phase2": True})
            elif k == "start":
                i = nxt["proc"]
                p = self.sc["procs"][i]
                self.plog[i].append(("start", self.now, None))
                self.seq += 1  # the engine builds one continuation object before the body starts
                self.frames[i] = {"stack": [[p["steps"], 0]], "slots": {}}
                self.advance(i)
            elif k == "resume":
                i = nxt["proc"]
                self.plog[i].append((nxt["wkind"], self.now, nxt.get("value")))
                self.advance(i)

    def advance(self, i):
        fr = self.frames[i]
        p = self.sc["procs"][i]
        while fr["stack"]:
            steps, pc = fr["stack"][-1]
            if pc >= len(steps):
                fr["stack"].pop()
                continue
            s = steps[pc]
            fr["stack"][-1][1] = pc + 1
            op = s["op"]
            if op == "delay":
                for e in s.get("emits", []):
                    self.emit(self.now, e)
                self.push(self.now + q(s["d"]), "resume", proc=i, value=None, wkind="delay")
                return
            if op in ("wait", "wait_slot"):
                if op == "wait":
                    self.bseq += 1
                    tree, built, bseq = s["tree"], self.res_order, self.bseq
                    if "f" not in tree:
                        self.probes["nested_combinator"] += int(any("f" not in c for c in (tree.get("any") or tree.get("all"))))
                else:
                    tree, built, bseq = fr["slots"][s["slot"]]
                st = self.tree_state(tree, built)
                if st is not None:
                    self.probes["pre_resolved_wait"] += 1
                    if st[2]:
                        self.probes["any_ambiguous_at_build"] += 1
                    self.push(self.now, "resume", proc=i, value=st[0], wkind=_tree_kind(tree))
                else:
                    self.pseq += 1
                    self.waiting.append({"proc": i, "tree": tree, "built": built, "at": self.now,
                                         "bseq": bseq, "pseq": self.pseq})
                return
            if op == "make":
                self.bseq += 1
                fr["slots"][s["slot"]] = (s["tree"], self.res_order, self.bseq)
            elif op == "resolve_now":
                self.resolve_leaf(s["f"], s["val"])
            elif op == "sub":
                fr["stack"].append([s["steps"], 0])
        # finished
        for e in p.get("ret_emits", []):
            if p["ret"] == "none":
                break
            self.emit(self.now, e)
            if p["ret"] == "one":
                break
        self.plog[i].append(("finish", self.now, None))
        if p.get("hook"):
            self.hooks.append((("proc", i), self.now, self.now))
            for e in p.get("hook_emits", []):
                self.emit(self.now, e)
