#!/venv/bin/python
"""C03 — child interpreter: runs zoo jobs under the PYTHONHASHSEED it was started with.

    python c03_child.py --oneshot     one request on stdin, jobs run in *this* fresh interpreter, one JSON line out
    python c03_child.py --zygote      serve requests: the interpreter only imports the library and then, per request,
                                      fork()s a pristine copy of itself that runs the request's jobs in order and exits

A forked copy of an interpreter that has imported the library and run nothing is, for the property, a fresh process with
that hash seed (the hash secret, the import-time module state and the event counter are those of a fresh start); forking
makes every request independent of the requests served before, so the check's verdict is a function of the scenario only.
`--oneshot` is the literal fresh subprocess; the check uses it on a sample of runs and to confirm every difference.

Request : {"jobs": [job, ...], "full": bool}          Response: {"results": [...]} | {"error": "traceback"}
"""
from __future__ import annotations

import json
import os
import sys
import traceback

sys.path.insert(0, os.path.dirname(os.path.dirname(os.path.abspath(__file__))))


def _load():
    from simkit import repo

    repo.activate()
    import simkit.c03_exec as ex
    import simkit.c03_zoo  # noqa: F401

    return ex


def _preload() -> None:
    """Import (only import) what the builders import lazily, so that a forked copy does not pay for it on every request."""
    import importlib
    import pkgutil

    import numpy.random  # noqa: F401

    import happysimulator.components as comps

    for m in pkgutil.walk_packages(comps.__path__, comps.__name__ + "."):
        try:
            importlib.import_module(m.name)
        except Exception:  # noqa: BLE001  (optional dependencies of unrelated components)
            pass
    for name in ("happysimulator.sketching", "happysimulator.distributions.zipf", "happysimulator.load.providers.distributed_field"):
        importlib.import_module(name)
    try:  # die with the check process even if the stdin EOF is missed
        import ctypes
        import signal

        ctypes.CDLL(None).prctl(1, signal.SIGTERM)
    except Exception:  # noqa: BLE001
        pass


def _answer(ex, req: dict) -> str:
    try:
        return json.dumps({"results": ex.run_jobs(req["jobs"], full=bool(req.get("full")))})
    except BaseException:  # noqa: BLE001
        return json.dumps({"error": traceback.format_exc(limit=16)})


def oneshot() -> int:
    ex = _load()
    req = json.loads(sys.stdin.readline())
    sys.stdout.write(_answer(ex, req) + "\n")
    sys.stdout.flush()
    return 0


def zygote() -> int:
    ex = _load()
    _preload()
    out = sys.stdout
    out.write(json.dumps({"ready": os.environ.get("PYTHONHASHSEED")}) + "\n")
    out.flush()
    while True:
        line = sys.stdin.readline()
        if not line:
            return 0
        req = json.loads(line)
        r, w = os.pipe()
        pid = os.fork()
        if pid == 0:
            try:
                os.close(r)
                data = _answer(ex, req).encode()
                with os.fdopen(w, "wb") as f:
                    f.write(data)
            finally:
                os._exit(0)
        os.close(w)
        chunks = []
        with os.fdopen(r, "rb") as f:
            while True:
                b = f.read(1 << 16)
                if not b:
                    break
                chunks.append(b)
        _, status = os.waitpid(pid, 0)
        data = b"".join(chunks).decode()
        if not data:
            data = json.dumps({"error": f"job process died, wait status {status}"})
        out.write(data + "\n")
        out.flush()


if __name__ == "__main__":
    sys.exit(zygote() if "--zygote" in sys.argv else oneshot())
