"""C06 probe model: the repo's own fault machinery is the system under test.

`FaultWorld(sc, with_faults)` builds, from a plain-JSON scenario,

* node targets of four kinds (plain handler, generator handler with multi-step
  processes, repo `Server` (QueuedResource) fronted by its queue, holder of a
  repo `Resource`), each with a *twin* bystander that receives identical
  traffic and is never named by a fault;
* a real `Network` ("net") with one real `NetworkLink` per directed pair and a
  twin network ("netb") over the same nodes, tagged probe messages on every
  link every delta;
* a real `FaultSchedule` built from the repo's fault classes (CrashNode,
  PauseNode, NetworkPartition, InjectLatency, InjectPacketLoss,
  ReduceCapacity), handles cancelled before construction / after construction
  / during the run / never, passed to `Simulation(fault_schedule=...)`.

The oracle (`Timeline`) is computed from the schedule alone: per key (node,
ordered pair, link, resource) the set of active half-open windows at an
instant.  Everything exactly on a window boundary is excluded from judgement.
All judgements raise `world.Violation` at the first broken invariant.
"""
from __future__ import annotations

import bisect
import hashlib
from collections import Counter

from happysimulator.components.network.conditions import datacenter_network, local_network, lossy_network, slow_network
from happysimulator.components.network.link import NetworkLink
from happysimulator.components.network.network import Network
from happysimulator.components.queue import Queue
from happysimulator.components.queue_driver import QueueDriver
from happysimulator.components.queue_policy import FIFOQueue
from happysimulator.components.resource import Resource
from happysimulator.components.server.server import Server
from happysimulator.core.entity import Entity
from happysimulator.core.event import Event, ProcessContinuation
from happysimulator.core.simulation import Simulation
from happysimulator.core.temporal import Instant
from happysimulator.distributions.constant import ConstantLatency
from happysimulator.faults import (
    CrashNode,
    FaultSchedule,
    InjectLatency,
    InjectPacketLoss,
    NetworkPartition,
    PauseNode,
    RandomPartition,
    ReduceCapacity,
)

from simkit.world import BudgetExceeded, InvalidScenario, Monitor, Violation, repo_exception_sig

INF = 1 << 62
P = "C06"
NODE_KINDS = ("plain", "gen", "server", "holder", "qworker")
FAULT_KINDS = ("crash", "pause", "partition", "latency", "loss", "capacity", "randpart")
CANCEL_MODES = ("never", "pre", "post", "mid")
FAULT_CLASS = {
    "crash": "NodeFault", "pause": "NodeFault", "partition": "NetworkPartition",
    "latency": "InjectLatency", "loss": "InjectPacketLoss", "capacity": "ReduceCapacity",
}
LAT_TOL_NS = 2_000  # float-seconds round trips inside the repo (Duration <-> float)
JOB_OFFSET_NS = 137  # keeps ordinary traffic off the (millisecond) window boundaries


def ns_of_ms(ms) -> int:
    """Exactly the instant the repo's fault classes compute for `ms/1000.0` seconds."""
    return Instant.from_seconds(ms / 1000.0).nanoseconds


# --------------------------------------------------------------------------
# oracle: active windows per key
# --------------------------------------------------------------------------

class Timeline:
    def __init__(self):
        self.w: dict[tuple, list[tuple]] = {}   # key -> [(start, end, fault index, kind, param)]
        self.bset: dict[tuple, set] = {}
        self.all_bounds: list[int] = []

    def add(self, key, s, e, fi, kind, param=None):
        self.w.setdefault(key, []).append((s, e, fi, kind, param))

    def finalize(self):
        allb = set()
        for key, ws in self.w.items():
            b = set()
            for s, e, *_ in ws:
                b.add(s)
                if e < INF:
                    b.add(e)
            self.bset[key] = b
            allb |= b
        self.all_bounds = sorted(allb)

    def has(self, key) -> bool:
        return key in self.w

    def is_boundary(self, key, t) -> bool:
        b = self.bset.get(key)
        return b is not None and t in b

    def any_boundary(self, t) -> bool:
        i = bisect.bisect_left(self.all_bounds, t)
        return i < len(self.all_bounds) and self.all_bounds[i] == t

    def segment(self, t) -> int:
        return bisect.bisect_right(self.all_bounds, t)

    def active(self, key, t) -> list[tuple]:
        return [w for w in self.w.get(key, ()) if w[0] <= t < w[1]]   # half-open [start, end)

    def touches(self, key, lo, hi) -> bool:
        """Does any window of `key` intersect (or touch) the closed interval [lo, hi]?"""
        return any(w[0] <= hi and w[1] >= lo for w in self.w.get(key, ()))

    def last_edges(self, key, t) -> list[tuple]:
        """The fault edges on `key` at the latest instant <= t (edges at t itself have fired before anything
        that is judged at t, see FaultWorld._tie): [(edge, window)]."""
        best, out = -1, []
        for w in self.w.get(key, ()):
            for edge, tt in (("start", w[0]), ("end", w[1])):
                if tt <= t and tt < INF:
                    if tt > best:
                        best, out = tt, [(edge, w)]
                    elif tt == best:
                        out.append((edge, w))
        return out

    def all_ended_by(self, key, t) -> bool:
        return all(w[1] < t for w in self.w.get(key, ()))


# --------------------------------------------------------------------------
# entities
# --------------------------------------------------------------------------

class Sink(Entity):
    def __init__(self, key, world):
        # display names are not identifiers: in the same_names variant every sink is called "sink"
        super().__init__("sink" if world.sc.get("same_names") else key)
        self.w, self.key = world, key

    def handle_event(self, event):
        self.w.log(self.key, "arr", event.context["metadata"].get("m"))
        return None


class Relay(Entity):
    """Emits, in-run, a job for a target stamped with an exact future instant (a message sent earlier with a fixed delay)."""

    def __init__(self, name, world):
        super().__init__(name)
        self.w = world

    def handle_event(self, event):
        md = event.context["metadata"]
        return [Event(time=Instant(md["at"]), event_type="job", target=self.w.job_target.get(md["to"], self.w.node_ent[md["to"]]),
                      context={"metadata": {"m": md["m"]}})]


class Tick(Entity):
    """Wakes the state oracle at regular instants (does nothing itself)."""

    def handle_event(self, event):
        return None


class PlainNode(Entity):
    kind = "plain"

    def __init__(self, name, world, cfg, sink):
        super().__init__(name)
        self.w, self.sink = world, sink
        self.delay_ns = int(cfg.get("emit_delay_us", 0)) * 1000

    def handle_event(self, event):
        m = event.context["metadata"]["m"]
        self.w.act(self, "enter", m)
        out = Event(time=Instant(self.now.nanoseconds + self.delay_ns), event_type="out", target=self.sink,
                    context={"metadata": {"m": m}})
        self.w.act(self, "emit", m)
        return [out]


class GenNode(Entity):
    kind = "gen"

    def __init__(self, name, world, cfg, sink):
        super().__init__(name)
        self.w, self.sink = world, sink
        self.steps = [(int(s[0]), bool(s[1])) for s in cfg.get("steps", [[50_000, False]])]

    def handle_event(self, event):
        m = event.context["metadata"]["m"]
        self.w.act(self, "enter", m)
        return self._proc(m)

    def _proc(self, m):
        for k, (d_us, emit) in enumerate(self.steps):
            if emit:
                ev = Event(time=self.now, event_type="out", target=self.sink, context={"metadata": {"m": [m, k]}})
                self.w.act(self, "emit", [m, k])
                yield d_us / 1e6, [ev]
            else:
                yield d_us / 1e6
            self.w.act(self, "resume", [m, k])
        self.w.act(self, "emit", [m, "end"])
        return [Event(time=self.now, event_type="out", target=self.sink, context={"metadata": {"m": [m, "end"]}})]


class ProbeServer(Server):
    """The repo's Server (QueuedResource: facade + queue + driver + worker adapter) with an activity log."""

    kind = "server"

    def __init__(self, name, world, cfg, sink):
        super().__init__(name, concurrency=int(cfg.get("concurrency", 1)),
                         service_time=ConstantLatency(int(cfg.get("service_us", 10_000)) / 1e6), downstream=sink)
        self.w = world

    def handle_queued_event(self, event):
        m = event.context["metadata"]["m"]
        self.w.act(self, "enter", m)
        res = yield from super().handle_queued_event(event)
        self.w.act(self, "resume", m)
        self.w.act(self, "emit", m)
        return res


class _Acq:
    __slots__ = ("fut", "amount", "released", "owner")

    def __init__(self, fut, amount, owner):
        self.fut, self.amount, self.released, self.owner = fut, amount, False, owner


class Holder(Entity):
    kind = "holder"

    def __init__(self, name, world, res, amount, hold_us, sink):
        super().__init__(name)
        self.w, self.res, self.amount, self.hold_s, self.sink = world, res, amount, hold_us / 1e6, sink

    def handle_event(self, event):
        m = event.context["metadata"]["m"]
        self.w.act(self, "enter", m)
        return self._proc(m)

    def _proc(self, m):
        w, res = self.w, self.res
        fut = res.acquire(self.amount)
        rec = _Acq(fut, self.amount, self.name)
        w.acqs[res.name].append(rec)
        if not fut.is_resolved:
            w.c["probe.resource_waiter"] = 1
        grant = yield fut
        w.act(self, "resume", [m, "acq"])
        w.on_grant(res)
        yield self.hold_s
        w.act(self, "resume", [m, "held"])
        w.releasing = res.name
        grant.release()
        w.releasing = None
        rec.released = True
        w.act(self, "emit", m)
        return [Event(time=self.now, event_type="out", target=self.sink, context={"metadata": {"m": m}})]


class QWorker(Entity):
    """Worker behind an explicitly wired repo Queue -> QueueDriver (not a QueuedResource).  `limit` 1: takes one item
    at a time; has_capacity() is derived from the clock (busy until start + service), so a process killed by a crash
    leaves no stale state in the worker itself."""

    kind = "qworker"

    def __init__(self, name, world, cfg, sink):
        super().__init__(name)
        self.w, self.sink = world, sink
        self.service_us = int(cfg["service_us"])
        self.limit = int(cfg.get("limit", 0))
        self.busy_until = -1

    def has_capacity(self) -> bool:
        return not self.limit or self.now.nanoseconds >= self.busy_until

    def handle_event(self, event):
        m = event.context["metadata"]["m"]
        self.w.act(self, "enter", m)
        self.busy_until = self.now.nanoseconds + self.service_us * 1000
        return self._proc(m)

    def _proc(self, m):
        yield self.service_us / 1e6
        self.w.act(self, "resume", m)
        self.w.act(self, "emit", m)
        return [Event(time=self.now, event_type="out", target=self.sink, context={"metadata": {"m": m}})]


class NetNode(Entity):
    def __init__(self, name, world):
        super().__init__(name)
        self.w = world

    def handle_event(self, event):
        md = event.context["metadata"]
        self.w.probe_arrived(md["net"], md["pid"], self.name)
        return None


# --------------------------------------------------------------------------
# the world
# --------------------------------------------------------------------------

def validate(sc: dict) -> None:
    try:
        nodes, faults = sc["nodes"], sc["faults"]
        end_ms = sc["end_ms"]
        if end_ms < 100 or not isinstance(end_ms, int):
            raise InvalidScenario("end_ms")
        for n in nodes:
            if n["kind"] not in NODE_KINDS or int(n["period_us"]) < 1000 or int(n.get("phase_us", 0)) < 0:
                raise InvalidScenario("node")
            if n["kind"] == "holder":
                if not (1 <= n["amount"] <= n["cap"] and 1 <= n["co_amount"] <= n["cap"]):
                    raise InvalidScenario("holder amounts")
                if int(n["co_period_us"]) < 1000 or int(n["hold_us"]) < 1 or int(n["co_hold_us"]) < 1:
                    raise InvalidScenario("holder timing")
            if n["kind"] == "server" and (int(n["service_us"]) < 1 or int(n.get("concurrency", 1)) < 1):
                raise InvalidScenario("server")
            if n["kind"] == "qworker" and (int(n["service_us"]) < 1 or n.get("limit", 0) not in (0, 1)):
                raise InvalidScenario("qworker")
            if n["kind"] == "gen":
                if not n["steps"] or any(int(s[0]) < 1 for s in n["steps"]):
                    raise InvalidScenario("steps")
        net = sc.get("net")
        if net is not None:
            if not 2 <= net["n"] <= 4 or int(net["delta_us"]) < 10_000:
                raise InvalidScenario("net")
            seen = set()
            for l in net["links"]:
                if not (0 <= l["a"] < net["n"] and 0 <= l["b"] < net["n"]) or l["a"] == l["b"]:
                    raise InvalidScenario("link")
                if (l["a"], l["b"]) in seen or int(l["base_us"]) < 1 or not 0.0 <= l["loss"] < 1.0:
                    raise InvalidScenario("link")
                seen.add((l["a"], l["b"]))
                fac = l.get("factory")
                if fac not in (None, "datacenter", "local", "slow", "lossy") or (fac == "datacenter" and l["base_us"] != 600) \
                        or (fac == "local" and l["base_us"] != 100) or (fac in ("datacenter", "local", "slow") and l["loss"] != 0.0):
                    raise InvalidScenario("factory link parameters")
            if net.get("bidir"):
                by = {(l["a"], l["b"]): l for l in net["links"]}
                for (a, b), l in by.items():
                    r = by.get((b, a))
                    if r is None or (r["base_us"], r["loss"], r.get("factory")) != (l["base_us"], l["loss"], l.get("factory")):
                        raise InvalidScenario("bidirectional build needs both directions with equal parameters")
        for f in faults:
            k = f["kind"]
            if k not in FAULT_KINDS or f.get("cancel", "never") not in CANCEL_MODES:
                raise InvalidScenario("fault kind")
            if k == "randpart":
                if net is None or net["n"] < 3 or f.get("cancel", "never") == "mid":
                    raise InvalidScenario("randpart needs >= 3 nodes; cancel-during-run undefined for it")
                ns_ = f["nodes"]
                if not 2 <= len(ns_) < net["n"] or len(set(ns_)) != len(ns_) or any(not 0 <= x < net["n"] for x in ns_):
                    raise InvalidScenario("randpart nodes (at least one node must stay outside)")
                if not (f["mtbf_ms"] >= 20 and f["mttr_ms"] >= 20):
                    raise InvalidScenario("randpart timing")
                continue
            s, e = f["start_ms"], f.get("end_ms")
            if not isinstance(s, int) or s < 1:
                raise InvalidScenario("start")
            if e is None:
                if k != "crash":
                    raise InvalidScenario("only crash may be permanent")
            elif not isinstance(e, int) or e <= s:
                raise InvalidScenario("window")
            if f.get("cancel") == "mid" and not 0 <= f.get("cancel_ms", -1) < s:
                raise InvalidScenario("cancel_ms")
            if k in ("crash", "pause"):
                if "netnode" in f:
                    if net is None or not 0 <= f["netnode"] < net["n"]:
                        raise InvalidScenario("netnode index")
                elif not 0 <= f["node"] < len(nodes):
                    raise InvalidScenario("node index")
            elif k == "capacity":
                if not 0 <= f["node"] < len(nodes) or nodes[f["node"]]["kind"] != "holder":
                    raise InvalidScenario("capacity target")
                if not 0.05 <= f["factor"] < 1.0:
                    raise InvalidScenario("factor")
                n = nodes[f["node"]]
                if max(n["amount"], n["co_amount"]) > n["cap"] * f["factor"]:
                    raise InvalidScenario("acquire amount above reduced capacity (outside the assumed contract)")
            else:
                if net is None:
                    raise InvalidScenario("no net")
                if k == "partition":
                    a, b = f["a"], f["b"]
                    if not a or not b or set(a) & set(b) or any(not 0 <= x < net["n"] for x in a + b):
                        raise InvalidScenario("groups")
                    if len(set(a)) != len(a) or len(set(b)) != len(b):
                        raise InvalidScenario("groups")
                else:
                    if (f["link"][0], f["link"][1]) not in seen:
                        raise InvalidScenario("fault on missing link")
                    if k == "latency" and f["extra_ms"] < 1:
                        raise InvalidScenario("extra")
                    if k == "loss" and not 0.05 <= f["rate"] <= 1.0:
                        raise InvalidScenario("rate")
    except (KeyError, TypeError, IndexError, ValueError, AttributeError) as exc:
        raise InvalidScenario(f"malformed scenario: {exc!r}") from None


class FaultWorld:
    def __init__(self, sc: dict, with_faults: bool = True):
        self.sc = sc
        self.with_faults = with_faults
        self.logs: dict[str, list] = {}
        self.c: Counter = Counter()
        self.states: set[str] = set()
        self.acqs: dict[str, list[_Acq]] = {}
        self.releasing: str | None = None
        self.probes: dict[tuple, list] = {}
        self.random_pairs: set = set()     # ordered pairs a RandomPartition may cut at times the oracle does not model
        self.tl = Timeline()
        self.cancelled_windows: dict[tuple, list] = {}
        self.fired: Counter = Counter()
        self.expected_edges: Counter = Counter()
        self.cancelled_edges: dict[tuple, str] = {}
        self._last_seg = -1
        self._clock_ent = None
        self.judged_in_window = 0
        self._build()

    # ---- helpers
    def now_ns(self) -> int:
        return self._clock_ent.now.nanoseconds

    def log(self, name, what, m):
        self.logs.setdefault(name, []).append((self.now_ns(), what, m))

    # ---- construction
    def _build(self):
        sc = self.sc
        self.end_ns = sc["end_ms"] * 1_000_000
        ents: list = []
        self.tick = Tick("tick")
        self.relay = Relay("relay", self)
        self._clock_ent = self.tick
        ents += [self.tick, self.relay]
        self.node_ent: dict[str, Entity] = {}
        self.node_kind: dict[str, str] = {}
        self.resources: dict[str, Resource] = {}
        self.res_cfg: dict[str, float] = {}
        self.jobs: list[tuple] = []            # (t_ns, entity, m)
        self.queues: dict[str, Queue] = {}
        self.job_target: dict[str, Entity] = {}
        self.job_times: dict[str, dict] = {}   # name -> {m: t_ns}
        drain_ns = 0
        # boundary-aligned extra jobs (one per window edge of the node) also have to be served before the run ends
        extra_jobs = 2 * len(sc["faults"]) + 2
        for i, n in enumerate(sc["nodes"]):
            kind = n["kind"]
            for side in ("t", "b"):
                name = f"{side}{i}"
                sink = Sink(f"s{side}{i}", self)
                ents.append(sink)
                extra = []
                if kind == "plain":
                    e = PlainNode(name, self, n, sink)
                elif kind == "gen":
                    e = GenNode(name, self, n, sink)
                elif kind == "server":
                    e = ProbeServer(name, self, n, sink)
                elif kind == "qworker":
                    e = QWorker(name, self, n, sink)
                    q = Queue(name=f"q{side}{i}", policy=FIFOQueue())
                    drv = QueueDriver(name=f"d{side}{i}", queue=q, target=e)
                    q.egress = drv
                    extra = [q, drv]
                    self.queues[name] = q
                    self.job_target[name] = q          # work is sent to the queue, the fault names the worker
                else:
                    res = Resource(f"r{side}{i}", capacity=n["cap"])
                    self.resources[res.name] = res
                    self.res_cfg[res.name] = n["cap"]
                    self.acqs[res.name] = []
                    e = Holder(name, self, res, n["amount"], n["hold_us"], sink)
                    co = Holder(f"c{side}{i}", self, res, n["co_amount"], n["co_hold_us"], Sink(f"sc{side}{i}", self))
                    extra = [res, co, co.sink]
                    self.node_kind[co.name] = "co-holder"
                ents.append(e)
                ents.extend(extra)
                self.node_ent[name] = e
                self.node_kind[name] = kind
                times = self._job_times(n["period_us"], n.get("phase_us", 0), n.get("skip", []))
                self.job_times[name] = {}
                for m, t in enumerate(times):
                    self.jobs.append((t, self.job_target.get(name, e), m))
                    self.job_times[name][m] = t
                if kind == "qworker":
                    drain_ns = max(drain_ns, (len(times) + extra_jobs) * n["service_us"] * 1000)
                if kind == "holder":
                    co = extra[1]
                    self.job_times[co.name] = {}
                    for m, t in enumerate(self._job_times(n["co_period_us"], n.get("co_phase_us", 0), n.get("skip", []))):
                        self.jobs.append((t + 11, co, m))
                        self.job_times[co.name][m] = t + 11
                    drain_ns = max(drain_ns, (len(times) + extra_jobs + len(self.job_times[co.name]))
                                   * max(n["hold_us"], n["co_hold_us"]) * 1000)
                elif kind == "server":
                    drain_ns = max(drain_ns, (len(times) + extra_jobs) * n["service_us"] * 1000)
                elif kind == "gen":
                    drain_ns = max(drain_ns, sum(int(s[0]) for s in n["steps"]) * 1000)
        # network + twin network
        self.nets: dict[str, Network] = {}
        self.links: dict[tuple, NetworkLink] = {}
        self.link_cfg: dict[tuple, tuple] = {}
        net = sc.get("net")
        if net is not None:
            nn = [NetNode(f"n{j}", self) for j in range(net["n"])]
            ents.extend(nn)
            # twin_first: the never-faulted twin network is registered first, every fault names "net" explicitly
            for netname in (("netb", "net") if net.get("twin_first") else ("net", "netb")):
                nw = Network(name=netname)
                self.nets[netname] = nw
                for l in net["links"]:
                    a, b = nn[l["a"]], nn[l["b"]]
                    if net.get("bidir"):
                        # the Network module's own helper: one link object, the reverse direction is a shallow copy
                        if l["a"] < l["b"]:
                            nw.add_bidirectional_link(a, b, self._mk_link(l, f"{netname}:{a.name}<->{b.name}"))
                        link = nw.get_link(a.name, b.name)
                        if link is None:
                            raise InvalidScenario("bidir link without its forward entry")
                    else:
                        link = self._mk_link(l, f"{netname}:{a.name}->{b.name}")
                        nw.add_link(a, b, link)
                    self.links[(netname, a.name, b.name)] = link
                    self.link_cfg[(netname, a.name, b.name)] = (link.latency, l["loss"], ns_of_ms(l["base_us"] / 1000.0))
                ents.append(nw)
            drain_ns = max(drain_ns, max((l["base_us"] for l in net["links"]), default=0) * 1000
                           + sum(f["extra_ms"] for f in sc["faults"] if f["kind"] == "latency") * 1_000_000)
        self.sim_end_ns = self.end_ns + drain_ns + 50_000_000
        # ---- fault schedule (the system under test) and the oracle timeline
        sched = FaultSchedule()
        handles = []
        if self.with_faults:
            for fi, f in enumerate(sc["faults"]):
                obj, wins, edges = self._make_fault(fi, f)
                h = sched.add(obj)
                mode = f.get("cancel", "never")
                handles.append((h, mode, f))
                if mode == "never":
                    for key, s, e, param in wins:
                        self.tl.add(key, s, e, fi, f["kind"], param)
                    for et, t in edges:
                        self.expected_edges[(et, t)] += 1
                else:
                    when = {"pre": "before-construction", "post": "after-construction", "mid": "during-run"}[mode]
                    for key, s, e, param in wins:
                        self.cancelled_windows.setdefault(key, []).append((s, e, fi, f["kind"], when))
                    for et, t in edges:
                        self.cancelled_edges.setdefault((et, t), f"{when}")
                if mode == "pre":
                    h.cancel()
                    self.c["probe.cancel_before_construction"] = 1
        self.tl.finalize()
        self.sched = sched
        try:
            sim = Simulation(entities=ents, end_time=Instant(self.sim_end_ns), fault_schedule=sched)
        except Exception as exc:  # noqa: BLE001
            sig = repo_exception_sig(exc, "exception-at-construction")
            if sig is None:
                raise
            raise Violation(f"{P}/{sig}", repr(exc)) from None
        self.sim = sim
        for h, mode, f in handles:
            if mode == "post":
                h.cancel()
                self.c["probe.cancel_after_construction"] = 1
            elif mode == "mid":
                self.c["probe.cancel_during_run"] = 1
                sim.schedule(Event.once(time=Instant(ns_of_ms(f["cancel_ms"]) + 1), event_type="harness.cancel",
                                        fn=lambda e, h=h: h.cancel()))
        # ---- traffic
        evs = []
        edge_jobs = sc.get("edge_jobs")
        if edge_jobs:
            # extra jobs exactly on the window boundaries of their own target (never judged; exercise ties)
            for name, e in self.node_ent.items():
                base = name[1:]
                bounds = sorted(self._all_bounds_for_node(int(base)))
                m0 = 100_000
                skip = sc["nodes"][int(base)].get("skip", [])
                for k, t in enumerate(bounds):
                    if t < self.end_ns and not any(lo * 1_000_000 <= t <= hi * 1_000_000 for lo, hi in skip):
                        self.job_times[name][m0 + k] = t
                        if edge_jobs == "relay" and k % 2 == 1:
                            # created in-run, 3 ms / 400 ms / 2.5 s before it is due (before or inside the window)
                            t_send = max(1, t - (3_000_000, 400_000_000, 2_500_000_000)[(k // 2) % 3])
                            evs.append(Event(time=Instant(t_send), event_type="relay", target=self.relay,
                                             context={"metadata": {"to": name, "at": t, "m": m0 + k}}))
                        else:
                            self.jobs.append((t, self.job_target.get(name, e), m0 + k))
                        ncfg = sc["nodes"][int(base)]
                        if ncfg["kind"] == "holder" and "skip" in ncfg:
                            # avoidance mode (nothing may ever queue outside a window): the extra job replaces the
                            # holder's regular jobs that would overlap it
                            near = ncfg["hold_us"] * 1000 + 1_000_000
                            self.jobs = [j for j in self.jobs if not (j[1] is e and j[2] < m0 and abs(j[0] - t) <= near)]
                            for mm in [mm for mm, tt in self.job_times[name].items() if mm < m0 and abs(tt - t) <= near]:
                                del self.job_times[name][mm]
        for t, e, m in sorted(self.jobs, key=lambda x: (x[0], x[1].name, x[2])):
            evs.append(Event(time=Instant(t), event_type="job", target=e, context={"metadata": {"m": m}}))
        if net is not None:
            pid = 0
            d_ns = net["delta_us"] * 1000
            t = net.get("phase_us", 0) * 1000 + JOB_OFFSET_NS
            bset = set()
            if sc.get("edge_jobs"):
                bset = {ns_of_ms(f[k]) for f in sc["faults"] if f["kind"] in ("partition", "latency", "loss")
                        for k in ("start_ms", "end_ms") if f.get(k) is not None}
            # messages in flight across a network node's crash / restart instants: sent half a link delay before the
            # edge (always), and exactly one link delay before it (arrival lands on the edge instant; edge_jobs runs)
            for f in sc["faults"]:
                if "netnode" in f:
                    for k in ("start_ms", "end_ms"):
                        if f.get(k) is not None:
                            for l in net["links"]:
                                if l["b"] == f["netnode"]:
                                    bn = ns_of_ms(l["base_us"] / 1000.0)
                                    bset.add(ns_of_ms(f[k]) - bn // 2)
                                    if sc.get("edge_jobs"):
                                        bset.add(ns_of_ms(f[k]) - bn)
            bset = {b for b in bset if b > 0}
            times = []
            while t < self.end_ns:
                times.append(t)
                t += d_ns
            times = sorted(set(times) | {b for b in bset if b < self.end_ns})
            for t in times:
                for netname in ("net", "netb"):
                    for l in net["links"]:
                        a, b = f"n{l['a']}", f"n{l['b']}"
                        self.probes[(netname, pid)] = [a, b, t, None]
                        evs.append(Event(time=Instant(t), event_type="probe", target=self.nets[netname],
                                         context={"metadata": {"source": a, "destination": b, "pid": pid,
                                                               "net": netname}}))
                        pid += 1
        tk = max(int(sc.get("tick_us", 250_000)), 20_000) * 1000
        t = tk + 3
        while t < self.sim_end_ns:
            evs.append(Event(time=Instant(t), event_type="tick", target=self.tick))
            t += tk
        evs.append(Event(time=Instant(self.sim_end_ns - 1), event_type="tick", target=self.tick))
        sim.schedule(evs)
        self.n_scheduled = len(evs)

    def _mk_link(self, l: dict, label: str) -> NetworkLink:
        """A link from the repo's condition factories (their default names: every datacenter link is called
        "datacenter") or a plain NetworkLink; link names are labels, not identifiers."""
        fac = l.get("factory")
        if fac == "datacenter":
            return datacenter_network()          # 0.5 ms + 0.1 ms constant jitter, 10 Gbps (probes carry no payload)
        if fac == "local":
            return local_network()               # 0.1 ms
        if fac == "slow":
            return slow_network(l["base_us"] / 1e6)
        if fac == "lossy":
            return lossy_network(l["loss"], base_latency=l["base_us"] / 1e6)
        return NetworkLink(name="dc" if self.sc.get("same_names") else label,
                           latency=ConstantLatency(l["base_us"] / 1e6), packet_loss_rate=l["loss"])

    def _all_bounds_for_node(self, i: int) -> set:
        out = set()
        for f in self.sc["faults"]:
            if f["kind"] in ("crash", "pause", "capacity") and f.get("node") == i:
                out.add(ns_of_ms(f["start_ms"]))
                if f.get("end_ms") is not None:
                    out.add(ns_of_ms(f["end_ms"]))
        return out

    def _job_times(self, period_us, phase_us, skip):
        out = []
        t = int(phase_us) * 1000 + JOB_OFFSET_NS
        p = int(period_us) * 1000
        while t < self.end_ns:
            if not any(lo * 1_000_000 <= t <= hi * 1_000_000 for lo, hi in skip):
                out.append(t)
            t += p
        return out

    def _make_fault(self, fi: int, f: dict):
        """-> (repo fault object, [(key, start_ns, end_ns, param)], [(event_type, t_ns)])"""
        k = f["kind"]
        if k == "randpart":
            names = [f"n{x}" for x in f["nodes"]]
            obj = RandomPartition(nodes=names, mtbf=f["mtbf_ms"] / 1000.0, mttr=f["mttr_ms"] / 1000.0,
                                  seed=f["rseed"], network_name="net" if f.get("named", True)
                                  or (self.sc.get("net") or {}).get("twin_first") else None)
            if f.get("cancel", "never") == "never":
                for x in names:
                    for y in names:
                        if x != y:
                            self.random_pairs.add(("net", x, y))
            return obj, [], []
        s_ms, e_ms = f["start_ms"], f.get("end_ms")
        s, e = ns_of_ms(s_ms), (ns_of_ms(e_ms) if e_ms is not None else INF)
        ssec, esec = s_ms / 1000.0, (e_ms / 1000.0 if e_ms is not None else None)
        if k == "crash":
            name = f"n{f['netnode']}" if "netnode" in f else f"t{f['node']}"
            obj = CrashNode(name, at=ssec, restart_at=esec)
            edges = [(f"fault.crash:{name}", s)] + ([(f"fault.restart:{name}", e)] if e < INF else [])
            return obj, [(("node", name), s, e, None)], edges
        if k == "pause":
            name = f"n{f['netnode']}" if "netnode" in f else f"t{f['node']}"
            obj = PauseNode(name, start=ssec, end=esec)
            return obj, [(("node", name), s, e, None)], [(f"fault.pause:{name}", s), (f"fault.resume:{name}", e)]
        if k == "capacity":
            name = f"rt{f['node']}"
            obj = ReduceCapacity(name, factor=f["factor"], start=ssec, end=esec)
            return obj, [(("cap", name), s, e, f["factor"])], [(f"fault.capacity.reduce:{name}", s),
                                                                (f"fault.capacity.restore:{name}", e)]
        netname = "net" if f.get("named", True) or (self.sc.get("net") or {}).get("twin_first") else None
        if k == "partition":
            a = [f"n{x}" for x in f["a"]]
            b = [f"n{x}" for x in f["b"]]
            asym = bool(f.get("asym", False))
            obj = NetworkPartition(a, b, start=ssec, end=esec, asymmetric=asym, network_name=netname)
            wins = []
            for x in a:
                for y in b:
                    wins.append((("part", "net", x, y), s, e, "asym" if asym else "sym"))
                    if not asym:
                        wins.append((("part", "net", y, x), s, e, "sym"))
            return obj, wins, [("fault.partition.activate", s), ("fault.partition.deactivate", e)]
        src, dst = f"n{f['link'][0]}", f"n{f['link'][1]}"
        if k == "latency":
            obj = InjectLatency(src, dst, extra_ms=f["extra_ms"], start=ssec, end=esec, network_name=netname)
            return obj, [(("lat", "net", src, dst), s, e, ns_of_ms(f["extra_ms"]))], [
                (f"fault.latency.activate:{src}->{dst}", s), (f"fault.latency.deactivate:{src}->{dst}", e)]
        obj = InjectPacketLoss(src, dst, loss_rate=f["rate"], start=ssec, end=esec, network_name=netname)
        return obj, [(("loss", "net", src, dst), s, e, f["rate"])], [
            (f"fault.loss.activate:{src}->{dst}", s), (f"fault.loss.deactivate:{src}->{dst}", e)]

    def _tie(self, key, t, what) -> bool:
        """Is the order of an observation at instant t against the fault edges of `key` at the same instant
        undetermined?  On the repository every fault event is created while the Simulation is constructed, and
        everything judged here is caused by an event created afterwards (scheduled after construction, or
        emitted in-run), so by the engine's FIFO-by-creation tie rule the fault edges at t have already fired:
        windows are exactly half-open, an observation at t == end sees the fault gone and one at t == start
        sees it in effect.  Never undetermined; the exact ties are counted."""
        if self.tl.is_boundary(key, t):
            self.c["probe.boundary_exact." + what] += 1
        return False

    # ---- attribution of a broken expectation to the precise mechanism
    def _attr(self, key, t, fclass, symptom, allow_start=False) -> str:
        edges = self.tl.last_edges(key, t)
        active = self.tl.active(key, t)
        if symptom == "missing":
            ends = [w for edge, w in edges if edge == "end"]
            if ends and active:
                if fclass == "NodeFault":
                    return f"overlap-clears/NodeFault/{active[0][3]}-ended-by-{ends[0][3]}"
                return f"overlap-clears/{fclass}/end-of-other-window"
            if allow_start and len(active) > 1 and any(edge == "start" for edge, _ in edges):
                return f"overlap-clears/{fclass}/start-of-other-window"
            cw = [c for c in self.cancelled_windows.get(key, ()) if c[0] <= t <= c[1]]
            return f"not-in-effect/{fclass}" + ("/cancelled-fault-interfered" if cw else "")
        cw = [c for c in self.cancelled_windows.get(key, ()) if c[0] <= t <= c[1]]
        if cw:
            return f"cancel-ineffective/FaultSchedule/{cw[0][4]}"
        return f"lingering/{fclass}"

    # ---- node activity (called from entity code, i.e. during Event.invoke)
    def act(self, ent, what, m):
        t = self.now_ns()
        name = ent.name
        self.logs.setdefault(name, []).append((t, what, m))
        key = ("node", name)
        if not self.tl.has(key):
            return
        self._tie(key, t, "activity")
        active = self.tl.active(key, t)
        if not active:
            return
        kind = ent.kind
        fk = "+".join(sorted({w[3] for w in active}))
        where = f"{name} ({kind}) {what} m={m} at t={t}ns inside window(s) " + ", ".join(
            f"{w[3]}#{w[2]}[{w[0]},{'inf' if w[1] >= INF else w[1]})" for w in active)
        if kind == "server":
            # the facade accepted this job while a window was active?  then the flag was down (overlap etc.),
            # which is a different mechanism from "work queued before the window keeps flowing"
            mm = m[0] if isinstance(m, list) else m
            arr = self.job_times[name].get(mm)
            if arr is not None and self.tl.active(key, arr):
                sig = self._attr(key, arr, "NodeFault", "missing")
                if sig.startswith("not-in-effect"):
                    sig = f"down-target-ran/{kind}/{fk}" + sig[len("not-in-effect/NodeFault"):]
                raise Violation(f"{P}/{sig}", f"facade accepted job m={mm} at t={arr}ns inside a window; " + where)
            raise Violation(f"{P}/queued-target-not-frozen/QueuedResource/{what}",
                            "queue-fronted target kept working while crashed/paused: " + where)
        if what == "resume":
            raise Violation(f"{P}/inflight-advances/ProcessContinuation/{kind}",
                            "in-flight process of a crashed/paused target advanced: " + where)
        if what == "enter":
            sig = self._attr(key, t, "NodeFault", "missing")
            if sig.startswith("not-in-effect"):
                sig = f"down-target-ran/{kind}/{fk}" + sig[len("not-in-effect/NodeFault"):]
            raise Violation(f"{P}/{sig}", "handler of a crashed/paused target ran: " + where)
        raise Violation(f"{P}/down-target-emitted/{kind}/{fk}", "crashed/paused target emitted: " + where)

    # ---- resource bookkeeping
    def held(self, rname) -> float:
        return sum(a.amount for a in self.acqs[rname] if a.fut.is_resolved and not a.released)

    def on_grant(self, res):
        key = ("cap", res.name)
        t = self.now_ns()
        if not self.tl.has(key) or self._tie(key, t, "grant"):
            return
        active = self.tl.active(key, t)
        if not active:
            return
        self.judged_in_window += 1
        limit = self.res_cfg[res.name] * max(w[4] for w in active)
        h = self.held(res.name)
        if h > limit + 1e-6:
            raise Violation(f"{P}/capacity-window-overgrant/ReduceCapacity/held-exceeds-reduced-capacity",
                            f"{res.name}: grant issued at t={t}ns inside a ReduceCapacity window brings held={h} above "
                            f"the reduced capacity {limit} (capacity now {res.capacity}, available {res.available})")

    def _check_resources(self, t):
        for rname, res in self.resources.items():
            key = ("cap", rname)
            cfg = self.res_cfg[rname]
            active = self.tl.active(key, t)
            h = self.held(rname)
            if active:
                if len(active) == 1:
                    want = cfg * active[0][4]
                    if abs(res.capacity - want) > 1e-9:
                        sig = self._attr(key, t, "ReduceCapacity", "missing")
                        raise Violation(f"{P}/{sig}", f"{rname}.capacity={res.capacity} at t={t}ns, expected {want} "
                                        f"inside window #{active[0][2]}")
                elif not res.capacity < cfg:
                    sig = self._attr(key, t, "ReduceCapacity", "missing")
                    raise Violation(f"{P}/{sig}", f"{rname}.capacity={res.capacity} at t={t}ns is not reduced although "
                                    f"{len(active)} ReduceCapacity windows are active")
                if h > 0:
                    self.c["probe.capacity_window_with_grants_held"] = 1
                continue
            if res.capacity != cfg:
                if not self.tl.has(key):
                    raise Violation(f"{P}/bystander-state-changed/Resource/capacity",
                                    f"{rname}.capacity={res.capacity} but no fault names it (configured {cfg})")
                sig = self._attr(key, t, "ReduceCapacity", "lingering")
                raise Violation(f"{P}/{sig}", f"{rname}.capacity={res.capacity} at t={t}ns outside every window "
                                f"(configured {cfg})")
            tot = res.available + h
            if abs(tot - cfg) > 1e-6:
                if not self.tl.has(key):
                    raise Violation(f"{P}/bystander-state-changed/Resource/accounting",
                                    f"{rname}: available {res.available} + held {h} != capacity {cfg}")
                how = "available-exceeds" if tot > cfg else "available-short"
                ws = self.tl.w[key]
                if any(a[2] != b[2] and a[0] <= b[1] and b[0] <= a[1] for a in ws for b in ws):
                    # windows on this resource overlapped or touched: the books are off because each
                    # ReduceCapacity edge assumes it is alone (same root cause as overlap-clears)
                    raise Violation(f"{P}/overlap-clears/ReduceCapacity/accounting-after-overlap",
                                    f"{rname} at t={t}ns after overlapping ReduceCapacity windows: available="
                                    f"{res.available} + held={h} != configured capacity {cfg}")
                raise Violation(f"{P}/capacity-restore-accounting/ReduceCapacity/{how}",
                                f"{rname} at t={t}ns, every ReduceCapacity window over: available={res.available} + "
                                f"held={h} != configured capacity {cfg}")
            if self.tl.has(key) and any(edge == "end" for edge, _ in self.tl.last_edges(key, t)) and \
                    any(not a.fut.is_resolved for a in self.acqs[rname]):
                self.c["probe.waiter_still_queued_after_restore_legitimately"] = 1
            if res.waiters:
                head = next((a for a in self.acqs[rname] if not a.fut.is_resolved), None)
                if head is not None and res.available >= head.amount:
                    if self.tl.has(key):
                        raise Violation(f"{P}/capacity-restore-no-wake/ReduceCapacity/waiter-stranded",
                                        f"{rname} at t={t}ns: head waiter needs {head.amount}, available="
                                        f"{res.available}, yet it still waits after the window ended")
                    raise Violation(f"{P}/bystander-state-changed/Resource/waiter-stranded", f"{rname}")

    # ---- link / partition state
    def _check_net_state(self, t):
        tl = self.tl
        for (netname, a, b), link in self.links.items():
            lat0, loss0, _ = self.link_cfg[(netname, a, b)]
            lname = f"{netname}:{a}->{b}"
            nw = self.nets[netname]
            # partition
            key = ("part", netname, a, b)
            if True:
                active = tl.active(key, t)
                obs = nw.is_partitioned(a, b)
                if active:
                    self.states.add("part:" + "+".join(sorted(w[4] for w in active)))
                    if obs and any(edge == "end" for edge, _ in tl.last_edges(key, t)):
                        self.c["probe.overlap_held.partition_after_other_window_ended"] = 1
                if obs and not active and key[1:] in self.random_pairs:
                    self.c["probe.random_partition_cut_observed"] = 1
                elif obs != bool(active):
                    if not tl.has(key):
                        cw = [c for c in self.cancelled_windows.get(key, ()) if c[0] <= t <= c[1]]
                        if cw:
                            raise Violation(f"{P}/cancel-ineffective/FaultSchedule/{cw[0][4]}",
                                            f"{netname} {a}->{b} partitioned at t={t}ns by a cancelled NetworkPartition")
                        raise Violation(f"{P}/bystander-state-changed/Network/partitioned",
                                        f"{netname}.is_partitioned({a},{b}) is True at t={t}ns; no fault names that direction")
                    sig = self._attr(key, t, "NetworkPartition", "missing" if active else "lingering")
                    raise Violation(f"{P}/{sig}", f"{netname}.is_partitioned({a},{b})={obs} at t={t}ns, oracle says "
                                    f"{bool(active)} (active windows {[w[2] for w in active]})")
            # loss
            key = ("loss", netname, a, b)
            if True:
                active = tl.active(key, t)
                obs = link.packet_loss_rate
                if active:
                    self.states.add(f"loss:{len(active)}")
                    want = min(1.0, loss0 + max(w[4] for w in active))
                    bad = abs(obs - want) > 1e-12 if len(active) == 1 else obs < want - 1e-12
                    symptom = "missing"
                else:
                    want = loss0
                    bad = obs != want
                    symptom = "lingering"
                if active and not bad and any(edge == "end" for edge, _ in tl.last_edges(key, t)):
                    self.c["probe.overlap_held.loss_after_other_window_ended"] = 1
                if bad:
                    if not tl.has(key):
                        cw = [c for c in self.cancelled_windows.get(key, ()) if c[0] <= t <= c[1]]
                        if cw:
                            raise Violation(f"{P}/cancel-ineffective/FaultSchedule/{cw[0][4]}",
                                            f"{lname}.packet_loss_rate={obs} at t={t}ns set by a cancelled fault")
                        raise Violation(f"{P}/bystander-state-changed/NetworkLink/packet_loss_rate",
                                        f"{lname}.packet_loss_rate={obs}, configured {loss0}; no fault names it")
                    if symptom == "lingering" and tl.all_ended_by(key, t) and obs != loss0 and not self.cancelled_windows.get(key):
                        raise Violation(f"{P}/not-restored/InjectPacketLoss/packet_loss_rate",
                                        f"{lname}.packet_loss_rate={obs} at t={t}ns after every window ended "
                                        f"(configured {loss0})")
                    sig = self._attr(key, t, "InjectPacketLoss", symptom, allow_start=True)
                    raise Violation(f"{P}/{sig}", f"{lname}.packet_loss_rate={obs} at t={t}ns, expected {want} "
                                    f"(active windows {[w[2] for w in active]})")
            # latency object
            key = ("lat", netname, a, b)
            if True:
                active = tl.active(key, t)
                is_cfg = link.latency is lat0
                if active:
                    self.states.add(f"lat:{len(active)}")
                if is_cfg == bool(active):
                    if not tl.has(key):
                        cw = [c for c in self.cancelled_windows.get(key, ()) if c[0] <= t <= c[1]]
                        if cw:
                            raise Violation(f"{P}/cancel-ineffective/FaultSchedule/{cw[0][4]}",
                                            f"{lname}.latency replaced at t={t}ns by a cancelled fault")
                        raise Violation(f"{P}/bystander-state-changed/NetworkLink/latency",
                                        f"{lname}.latency is not the configured object; no fault names it")
                    sig = self._attr(key, t, "InjectLatency", "missing" if active else "lingering")
                    raise Violation(f"{P}/{sig}", f"{lname}.latency is {'the configured object' if is_cfg else 'not the configured object'} "
                                    f"at t={t}ns (active windows {[w[2] for w in active]})")

    def check_state(self, t, force=False, after_fault_event=False):
        if after_fault_event and self.tl.any_boundary(t):
            # the only undetermined instant: between two fault edges that share this instant
            return
        if self.tl.any_boundary(t):
            self.c["probe.boundary_exact.state_checked"] += 1
            force = True
        self._check_resources(t)
        seg = self.tl.segment(t)
        if force or seg != self._last_seg:
            self._last_seg = seg
            for key, ws in self.tl.w.items():
                if key[0] in ("node", "cap"):
                    act = [w for w in ws if w[0] < t < w[1]]
                    if act:
                        self.states.add(key[0] + ":" + "+".join(sorted(w[3] for w in act)))
            if self.links:
                self._check_net_state(t)

    # ---- probes
    def probe_arrived(self, netname, pid, at):
        rec = self.probes[(netname, pid)]
        a, b, sent, _ = rec
        t = self.now_ns()
        rec[3] = t
        self.logs.setdefault(f"{netname}:{a}->{b}", []).append((t, "probe", pid))
        tl = self.tl
        kp, kl, kd = ("part", netname, a, b), ("loss", netname, a, b), ("lat", netname, a, b)
        lat0, loss0, base_ns = self.link_cfg[(netname, a, b)]
        if at != b:
            raise Violation(f"{P}/probe-misdelivered/Network/wrong-destination", f"probe {pid} {a}->{b} arrived at {at}")
        kn = ("node", b)
        if tl.has(kn):
            self._tie(kn, t, "arrival")
            down = tl.active(kn, t)
            if down:
                sig = self._attr(kn, t, "NodeFault", "missing")
                if sig.startswith("not-in-effect"):
                    sig = "down-target-ran/netnode/" + "+".join(sorted({w[3] for w in down})) + sig[len("not-in-effect/NodeFault"):]
                raise Violation(f"{P}/{sig}", f"network node {b} handled probe {pid} ({netname} {a}->{b}, sent {sent}ns) at "
                                f"t={t}ns inside its crash/pause window(s) {[w[2] for w in down]}")
            if tl.active(kn, sent):
                self.c["probe.message_sent_while_destination_down_handled_after_restart"] += 1
            if any(w[1] == t for w in tl.w[kn]):
                self.c["probe.boundary_exact.message_arrives_at_restart_instant"] += 1
        if not self._tie(kp, sent, "probe"):
            act = tl.active(kp, sent)
            if act:
                sig = self._attr(kp, sent, "NetworkPartition", "missing")
                if sig.startswith("not-in-effect"):
                    sig = "probe-delivered-in-window/NetworkPartition/" + "+".join(sorted({w[4] for w in act}))
                raise Violation(f"{P}/{sig}", f"probe {pid} {a}->{b} sent at {sent}ns inside partition window(s) "
                                f"{[w[2] for w in act]} was delivered at {t}ns")
            if not act and any(w[1] == sent for w in tl.w.get(kp, ())):
                self.c["probe.boundary_exact.probe_delivered_sent_at_heal_instant"] = 1
        if not self._tie(kl, sent, "probe"):
            act = [w for w in tl.active(kl, sent) if w[4] >= 1.0]
            if act:
                sig = self._attr(kl, sent, "InjectPacketLoss", "missing")
                if sig.startswith("not-in-effect"):
                    sig = "probe-delivered-in-window/InjectPacketLoss/rate-1"
                raise Violation(f"{P}/{sig}", f"probe {pid} {a}->{b} sent at {sent}ns inside loss(1.0) window(s) "
                                f"{[w[2] for w in act]} was delivered at {t}ns")
        if not self._tie(kd, sent, "probe"):
            act = tl.active(kd, sent)
            extra = (t - sent) - base_ns
            if act:
                self.judged_in_window += 1
                need = max(w[4] for w in act)
                if extra < need - LAT_TOL_NS:
                    sig = self._attr(kd, sent, "InjectLatency", "missing", allow_start=True)
                    if sig.startswith("not-in-effect"):
                        sig = "latency-not-added/InjectLatency" + sig[len("not-in-effect/InjectLatency"):]
                    raise Violation(f"{P}/{sig}", f"probe {pid} {a}->{b} sent at {sent}ns inside latency window(s) "
                                    f"{[(w[2], w[4]) for w in act]} took base+{extra}ns, needs >= base+{need}ns")
                most = sum(w[4] for w in act)
                if extra > most + LAT_TOL_NS:
                    raise Violation(f"{P}/latency-excess/InjectLatency/more-than-all-active-windows-inject",
                                    f"probe {pid} {netname} {a}->{b} sent at {sent}ns took base+{extra}ns but the window(s) "
                                    f"active on this link {[(w[2], w[4]) for w in act]} inject at most {most}ns")
                self.c["probe.latency_added_observed"] = 1
                if len(act) > 1:
                    self.c["probe.overlap_held.latency_under_two_windows"] = 1
                if any(edge == "end" for edge, _ in tl.last_edges(kd, sent)):
                    self.c["probe.overlap_held.latency_after_other_window_ended"] = 1
            elif abs(extra) > LAT_TOL_NS:
                sig = self._attr(kd, sent, "InjectLatency", "lingering") if tl.has(kd) else \
                    "bystander-affected/NetworkLink/latency"
                raise Violation(f"{P}/{sig}", f"probe {pid} {a}->{b} sent at {sent}ns outside every latency window "
                                f"took base{extra:+d}ns")

    # ---- per-delivery hook
    def on_delivery(self, ev, mon):
        t = ev.time.nanoseconds
        et = ev.event_type
        if et.startswith("fault."):
            self._fault_fired(et, t)
        elif et == "job" and type(ev) is Event:
            self._job_delivered(ev, t)
        self.check_state(t, after_fault_event=et.startswith("fault."))

    def _fault_fired(self, et, t):
        self.fired[(et, t)] += 1
        self.c[et.split(":")[0]] += 1
        if et.startswith("fault.random_partition"):
            self._last_seg = -1      # partition sets changed at an instant the timeline does not know: re-check state
        if et == "fault.random_partition.fault" and any(k[0] == "part" and self.tl.active(k, t) for k in self.tl.w):
            self.c["probe.random_cycle_started_inside_scheduled_partition_window"] = 1
        if self.fired[(et, t)] > self.expected_edges.get((et, t), 0) and (et, t) in self.cancelled_edges:
            when = self.cancelled_edges[(et, t)]
            raise Violation(f"{P}/cancel-ineffective/FaultSchedule/{when}",
                            f"event {et} of a fault whose handle was cancelled {when} fired at t={t}ns")

    def _job_delivered(self, ev, t):
        tgt = ev.target
        name = getattr(tgt, "name", "")
        key = ("node", name)
        if self.node_ent.get(name) is not tgt or not self.tl.has(key) and not self.cancelled_windows.get(key):
            return
        self._tie(key, t, "job")
        m = ev.context["metadata"]["m"]
        act = self.tl.active(key, t)
        if act:
            self.judged_in_window += 1
            self.c["probe.job_dropped_in_down_window"] += 1
            if any(w[0] == t for w in act):
                self.c["probe.boundary_exact.job_dropped_at_window_start"] += 1
            if len(act) > 1:
                self.c["probe.overlap_held.node_down_under_two_windows"] = 1
            if any(edge == "end" for edge, _ in self.tl.last_edges(key, t)):
                self.c["probe.overlap_held.node_still_down_after_other_window_ended"] = 1
            return
        if any(w[1] == t for w in self.tl.w.get(key, ())):
            self.c["probe.boundary_exact.job_due_at_window_end"] += 1
        if self.tl.last_edges(key, t):
            self.c["probe.job_after_window_end"] = 1
        if tgt.kind == "server":
            return  # accepted into the queue; completion judged after the run
        lg = self.logs.get(name, ())
        if not any(e[0] == t and e[1] == "enter" and e[2] == m for e in lg[-6:]):
            if any(w[1] == t for w in self.tl.w.get(key, ())):
                sig = f"up-target-skipped-event/{tgt.kind}/at-window-end-instant"
            else:
                sig = self._attr(key, t, "NodeFault", "lingering")
            if sig.startswith("lingering"):
                sig = f"up-target-skipped-event/{tgt.kind}/" + (
                    "after-window" if self.tl.last_edges(key, t) else "before-any-window")
            raise Violation(f"{P}/{sig}", f"{name} ({tgt.kind}) did not handle job m={m} delivered at t={t}ns although no "
                            f"crash/pause window covers that instant")

    # ---- run
    def run(self, cap=20_000):
        mon = Monitor(self.sim, cap=cap, spin_cap=3000, invariant=self.on_delivery)
        self.mon = mon
        status, payload = "ok", None
        try:
            self.sim.run()
        except Violation as v:
            status, payload = "violation", v
        except BudgetExceeded as b:
            status, payload = "budget", b
        except Exception as exc:  # noqa: BLE001
            sig = repo_exception_sig(exc)
            if sig is None:
                raise
            t = self.now_ns()
            try:  # fine before coarse: is the state already inconsistent?
                self._check_resources(t)
                if "_do_release" in sig and self.releasing and self.tl.active(("cap", self.releasing), t):
                    sig = "capacity-window-release-raises/ReduceCapacity/" + type(exc).__name__
                status, payload = "violation", Violation(f"{P}/{sig}", f"exception escaped sim.run() at t={t}ns: {exc!r}")
            except Violation as v:
                v.msg += f" (then {type(exc).__name__} escaped sim.run(): {exc})"
                status, payload = "violation", v
        return status, payload

    # ---- after the run
    def post_checks(self):
        t_end = self.now_ns()
        tl = self.tl
        # the engine delivers one event past end_time; if that was a fault edge the instant may be half-applied
        self.check_state(t_end, force=True, after_fault_event=t_end > self.sim_end_ns)
        # (ii) explicit Queue -> QueueDriver -> worker: once every window is over and arrivals have stopped, the queue
        # drains and everything that arrived after the last restart was handled (bounded liveness)
        for name, q in self.queues.items():
            key = ("node", name)
            if not tl.has(key):
                continue
            last_end = max(w[1] for w in tl.w[key])
            if last_end >= self.end_ns:
                continue
            ent = self.node_ent[name]
            entered = {e[2] for e in self.logs.get(name, ()) if e[1] == "enter"}
            late = [m for m, t in self.job_times[name].items() if t >= last_end and m not in entered]
            if q.depth > 0 or late:
                done = {e[2] for e in self.logs.get(name, ()) if e[1] == "resume"}
                killed = any(m in entered and m not in done for m in self.job_times[name])
                how = "completion-hook-of-killed-item-lost" if ent.limit and killed else "driver-never-woken"
                raise Violation(f"{P}/queue-stalled-after-restart/QueueDriver/{how}",
                                f"{name} (behind {q.name}): last window ended at {last_end}ns, arrivals stopped at {self.end_ns}ns, "
                                f"run ended at {t_end}ns with queue depth {q.depth}; jobs arrived after the restart and never "
                                f"handled: {sorted(late)[:6]}")
            if any(tl.active(key, t) for t in self.job_times[name].values()):
                self.c["probe.qworker_item_arrived_during_down_window"] = 1
            if any(t >= last_end for t in self.job_times[name].values()):
                self.c["probe.qworker_served_after_restart"] = 1
        # (ii) queue-fronted targets: every job accepted while up is eventually handled
        for name, ent in self.node_ent.items():
            key = ("node", name)
            if self.node_kind[name] != "server" or not tl.has(key):
                continue
            entered = {e[2] for e in self.logs.get(name, ()) if e[1] == "enter"}
            for m, t in self.job_times[name].items():
                if tl.active(key, t) or m in entered:
                    continue
                if any(w[1] == t for w in tl.w.get(key, ())):
                    raise Violation(f"{P}/up-arrival-never-processed/QueuedResource/at-window-end-instant",
                                    f"{name} never handled job m={m} delivered at t={t}ns, exactly when a window ended")
                if any(c[0] <= t <= c[1] for c in self.cancelled_windows.get(key, ())):
                    raise Violation(f"{P}/cancel-ineffective/FaultSchedule/{self.cancelled_windows[key][0][4]}",
                                    f"{name} never handled job m={m} delivered at {t}ns inside a cancelled fault's window")
                raise Violation(f"{P}/up-arrival-never-processed/QueuedResource/server",
                                f"{name} never handled job m={m} delivered at t={t}ns outside every window")
        # (iii) probes that had to arrive
        for (netname, pid), (a, b, sent, arr) in self.probes.items():
            if arr is not None:
                continue
            lat0, loss0, base_ns = self.link_cfg[(netname, a, b)]
            kp, kl = ("part", netname, a, b), ("loss", netname, a, b)
            if tl.active(kp, sent):
                self.c["probe.probe_dropped_by_partition"] += 1
                if any(w[0] == sent for w in tl.active(kp, sent)):
                    self.c["probe.boundary_exact.probe_dropped_sent_at_partition_start"] = 1
                self.judged_in_window += 1
                continue
            if tl.active(kl, sent):
                self.c["probe.probe_dropped_by_loss"] += 1
                self.judged_in_window += 1
                continue
            if loss0 > 0 or (netname, a, b) in self.random_pairs:
                continue
            kn = ("node", b)
            if tl.has(kn):
                # when does it reach the destination?  base + every extra active at send time (at least the largest)
                ex = [w[4] for w in tl.active(("lat", netname, a, b), sent)]
                lo, hi = sent + base_ns + max(ex, default=0) - LAT_TOL_NS, sent + base_ns + sum(ex) + LAT_TOL_NS
                states = {bool(tl.active(kn, x)) for x in (lo, hi)}
                if any(lo <= bd <= hi for bd in tl.bset[kn]) or len(states) > 1:
                    continue                                   # arrival too close to a crash/restart edge to call
                if True in states:
                    self.c["probe.message_dropped_by_down_destination"] += 1
                    self.judged_in_window += 1
                    continue
                if tl.active(kn, sent):
                    raise Violation(f"{P}/message-lost/netnode/sent-while-destination-down-arrival-after-restart",
                                    f"probe {pid} {netname} {a}->{b} sent at {sent}ns while {b} was down reaches it at "
                                    f">= {lo + LAT_TOL_NS}ns, after the restart, but was never handled")
            for key, fc in ((kp, "NetworkPartition"), (kl, "InjectPacketLoss")):
                if tl.has(key) or self.cancelled_windows.get(key):
                    sig = self._attr(key, sent, fc, "lingering")
                    raise Violation(f"{P}/{sig.replace('lingering', 'probe-lost-outside-window')}",
                                    f"probe {pid} {netname} {a}->{b} sent at {sent}ns outside every window never arrived")
            raise Violation(f"{P}/bystander-affected/NetworkLink/probe-lost",
                            f"probe {pid} {netname} {a}->{b} sent at {sent}ns never arrived; no partition/loss fault names that link")
        # reverse direction of an asymmetric partition kept working?
        for key, ws in tl.w.items():
            if key[0] == "part":
                for w in ws:
                    if w[4] == "asym":
                        rev = ("part", key[1], key[3], key[2])
                        for (netname, pid), (a, b, sent, arr) in self.probes.items():
                            if netname == key[1] and a == key[3] and b == key[2] and w[0] < sent < w[1] and arr is not None \
                                    and not tl.active(rev, sent):
                                self.c["probe.asym_reverse_delivered"] = 1
                                break
        # target vs twin outside windows (plain / gen): identical traffic => identical per-message logs
        for name, ent in self.node_ent.items():
            key = ("node", name)
            kind = self.node_kind[name]
            if name[0] != "t" or kind not in ("plain", "gen") or not (tl.has(key) or self.cancelled_windows.get(key)):
                continue
            twin = "b" + name[1:]
            span = 0
            if kind == "gen":
                span = sum(s[0] for s in ent.steps) * 1000 + 1000
            def per_msg(lg):
                d = {}
                for t, what, m in lg:
                    mm = m[0] if isinstance(m, list) else m
                    d.setdefault(mm, []).append((t, what, m))
                return d
            mine, theirs = per_msg(self.logs.get(name, ())), per_msg(self.logs.get(twin, ()))
            for m, t in self.job_times[name].items():
                if tl.touches(key, t, t + span) or t + span >= self.sim_end_ns:
                    continue
                if any(c[0] <= t + span and c[1] >= t for c in self.cancelled_windows.get(key, ())):
                    if mine.get(m) != theirs.get(m):
                        raise Violation(f"{P}/cancel-ineffective/FaultSchedule/{self.cancelled_windows[key][0][4]}",
                                        f"{name} job m={m} at {t}ns differs from its twin inside a cancelled fault's window")
                    continue
                if mine.get(m) != theirs.get(m):
                    raise Violation(f"{P}/target-differs-outside-windows/{kind}/per-message-log",
                                    f"{name} job m={m} at {t}ns (lifetime clear of every window): {mine.get(m)} vs twin {theirs.get(m)}")
                self.c["probe.target_matches_twin_outside_windows"] = 1

    def bystander_names(self) -> list[str]:
        """Log streams that no fault may influence."""
        out = []
        targeted = set()
        down_nodes = {f["netnode"] for f in self.sc["faults"] if "netnode" in f}
        for f in self.sc["faults"]:
            if f["kind"] in ("crash", "pause", "capacity") and "node" in f:
                targeted.add(f["node"])
        for i, n in enumerate(self.sc["nodes"]):
            out += [f"b{i}", f"sb{i}"]
            if n["kind"] == "holder":
                out += [f"cb{i}", f"scb{i}"]
            if i not in targeted:
                out += [f"t{i}", f"st{i}"]
                if n["kind"] == "holder":
                    out += [f"ct{i}", f"sct{i}"]
        net = self.sc.get("net")
        if net is not None:
            touched = set()
            for f in self.sc["faults"]:
                if f["kind"] in ("latency", "loss"):
                    touched.add((f["link"][0], f["link"][1]))
                elif f["kind"] == "partition":
                    for x in f["a"]:
                        for y in f["b"]:
                            touched.add((x, y))
                            touched.add((y, x))
                elif f["kind"] == "randpart":
                    touched |= {(x, y) for x in f["nodes"] for y in f["nodes"] if x != y}
            for l in net["links"]:
                if l["loss"] > 0 or l["b"] in down_nodes:   # both networks deliver to the same node entities
                    continue
                out.append(f"netb:n{l['a']}->n{l['b']}")
                if (l["a"], l["b"]) not in touched:
                    out.append(f"net:n{l['a']}->n{l['b']}")
        return out

    def log_digest(self) -> str:
        h = hashlib.blake2b(digest_size=12)
        for name in sorted(self.logs):
            h.update(name.encode())
            h.update(repr(self.logs[name]).encode())
        return h.hexdigest()
