"""C07 component zoo: framework shared by all drivers.

One `Zoo` per run: it owns the entity list, the pre-run schedule, the harness
helper entities (Collector / Svc / Actor), the three global C07 monitors and
the bookkeeping for the evidence (which repo classes really received a
delivery or had their generator API called).

Monitors (DESIGN.md section 5, C07):

(a) `EventHeap.push` of the simulation's heap INSTANCE is wrapped (instance
    attribute; no repo edit).  Every pushed event is compared with the clock:
    `event.time < clock.now`  ->  C07/past-event/<EmitterClass>/<event_type>.
    The emitter is the class of the target of the event being processed when
    the push happens (`sim._last_event`); when that target is a harness entity
    (an Actor running a repo generator API such as `yield from q.publish()`),
    the repo class owning the innermost suspended generator frame is used, and
    failing that the driver's subject class.  A past emission of an event
    object that the harness itself created (first push) is a harness bug and
    raises `HarnessBug` (exit 2), never a verdict.
(b) a logging handler on "happysimulator.core.simulation" counts the engine's
    "Time travel detected" discards; more discards than (a) explains would mean
    an emission that bypassed the wrapper -> C07/engine-discarded-event/...
(c) `simkit.world.Monitor`: more than SPIN_CAP consecutive deliveries at one
    timestamp -> C07/frozen-clock-spin/<Class>/<event_type>; a run that reaches
    its delivery cap while the clock creeps (< CREEP_NS_PER_DELIVERY on average
    over the last CREEP_WINDOW deliveries) -> C07/clock-creep-spin/...

A run does not stop at the first past emission (the engine does not either:
it discards the event and goes on), so that several distinct signatures can be
collected in one run; `pick_signature` reports the first one that is not a
recorded finding (else the first), which keeps a recorded defect from masking
a different one in the same run.
"""
from __future__ import annotations

import importlib
import inspect
import logging
import pkgutil
import re
from collections import Counter

from simkit import repo

repo.activate()

from happysimulator.core.entity import Entity  # noqa: E402
from happysimulator.core.event import Event, ProcessContinuation  # noqa: E402
from happysimulator.core.simulation import Simulation  # noqa: E402
from happysimulator.core.temporal import Instant  # noqa: E402

from simkit import chaosnet  # noqa: E402
from simkit.rng import seed_globals  # noqa: E402
from simkit.world import (  # noqa: E402
    BudgetExceeded,
    InvalidScenario,
    Monitor,
    Violation,
    repo_exception_sig,
    seeded_uuid,
)

P = "C07"
NS = 1_000_000_000
SPIN_CAP = 2_500
DELIVERY_CAP = 25_000
CREEP_WINDOW = 8_000
CREEP_NS_PER_DELIVERY = 1


class HarnessBug(Exception):
    """The harness itself emitted into the past (must surface as exit 2)."""


def ns(seconds) -> int:
    """The repo's float-seconds -> integer-nanoseconds quantisation."""
    if isinstance(seconds, int) and not isinstance(seconds, bool):
        return seconds * NS
    return int(seconds * NS)


# --------------------------------------------------------------------------
# enumeration of the component library
# --------------------------------------------------------------------------

_ENUM_CACHE: dict | None = None


def enumerate_entity_classes() -> dict[str, type]:
    """Every Entity subclass defined under happysimulator.components (by simple name)."""
    global _ENUM_CACHE
    if _ENUM_CACHE is not None:
        return _ENUM_CACHE
    import happysimulator.components as C

    seen: dict[str, type] = {}
    for m in pkgutil.walk_packages(C.__path__, C.__name__ + "."):
        mod = importlib.import_module(m.name)
        for n, o in inspect.getmembers(mod, inspect.isclass):
            if issubclass(o, Entity) and o is not Entity and o.__module__ == mod.__name__:
                if n in seen and seen[n] is not o:
                    raise RuntimeError(f"two component classes share the name {n}")
                seen[n] = o
    _ENUM_CACHE = dict(sorted(seen.items()))
    return _ENUM_CACHE


# --------------------------------------------------------------------------
# harness entities
# --------------------------------------------------------------------------

class HEntity(Entity):
    """Marker base: entities whose emissions are the harness's own."""


class Collector(HEntity):
    """Terminal sink.  Resolves a `reply_future` if the event carries one."""

    def __init__(self, name="sink"):
        super().__init__(name)
        self.n = 0
        self.by_type = Counter()

    def handle_event(self, ev):
        self.n += 1
        self.by_type[ev.event_type] += 1
        fut = ev.context.get("reply_future") if isinstance(ev.context, dict) else None
        if fut is None and isinstance(ev.context, dict):
            fut = (ev.context.get("metadata") or {}).get("reply_future")
        if fut is not None and not fut.is_resolved:
            fut.resolve({"ok": True, "n": self.n})
        return None


class Svc(HEntity):
    """Backend service with a generated per-request service time (seconds,
    cycled).  0.0 means "answer in the same instant" (plain return, no yield);
    completion hooks attached by wrappers run when the generator finishes."""

    def __init__(self, name, times, zoo, forward=None, capacity=None):
        super().__init__(name)
        self.times = list(times) or [0.0]
        self.zoo = zoo
        self.forward_to = forward
        self.capacity = capacity
        self.active = 0
        self.k = 0
        self.done = 0

    def has_capacity(self):
        return self.capacity is None or self.active < self.capacity

    def _finish(self, ev):
        self.done += 1
        fut = ev.context.get("reply_future") if isinstance(ev.context, dict) else None
        if fut is None and isinstance(ev.context, dict):
            fut = (ev.context.get("metadata") or {}).get("reply_future")
        if fut is not None and not fut.is_resolved:
            fut.resolve({"ok": True, "by": self.name})
        if self.forward_to is not None:
            return [self.zoo.ev(self.forward_to, ev.event_type, {"metadata": dict(ev.context.get("metadata") or {})})]
        return None

    def handle_event(self, ev):
        t = float(self.times[self.k % len(self.times)])
        self.k += 1
        if t <= 0.0:
            return self._finish(ev)
        return self._serve(ev, t)

    def _serve(self, ev, t):
        self.active += 1
        try:
            yield t
        finally:
            self.active -= 1
        return self._finish(ev)


class Callback(HEntity):
    """Harness entity whose handler is a plain function (consumers, subscribers)."""

    def __init__(self, name, fn):
        super().__init__(name)
        self.fn = fn
        self.n = 0

    def handle_event(self, ev):
        self.n += 1
        return self.fn(ev)


class Actor(HEntity):
    """Runs a harness script (a generator function) as a simulation process.
    Repo generator APIs (`yield from store.get(k)`) execute inside it."""

    def __init__(self, name, zoo):
        super().__init__(name)
        self.zoo = zoo
        self.finished = 0
        self.started = 0

    def handle_event(self, ev):
        fn = ev.context.get("fn")
        if fn is None:
            return None
        self.started += 1
        out = fn(*ev.context.get("args", ()))
        if inspect.isgenerator(out):
            return self._wrap(out)
        self.finished += 1
        return out

    def _wrap(self, gen):
        out = yield from gen
        self.finished += 1
        return out


# --------------------------------------------------------------------------
# the world
# --------------------------------------------------------------------------

class _TimeTravelHandler(logging.Handler):
    def __init__(self):
        super().__init__(level=logging.WARNING)
        self.hits: list[str] = []

    def emit(self, record):
        try:
            msg = record.getMessage()
        except Exception:  # noqa: BLE001
            msg = str(record.msg)
        if "Time travel detected" in msg:
            m = re.search(r"event_type=(\S+)", msg)
            self.hits.append(m.group(1) if m else "?")


class Zoo:
    def __init__(self, sc: dict, subject: str, classes: list[str]):
        self.sc = sc
        self.subject = subject
        self.classes = list(classes)
        self.entities: list = []
        self._pre: list = []          # (t_ns, factory) materialised after Simulation()
        self._post: list = []         # callables run after Simulation() (clock injected)
        self.horizon_ns: int | None = None    # relative to the start of the simulation
        t0 = sc.get("t0_ns", 0)
        if isinstance(t0, bool) or not isinstance(t0, int) or not 0 <= t0 <= 10**15:
            raise InvalidScenario("t0_ns")
        self.t0_ns = t0                        # Simulation(start_time=...); every harness time is relative to it
        self.sim: Simulation | None = None
        self.harness_ids: set[int] = set()
        self.touched: set[str] = set()
        self.delivered = Counter()    # class name -> deliveries
        self.probes = Counter()
        self.violations: list[tuple[str, str]] = []
        self._seen_sigs: set[str] = set()
        self.pushes = 0
        self.repo_pushes = 0
        self.past_pushes = 0
        self.emitters = Counter()     # repo class -> events pushed while one of its handlers/processes ran
        self.future_timers = 0        # repo pushes stamped later than the clock (timers, delays)
        self.parked = 0               # processes resumed through SimFuture.resolve()
        self.max_lag_ns = 0
        self._names: list[str] = []
        self.detail = None            # optional configuration detail a driver wants in the signatures of this run
        self._cur_t = -1
        self._norm_cache: dict = {}
        self._same_t_counts = Counter()
        self._same_t_last: dict = {}
        self.at_end = None            # optional callable run after the simulation (fault counters, API-driven classes)
        self._repo_classes = enumerate_entity_classes()

    # ---- construction helpers -------------------------------------------
    def add(self, *ents):
        for e in ents:
            if e is not None and all(e is not x for x in self.entities):
                self.entities.append(e)
        return ents[0] if len(ents) == 1 else ents

    def sink(self, name="sink"):
        return self.add(Collector(name))

    def svc(self, name, times, forward=None, capacity=None):
        return self.add(Svc(name, times, self, forward, capacity))

    def actor(self, name="actor"):
        return self.add(Actor(name, self))

    def callback(self, name, fn):
        return self.add(Callback(name, fn))

    def touch(self, obj_or_name):
        self.touched.add(obj_or_name if isinstance(obj_or_name, str) else type(obj_or_name).__name__)

    def probe(self, name, n=1):
        self.probes[name] += n

    @property
    def t0_s(self) -> float:
        """Start of the simulation in seconds (for absolute-time configuration: shift boundaries, gate schedules ...)."""
        return self.t0_ns / NS

    def abs_s(self, rel_s: float) -> float:
        """Absolute float seconds of a time given relative to the start, chosen so that the repo's own
        quantisation int(x * 1e9) gives exactly t0 + ns(rel_s) (a user writing an absolute time means that instant)."""
        if not self.t0_ns:
            return rel_s
        import math

        target = self.t0_ns + ns(rel_s)
        f = target / NS
        for _ in range(4):
            got = int(f * NS)
            if got == target:
                break
            f = math.nextafter(f, math.inf if got < target else -math.inf)
        return f

    @property
    def now(self) -> Instant:
        return self.sim._clock.now

    @property
    def now_ns(self) -> int:
        return self.sim._clock.now.nanoseconds

    def ev(self, target, etype, ctx=None, delay_ns=0, daemon=False) -> Event:
        """In-run harness event stamped with the clock at emission time."""
        if delay_ns < 0:
            raise HarnessBug("negative delay")
        e = Event(time=Instant(self.now_ns + int(delay_ns)), event_type=etype, target=target,
                  daemon=daemon, context=ctx if ctx is not None else None)
        self.harness_ids.add(e._id)
        return e

    def at(self, t_ns, target, etype, ctx=None, daemon=False):
        """Pre-run harness event at t_ns after the start of the simulation (materialised after Simulation())."""
        t_ns = int(t_ns)
        if t_ns < 0:
            raise InvalidScenario("negative time")
        self._pre.append((t_ns, target, etype, ctx, daemon))

    def run_at(self, t_ns, actor, fn, *args, daemon=False):
        self.at(t_ns, actor, "act", {"fn": fn, "args": args}, daemon=daemon)

    def mark_harness(self, evs):
        """Register events created by harness-side helpers (chaosnet.FaultDriver) as the harness's own."""
        for e in evs if isinstance(evs, list) else [evs]:
            self.harness_ids.add(e._id)
        return evs

    def after_init(self, fn):
        """fn() -> Event | list[Event] | None, called once the clock is injected;
        the returned (repo-made start) events are scheduled before the run."""
        self._post.append(fn)

    def net(self, nodes, seed, profile, per_link=None, name="net"):
        net, links = chaosnet.build_mesh(name, nodes, seed, profile, per_link)
        self.add(net)
        for l in links.values():
            self.add(l)
        return net, links

    # ---- emitter attribution --------------------------------------------
    def _is_repo_entity(self, t) -> bool:
        return isinstance(t, Entity) and not isinstance(t, HEntity) and type(t).__module__.startswith("happysimulator.")

    def _emitter(self, pushed=None):
        cur = getattr(self.sim, "_last_event", None)
        if cur is None:
            # before the first delivery: an event handed out by a component API and scheduled by user code
            pt = getattr(getattr(pushed, "target", None), "_resource", getattr(pushed, "target", None))
            if pt is not None and self._is_repo_entity(pt) and type(pt).__name__ in self._repo_classes:
                return None, type(pt).__name__
            return None, self.subject
        t = cur.target
        t = getattr(t, "_resource", t)
        if self._is_repo_entity(t):
            name = type(t).__name__
            if name == "CallbackEntity":
                # callbacks are created by Event.once(); attribute to the subject
                return cur, f"{self.subject}"
            return cur, name
        # harness entity: look for a suspended repo generator frame
        gen = getattr(cur, "process", None)
        depth = 0
        inner = None
        while gen is not None and depth < 20:
            code = getattr(gen, "gi_code", None)
            if code is not None and repo.REPO in code.co_filename and "/components/" in code.co_filename:
                inner = code
            gen = getattr(gen, "gi_yieldfrom", None)
            depth += 1
        if inner is not None:
            q = inner.co_qualname.split(".")[0]
            if q in self._repo_classes:
                return cur, q
        # an event handed out by a component API for itself (start_warming(), schedule_redelivery(), ...)
        if pushed is not None:
            pt = getattr(pushed.target, "_resource", pushed.target)
            if self._is_repo_entity(pt) and type(pt).__name__ in self._repo_classes:
                return cur, type(pt).__name__
        return cur, self.subject

    def norm_type(self, s) -> str:
        hit = self._norm_cache.get(s)
        if hit is None:
            hit = self._norm_cache[s] = self._norm_type(s)
        return hit

    def _norm_type(self, s) -> str:
        s = str(s)
        s = re.sub(r"::.*$", "", s)
        for n in self._names:          # f"{self.name}_request" style event types
            if s.startswith(n + "_"):
                s = "<ent>" + s[len(n):]
                break
        s = re.sub(r"\d+", "#", s)
        return s[:60]

    def record(self, sig: str, msg: str):
        if sig not in self._seen_sigs:
            self._seen_sigs.add(sig)
            if len(self.violations) < 12:
                self.violations.append((sig, msg))

    # ---- monitors ---------------------------------------------------------
    def _install_push_monitor(self):
        sim = self.sim
        heap = sim._event_heap
        orig = heap.push
        clock = sim._clock
        zoo = self

        def push(events):
            now = clock.now
            if isinstance(events, list):
                lst = events
            else:
                lst = (events,)
                if isinstance(events, ProcessContinuation):
                    zoo.parked += 1          # SimFuture._resume() is the only in-run caller that pushes a bare continuation
            cur = sim._last_event
            tgt = getattr(cur, "target", None)
            tgt = getattr(tgt, "_resource", tgt)
            repo_emit = tgt is not None and not isinstance(tgt, HEntity)
            for e in lst:
                zoo.pushes += 1
                if repo_emit:
                    zoo.repo_pushes += 1
                    if e.time > now:
                        zoo.future_timers += 1
                if e.time < now:
                    zoo._past(e, now)
            if repo_emit and lst:
                zoo.emitters[type(tgt).__name__] += len(lst)
            orig(events)

        heap.push = push

    def _past(self, e, now):
        hid = e._id in self.harness_ids
        if hid:
            self.harness_ids.discard(e._id)
        cur, cls = self._emitter(e)
        if hid:
            raise HarnessBug(f"harness event {e!r} pushed at {now!r} (while processing {cur!r})")
        self.past_pushes += 1
        lag = now.nanoseconds - e.time.nanoseconds
        self.max_lag_ns = max(self.max_lag_ns, lag)
        et = self.norm_type(e.event_type)
        tgt = getattr(e.target, "name", type(e.target).__name__)
        self.record(
            f"{P}/past-event/{cls}/{et}",
            f"{cls} emitted {e.event_type!r} -> {tgt} stamped {e.time.nanoseconds}ns at clock {now.nanoseconds}ns "
            f"({lag}ns in the past) while processing {getattr(cur, 'event_type', None)!r}",
        )

    def _cls_of(self, target) -> str:
        t = getattr(target, "_resource", target)
        return type(t).__name__ if self._is_repo_entity(t) and type(t).__name__ != "CallbackEntity" else self.subject

    def _inner_repo_class(self, ev):
        """Repo component class owning the innermost suspended generator frame of a process event (or None)."""
        gen = getattr(ev, "process", None)
        depth, inner = 0, None
        while gen is not None and depth < 20:
            code = getattr(gen, "gi_code", None)
            if code is not None and repo.REPO in code.co_filename and "/components/" in code.co_filename:
                inner = code
            gen = getattr(gen, "gi_yieldfrom", None)
            depth += 1
        if inner is not None:
            q = inner.co_qualname.split(".")[0]
            if q in self._repo_classes:
                return q
        return None

    def _spin_sig(self, ev):
        """Name the (class, event type) delivered most often at the frozen instant (ties: alphabetical), not
        whichever delivery happened to cross the threshold.  Preference: classes of the driver under test, then
        anything but pure transport (Network / NetworkLink), then everything.  If the spinning delivery is a process
        whose innermost suspended frame belongs to another repo component (a PooledClient process busy-waiting
        inside ConnectionPool.acquire), that component is named."""
        counts = self._same_t_counts
        if not counts:
            return f"{P}/frozen-clock-spin/{self._cls_of(ev.target)}/{self.norm_type(ev.event_type)}"
        pool = {k: v for k, v in counts.items() if k[0] in self.classes}
        if not pool:
            pool = {k: v for k, v in counts.items() if k[0] not in ("Network", "NetworkLink")} or counts
        (cls, et), _ = max(pool.items(), key=lambda kv: (kv[1], kv[0]))
        last = self._same_t_last.get((cls, et))
        inner = self._inner_repo_class(last) if last is not None else None
        if inner is not None:
            cls = inner
        return f"{P}/frozen-clock-spin/{cls}/{et}"

    def _on_delivery(self, ev, mon):
        t = getattr(ev.target, "_resource", None)
        if t is not None:
            self.delivered[type(ev.target).__name__] += 1     # the worker adapter itself
        else:
            t = ev.target
        self.delivered[type(t).__name__] += 1
        tn = ev.time.nanoseconds
        if tn != self._cur_t:
            self._cur_t = tn
            self._same_t_counts.clear()
            self._same_t_last.clear()
        key = (self._cls_of(ev.target), self.norm_type(ev.event_type))
        self._same_t_counts[key] += 1
        self._same_t_last[key] = ev
        if mon.seq % 1000 == 0:
            self._marks.append(tn)

    # ---- run ----------------------------------------------------------------
    def execute(self, build, cfg) -> dict:
        """Build, run, judge.  Returns a dict of raw outcome fields."""
        sc = self.sc
        seed_globals(int(sc.get("seed", 1)))
        log = logging.getLogger("happysimulator.core.simulation")
        old_level, old_prop = log.level, log.propagate
        handler = _TimeTravelHandler()
        self._marks = [0]
        status, payload = "ok", None
        with seeded_uuid(int(sc.get("seed", 1))):
            try:
                build(self, cfg)
            except HarnessBug:
                raise
            except (KeyError, TypeError, ValueError, IndexError, ZeroDivisionError, AttributeError, AssertionError) as e:
                raise InvalidScenario(f"{type(e).__name__}: {e}") from e
            if not self.entities:
                raise InvalidScenario("no entities")
            # Client/PooledClient build event types as f"{self.name}_request"
            self._names = sorted({e.name for e in self.entities if type(e).__name__ in ("Client", "PooledClient")},
                                 key=lambda s: (-len(s), s))
            t0 = self.t0_ns
            end = Instant(t0 + int(self.horizon_ns)) if self.horizon_ns is not None else None
            sim = self.sim = Simulation(entities=self.entities, start_time=Instant(t0) if t0 else None, end_time=end)
            evs = []
            for (t_ns, target, etype, ctx, daemon) in self._pre:
                e = Event(time=Instant(t0 + t_ns), event_type=etype, target=target, daemon=daemon,
                          context=ctx if ctx is not None else None)
                self.harness_ids.add(e._id)
                evs.append(e)
            for fn in self._post:
                try:
                    out = fn()
                except (KeyError, TypeError, ValueError, IndexError, ZeroDivisionError, AttributeError) as e:
                    raise InvalidScenario(f"{type(e).__name__}: {e}") from e
                if out is None:
                    continue
                evs.extend(out if isinstance(out, list) else [out])
            # the push monitor is installed first: start events handed out by components (start(), start_event(),
            # warmup(), prime() ...) are judged when they are scheduled, against the simulation's start time
            self._install_push_monitor()
            for e in evs:
                sim.schedule(e)
            mon = self.mon = Monitor(sim, cap=DELIVERY_CAP, spin_cap=SPIN_CAP, invariant=self._on_delivery,
                                     spin_sig=self._spin_sig)
            log.setLevel(logging.WARNING)
            log.propagate = False
            log.addHandler(handler)
            try:
                try:
                    sim.run()
                except Violation as v:
                    status, payload = "violation", v
                except BudgetExceeded as b:
                    status, payload = "budget", b
                except HarnessBug:
                    raise
                except Exception as exc:  # noqa: BLE001
                    sig = repo_exception_sig(exc)
                    if sig is None:
                        raise
                    status, payload = "repo-exception", sig
            finally:
                log.removeHandler(handler)
                log.setLevel(old_level)
                log.propagate = old_prop
        if self.at_end is not None:
            self.at_end()
        # ---- verdicts beyond the push monitor
        if status == "violation":
            self.record(payload.sig, payload.msg)
        if status == "budget":
            marks = self._marks
            w = CREEP_WINDOW // 1000
            if len(marks) > w:
                span = marks[-1] - marks[-1 - w]
                if span < CREEP_NS_PER_DELIVERY * CREEP_WINDOW:
                    last = getattr(sim, "_last_event", None)
                    cls = (f"{self._cls_of(last.target)}/{self.norm_type(last.event_type)}" if last is not None
                           else f"{self.subject}/?")
                    self.record(f"{P}/clock-creep-spin/{cls}",
                                f"delivery cap {DELIVERY_CAP} reached; the clock advanced only {span}ns over the last "
                                f"{CREEP_WINDOW} deliveries")
        # (b) discards not explained by observed past pushes
        if len(handler.hits) > self.past_pushes:
            et = self.norm_type(handler.hits[-1])
            self.record(f"{P}/engine-discarded-event/{self.subject}/{et}",
                        f"engine discarded {len(handler.hits)} event(s) as time travel but only {self.past_pushes} "
                        f"past push(es) were observed at the heap")
        return {
            "status": status,
            "payload": payload,
            "discards": len(handler.hits),
            "deliveries": mon.seq,
            "digest": mon.digest,
            "last_ns": max(0, mon.last_time_ns - self.t0_ns),
            "max_same_t": mon.max_same_t,
        }


# --------------------------------------------------------------------------
# known-finding aware signature choice
# --------------------------------------------------------------------------

_KNOWN = None


def pick_signature(violations):
    """First signature that is not a recorded finding, else the first."""
    global _KNOWN
    if not violations:
        return None, ""
    if _KNOWN is None:
        try:
            from simkit.runner import load_known

            _KNOWN = [k for k in load_known() if k.get("property") == P]
        except Exception:  # noqa: BLE001
            _KNOWN = []
    import fnmatch

    for sig, msg in violations:
        if not any(fnmatch.fnmatchcase(sig, k["signature"]) for k in _KNOWN):
            return sig, msg
    return violations[0]


# --------------------------------------------------------------------------
# arrival patterns
# --------------------------------------------------------------------------

def arrivals(rng, n, span_s=1.0, marks=(), start0=None):
    """n arrival instants (ints, ns, non-decreasing) mixing: same-instant bursts,
    idle gaps, steady trickle with full nanosecond resolution, 1-2 ns steps,
    and arrivals placed exactly `mark` seconds (a timer of the component under
    test, quantised as the repo does) after the previous one.
    Returns (times, tags)."""
    span = max(int(span_s * NS), 1000)
    t = rng.choice([0, 0, rng.randrange(1, span // 4 + 2)]) if start0 is None else start0
    out, tags = [], set()
    marks = [m for m in marks if m is not None and m >= 0]
    if not out:
        out.append(t)
    while len(out) < n:
        mode = rng.choice(["burst", "burst", "gap", "steady", "steady", "tight", "mark", "mark", "mark", "decimal"])
        if mode == "burst":
            k = rng.randint(2, 6)
            out.extend([t] * k)
            tags.add("burst")
        elif mode == "gap":
            t += int(rng.uniform(0.3, 1.5) * span)
            out.append(t)
            tags.add("idle_gap")
        elif mode == "steady":
            for _ in range(rng.randint(1, 5)):
                t += rng.randrange(1, max(2, 2 * span // max(n, 1)))
                out.append(t)
            tags.add("steady")
        elif mode == "tight":
            t += rng.choice([1, 1, 2, 10, 999])
            out.append(t)
            tags.add("ns_step")
        elif mode == "decimal":
            # steps such as 0.1*3 s or 0.57 s whose float value does not survive the seconds <-> ns round trip
            t += ns(rng.choice([0.1 * rng.randint(1, 9), 0.57, 0.07, 1.1, 0.29]) * rng.choice([1.0, 0.1]))
            out.append(t)
            tags.add("decimal_step")
        elif marks:
            t += ns(rng.choice(marks))
            out.append(t)
            tags.add("at_timer_expiry")
    out = out[:n]
    return out, sorted(tags)


# decimal values (4 places, below 5 s) whose nanosecond quantisation int(v * 1e9) lands 1 ns low: 0.0157, 0.0314,
# 0.1251, 1.001, 2.01, 4.1 ...  A timer configured with such a value disagrees by < 1 ns with float-second arithmetic.
LOSSY = [k / 10000 for k in range(1, 50001) if int((k / 10000) * 1e9) != k * 10**5]


def lossy(rng, lo, hi):
    """A 'lossy' decimal in [lo, hi] (None if there is none)."""
    import bisect

    a, b = bisect.bisect_left(LOSSY, lo), bisect.bisect_right(LOSSY, hi)
    return LOSSY[rng.randrange(a, b)] if b > a else None


def rel(rng, ref, factors=(0.25, 0.5, 0.9, 1.0, 1.1, 2.0, 4.0)):
    """A timing value shorter than / equal to / longer than another timing it interacts with."""
    return max(0.0001, round(ref * rng.choice(factors), 6))


def lat(rng, zero_p=0.15, lo=0.0005, hi=0.2):
    """A latency: exactly 0 sometimes, otherwise a 'decimal' value (k/1000 or
    k/100 s: values whose nanosecond quantisation is not always exact in binary
    floating point), never sub-microsecond."""
    if rng.random() < zero_p:
        return 0.0
    r = rng.random()
    if r > 0.88:
        v = lossy(rng, max(lo, 0.001), hi)
        if v is not None:
            return v
    if hi >= 0.1 and r < 0.12:
        return 0.1 * rng.randint(1, max(1, int(hi * 10)))          # 0.1*k: 0.30000000000000004 and friends
    if r < 0.5:
        return rng.randint(max(1, int(lo * 1000)), max(1, int(hi * 1000))) / 1000.0
    if r < 0.8:
        return rng.randint(1, max(1, int(hi * 100))) / 100.0
    return round(rng.uniform(lo, hi), 6)


def check_cfg_floats(x, path="cfg"):
    """Every float of a scenario lies on a 1 microsecond / 1e-6 grid (generated values do; this keeps the
    shrinker from manufacturing sub-nanosecond latencies such as 4.7e-100 that would change the mechanism)."""
    if isinstance(x, bool):
        return
    if isinstance(x, float):
        if x != x or abs(x) > 1e9 or abs(x * 1e6 - round(x * 1e6)) > 1e-3:
            raise InvalidScenario(f"{path}: {x!r} is not on the 1e-6 grid")
    elif isinstance(x, dict):
        for k, v in x.items():
            check_cfg_floats(v, f"{path}.{k}")
    elif isinstance(x, list):
        for i, v in enumerate(x):
            check_cfg_floats(v, f"{path}[{i}]")


LENIENT = [False]   # set while a boundary-value run is built: positivity is then left to the repo constructors


def check_num(x, lo=0.0, hi=1e6):
    if LENIENT[0] and 0.0 < lo <= 1e-3:
        lo = 0.0
    if isinstance(x, bool) or not isinstance(x, (int, float)) or not (lo <= x <= hi):
        raise InvalidScenario(f"number out of range: {x!r}")
    return x


BV_SKIP_KEYS = ("arr", "tags", "net", "seed", "t0", "places", "at", "starters", "start_at", "nkeys", "n", "nb", "fan",
                "shards", "parts", "nsteps", "horizon",
                # window geometry: a zero / tiny window size makes SlidingWindow.assign_windows loop without events (CPU, not C07)
                "size", "slide")


def bv_candidates(cfg, path=()):
    """Numeric leaves of a driver configuration that a boundary value can replace (timings, sizes, counts)."""
    out = []
    if isinstance(cfg, dict):
        for k in sorted(cfg):
            if k in BV_SKIP_KEYS:
                continue
            out.extend(bv_candidates(cfg[k], path + (k,)))
    elif isinstance(cfg, list):
        for i, v in enumerate(cfg):
            out.extend(bv_candidates(v, path + (i,)))
    elif isinstance(cfg, (int, float)) and not isinstance(cfg, bool):
        out.append((list(path), cfg))
    return out


def bv_apply(cfg, muts):
    import copy

    c = copy.deepcopy(cfg)
    for path, value in muts:
        node = c
        try:
            for p in path[:-1]:
                node = node[p]
            if path[-1] not in (node if isinstance(node, dict) else range(len(node))):
                raise KeyError(path[-1])
            node[path[-1]] = value
        except (KeyError, IndexError, TypeError) as e:
            raise InvalidScenario(f"boundary path {path}: {e}") from e
    return c


def check_arr(arr, max_n=400):
    if not isinstance(arr, list) or len(arr) > max_n:
        raise InvalidScenario("arrivals")
    for t in arr:
        tt = t[0] if isinstance(t, list) else t
        if isinstance(tt, bool) or not isinstance(tt, int) or tt < 0 or tt > 10**13:
            raise InvalidScenario("arrival time")
    return arr
