"""C08 — harness: builds a queueing pipeline from a JSON scenario out of the
repository's real components, and the per-stage ledgers (oracles) that are
driven from the engine's own `on_event` / `on_time_advance` seams.

Every instant in a scenario is an integer number of nanoseconds; durations
given to components are multiples of 1/64 s (exactly representable, so the
repo's float->ns truncation never bites; float fragility is C07's subject).
"""
from __future__ import annotations

from collections import deque

from simkit import repo

repo.activate()

from happysimulator.components.common import Sink  # noqa: E402
from happysimulator.components.industrial.balking import BalkingQueue  # noqa: E402
from happysimulator.components.industrial.batch_processor import BatchProcessor  # noqa: E402
from happysimulator.components.industrial.conditional_router import ConditionalRouter  # noqa: E402
from happysimulator.components.industrial.conveyor import ConveyorBelt  # noqa: E402
from happysimulator.components.industrial.gate_controller import GateController  # noqa: E402
from happysimulator.components.industrial.pooled_cycle import PooledCycleResource  # noqa: E402
from happysimulator.components.industrial.reneging import RenegingQueuedResource  # noqa: E402
from happysimulator.components.industrial.shift_schedule import Shift, ShiftedServer, ShiftSchedule  # noqa: E402
from happysimulator.components.queue import Queue, QueueDeliverEvent, QueueNotifyEvent, QueuePollEvent  # noqa: E402
from happysimulator.components.queue_driver import QueueDriver  # noqa: E402
from happysimulator.components.queue_policies import (  # noqa: E402
    AdaptiveLIFO, CoDelQueue, DeadlineQueue, FairQueue, REDQueue, WeightedFairQueue,
)
from happysimulator.components.queue_policy import FIFOQueue, LIFOQueue, PriorityQueue  # noqa: E402
from happysimulator.components.server.concurrency import (  # noqa: E402
    DynamicConcurrency, FixedConcurrency, WeightedConcurrency,
)
from happysimulator.components.server.server import Server  # noqa: E402
from happysimulator.core.entity import Entity  # noqa: E402
from happysimulator.core.event import Event, ProcessContinuation  # noqa: E402
from happysimulator.core.temporal import Duration, Instant  # noqa: E402
from happysimulator.distributions.constant import ConstantLatency  # noqa: E402
from happysimulator.distributions.latency_distribution import LatencyDistribution  # noqa: E402

from simkit.c08_refpolicy import RefBalk, RefCoDel, RefDeadline, build_ref  # noqa: E402
from simkit.world import InvalidScenario, Violation  # noqa: E402

TICK_NS = 15_625_000          # 1/64 s
WORK = "req"


def secs(ticks: int) -> float:
    return ticks / 64.0


def tsecs(cfg: dict, v: int) -> float:
    """a scheduled time of a stage as the float the user would write: ticks/64, or — for stages marked "ms" —
    milliseconds/1000 (decimals such as 4.1 whose float->ns conversion truncates below the value)"""
    return v / 1000.0 if cfg.get("ms") else v / 64.0


def tns(cfg: dict, v: int) -> int:
    """...and the instant the repo derives from it (documented quantisation: int(seconds * 1e9))"""
    return int(tsecs(cfg, v) * 1_000_000_000)


def V(inv: str, cls: str, detail: str, msg: str = "") -> Violation:
    return Violation(f"C08/{inv}/{cls}/{detail}", msg)


# ---------------------------------------------------------------------------
# harness entities (stubs): dumb on purpose, all judging happens in the ledgers
# ---------------------------------------------------------------------------

class TagSink(Sink):
    """terminal collector (the repo's Sink; nothing added but a name)"""


class SeqLatency(LatencyDistribution):
    """scripted service times: k-th request takes ticks[k % len] ticks"""

    def __init__(self, ticks: list[int]):
        super().__init__(secs(ticks[0]))
        self._ticks = list(ticks)
        self._k = 0

    def get_latency(self, current_time):
        t = self._ticks[self._k % len(self._ticks)]
        self._k += 1
        return Duration(t * TICK_NS)


class TrustingWorker(Entity):
    """The canonical custom worker of the repo's examples (database_query_timeout,
    call_center, ...): `has_capacity()` is `active < limit`, the handler takes a
    slot unconditionally — it trusts the driver to deliver only when there is
    capacity."""

    def __init__(self, name, limit, svc_of, downstream):
        super().__init__(name)
        self.limit = limit
        self._svc_of = svc_of
        self.downstream = downstream
        self.active = 0
        self.done = 0

    def has_capacity(self) -> bool:
        return self.active < self.limit

    def handle_event(self, event):
        self.active += 1
        try:
            yield secs(self._svc_of(event))
        finally:
            self.active -= 1
        self.done += 1
        return [self.forward(event, self.downstream)]


class InstantWorker(Entity):
    """A worker whose work takes no simulated time (a stamper, a counter): the handler is not a generator and,
    without a downstream, leaves no event behind at all."""

    def __init__(self, name, downstream):
        super().__init__(name)
        self.downstream = downstream
        self.active = 0
        self.done = 0

    def has_capacity(self) -> bool:
        return True

    def handle_event(self, event):
        self.done += 1
        if self.downstream is None:
            return None
        return [self.forward(event, self.downstream)]


class RenegingPool(RenegingQueuedResource):
    """RenegingQueuedResource subclass after examples/industrial/call_center.py"""

    def __init__(self, name, limit, svc_of, downstream, reneged_target, default_patience_s, policy):
        super().__init__(name, reneged_target=reneged_target, default_patience_s=default_patience_s, policy=policy)
        self.limit = limit
        self._svc_of = svc_of
        self.downstream = downstream
        self.active = 0
        self.done = 0

    def has_capacity(self) -> bool:
        return self.active < self.limit

    def _handle_served_event(self, event):
        self.active += 1
        try:
            yield secs(self._svc_of(event))
        finally:
            self.active -= 1
        self.done += 1
        return [self.forward(event, self.downstream)]


class Ctl(Entity):
    """applies scripted DynamicConcurrency.set_limit calls (the autoscaler of a model) and scripted
    DeadlineQueue.purge_expired() housekeeping"""

    def __init__(self, name, stages):
        super().__init__(name)
        self._stages = stages
        self.last_purge = None

    def handle_event(self, event):
        st = self._stages[event.context["stage"]]
        if event.event_type == "purge":
            pol = getattr(st, "policy", None)
            self.last_purge = pol.purge_expired() if hasattr(pol, "purge_expired") else None
            return []
        if isinstance(getattr(st, "model", None), DynamicConcurrency):
            st.model.set_limit(event.context["limit"])
        return []


# ---------------------------------------------------------------------------
# repo-side policy construction
# ---------------------------------------------------------------------------

def build_policy(cfg: dict, clock, weights: dict):
    t = cfg["type"]
    cap = cfg.get("cap")
    fcap = float("inf") if cap is None else cap
    if t == "fifo":
        return FIFOQueue(capacity=fcap)
    if t == "lifo":
        return LIFOQueue(capacity=fcap)
    if t == "prio":
        return PriorityQueue(capacity=fcap, key=lambda e: e.context["prio"])
    if t == "deadline":
        return DeadlineQueue(get_deadline=lambda e: Instant(e.context["deadline_ns"]), capacity=cap, clock_func=clock)
    if t == "fair":
        return FairQueue(get_flow_id=lambda e: e.context["flow"], max_flows=cfg.get("max_flows"),
                         per_flow_capacity=cfg.get("per_flow"))
    if t == "wfq":
        return WeightedFairQueue(get_flow_id=lambda e: e.context["flow"], get_weight=lambda f: weights.get(f, 1),
                                 capacity=cap, per_flow_capacity=cfg.get("per_flow"))
    if t == "alifo":
        return AdaptiveLIFO(congestion_threshold=cfg["threshold"], capacity=cap)
    if t == "codel":
        return CoDelQueue(target_delay=secs(cfg["target_ticks"]), interval=secs(cfg["interval_ticks"]),
                          capacity=cap, clock_func=clock)
    if t == "red":
        return REDQueue(min_threshold=cfg["min_th"], max_threshold=cfg["max_th"], max_probability=cfg["max_p"],
                        capacity=cap, weight=cfg.get("weight", 0.002))
    if t == "balk":
        if cfg["inner"]["type"] not in ("fifo", "lifo", "prio"):
            raise InvalidScenario("balking inner policy must be deterministic")
        return BalkingQueue(build_policy(cfg["inner"], clock, weights), balk_threshold=cfg["threshold"],
                            balk_probability=cfg["prob"])
    raise InvalidScenario(f"unknown policy {t}")


def policy_class(policy) -> str:
    return type(policy).__name__


def policy_counter_problem(policy, ref) -> str | None:
    """`enqueued = dequeued + dropped + held` on the policy's own counters, and
    the counters against the reference model's tallies."""
    if isinstance(policy, BalkingQueue):
        if not (ref.balk_min <= policy.balked <= ref.balk_max):
            return f"balked={policy.balked} outside [{ref.balk_min},{ref.balk_max}]"
        return policy_counter_problem(policy.inner, ref.inner)
    st = getattr(policy, "stats", None)
    if st is None:
        return None
    held = len(policy)
    if isinstance(policy, DeadlineQueue):
        if st.enqueued != st.dequeued + st.expired + held:
            return f"enqueued={st.enqueued} != dequeued={st.dequeued} + expired={st.expired} + held={held}"
        got, want = (st.enqueued, st.dequeued, st.expired, st.capacity_rejected), \
                    (ref.n_pushed, ref.n_popped, ref.n_dropped, ref.n_rejected)
    elif isinstance(policy, FairQueue):
        if st.enqueued != st.dequeued + held:
            return f"enqueued={st.enqueued} != dequeued={st.dequeued} + held={held}"
        got, want = (st.enqueued, st.dequeued, st.rejected_flow_capacity + st.rejected_max_flows), \
                    (ref.n_pushed, ref.n_popped, ref.n_rejected)
    elif isinstance(policy, WeightedFairQueue):
        if st.enqueued != st.dequeued + held:
            return f"enqueued={st.enqueued} != dequeued={st.dequeued} + held={held}"
        got, want = (st.enqueued, st.dequeued, st.rejected_capacity), (ref.n_pushed, ref.n_popped, ref.n_rejected)
    elif isinstance(policy, AdaptiveLIFO):
        deq = st.dequeued_fifo + st.dequeued_lifo
        if st.enqueued != deq + held:
            return f"enqueued={st.enqueued} != dequeued={deq} + held={held}"
        got, want = (st.enqueued, deq, st.capacity_rejected), (ref.n_pushed, ref.n_popped, ref.n_rejected)
    elif isinstance(policy, CoDelQueue):
        if st.enqueued != st.dequeued + st.dropped + held:
            return f"enqueued={st.enqueued} != dequeued={st.dequeued} + dropped={st.dropped} + held={held}"
        got, want = (st.enqueued, st.dequeued, st.dropped, st.capacity_rejected), \
                    (ref.n_pushed, ref.n_popped, ref.n_dropped, ref.n_rejected)
    elif isinstance(policy, REDQueue):
        if st.enqueued != st.dequeued + held:
            return f"enqueued={st.enqueued} != dequeued={st.dequeued} + held={held}"
        got, want = (st.enqueued, st.dequeued, st.dropped_probabilistic + st.dropped_forced + st.capacity_rejected), \
                    (ref.n_pushed, ref.n_popped, ref.n_rejected)
    else:
        return None
    if got != want:
        return f"policy counters {got} != reference tallies {want}"
    return None


def policy_query_problem(policy, ref, now_ns) -> str | None:
    """the read-only public methods of a policy against the reference model"""
    if isinstance(policy, BalkingQueue):
        return policy_query_problem(policy.inner, ref.inner, now_ns)
    if len(policy) != len(ref) or policy.is_empty() != (len(ref) == 0):
        return f"len()={len(policy)} is_empty()={policy.is_empty()} with {len(ref)} held"
    if isinstance(policy, DeadlineQueue):
        ce = ref.count_expired(now_ns)
        if (policy.count_expired(), policy.count_valid()) != (ce, len(ref) - ce):
            return f"count_expired/count_valid {(policy.count_expired(), policy.count_valid())} != {(ce, len(ref) - ce)}"
    elif isinstance(policy, (FairQueue, WeightedFairQueue)):
        if policy.flow_count != len(ref.rot):
            return f"flow_count {policy.flow_count} != {len(ref.rot)}"
        for f in ("f0", "f1", "f2", "f3"):
            if policy.get_flow_depth(f) != ref.flow_depth(f):
                return f"get_flow_depth({f}) {policy.get_flow_depth(f)} != {ref.flow_depth(f)}"
    elif isinstance(policy, AdaptiveLIFO):
        want = len(ref) >= ref.threshold
        if policy.is_congested != want or policy.mode != ("LIFO" if want else "FIFO"):
            return f"is_congested={policy.is_congested} mode={policy.mode} with {len(ref)} held, threshold {ref.threshold}"
    elif isinstance(policy, REDQueue):
        if policy.avg_queue_length != ref.avg:
            return f"avg_queue_length {policy.avg_queue_length} != {ref.avg}"
    return None


# ---------------------------------------------------------------------------
# run context: transit bookkeeping between stages
# ---------------------------------------------------------------------------

class Ctx:
    def __init__(self, arrivals: list[dict]):
        self.arrivals = arrivals
        self.now_ns = 0
        self.transit: dict[int, tuple] = {}      # rid -> (consumer key, producer class)
        self.fifo_edges: dict = {}               # consumer key -> deque of rids (order-preserving producers)
        self.probe: dict[str, int] = {}
        self.sink_seen: dict[int, int] = {}

    def hit(self, name: str, n: int = 1):
        self.probe[name] = self.probe.get(name, 0) + n

    def emit(self, rid: int, consumer, producer_cls: str, fifo: bool = False):
        if rid in self.transit:
            raise V("conserve", producer_cls, "emitted-twice", f"rid {rid} emitted while already in transit")
        self.transit[rid] = (consumer, producer_cls)
        if fifo:
            self.fifo_edges.setdefault(consumer, deque()).append(rid)

    def arrive(self, rid: int, consumer, consumer_cls: str):
        ent = self.transit.get(rid)
        if ent is None or ent[0] != consumer:
            raise V("conserve", consumer_cls, "unexpected-arrival",
                    f"rid {rid} arrived at {consumer} but was {'not in transit' if ent is None else 'bound for ' + str(ent[0])}"
                    " (duplicate or phantom delivery)")
        del self.transit[rid]
        q = self.fifo_edges.get(consumer)
        if q:
            if rid in q:
                if q[0] != rid:
                    raise V("order", ent[1], "forwarded-out-of-order",
                            f"rid {rid} reached {consumer} before rid {q[0]} which {ent[1]} emitted earlier")
                q.popleft()

    def check_instant_end(self, t_ns: int):
        for rid, (consumer, pcls) in self.transit.items():
            if consumer != 0 or self.arrivals[rid]["t"] <= t_ns:
                raise V("conserve", pcls, "emitted-never-arrived",
                        f"rid {rid} left {pcls} for {consumer} at t={t_ns}ns and never arrived")


# ---------------------------------------------------------------------------
# stages
# ---------------------------------------------------------------------------

class Stage:
    kind = "?"
    cls = "?"

    def __init__(self, ctx: Ctx, idx: int, cfg: dict):
        self.ctx, self.idx, self.cfg = ctx, idx, cfg
        self.state: dict[int, str] = {}
        self.next_key = None
        self.starts: list[int] = []
        self.max_active = 0
        self.inst: set[str] = set()      # what happened at this stage during the current instant
        self.n_waited = 0                # instants that ended with a backlog

    # wiring
    def entities(self) -> list:
        raise NotImplementedError

    def roles(self) -> dict:
        """id(entity) -> role"""
        raise NotImplementedError

    def front(self):
        raise NotImplementedError

    def move(self, rid, frm, to, what):
        cur = self.state.get(rid)
        if cur != frm:
            if cur in ("done", "rejected", "reneged", "expired", "dropped", "rejected-after-dequeue"):
                raise V("conserve", self.cls, f"{what}-of-finished-item",
                        f"rid {rid}: {what} although it is already {cur} (duplicate)")
            raise V("conserve", self.cls, f"{what}-of-{cur or 'unknown'}-item",
                    f"rid {rid}: {what} while ledger state is {cur}, expected {frm}")
        self.state[rid] = to

    def rid_of(self, ev):
        rid = ev.context.get("rid")
        if rid is None:
            raise RuntimeError(f"work event without rid: {ev!r}")
        return rid

    def on_delivery(self, ev, role):
        raise NotImplementedError

    def on_time_advance(self, prev_ns):
        pass

    def at_end(self, t_ns, lenient=False):
        self.on_time_advance(t_ns)

    def abstract(self) -> str:
        return ""

    def counts(self) -> dict:
        out: dict[str, int] = {}
        for s in self.state.values():
            out[s] = out.get(s, 0) + 1
        return out


# ---- queue + driver + worker family -----------------------------------------

class QRStage(Stage):
    """Queue/QueueDriver/worker pipelines: Server, ShiftedServer,
    RenegingQueuedResource, explicit Queue+QueueDriver+custom worker."""

    def __init__(self, ctx, idx, cfg, downstream, extra_sink, clock, weights):
        super().__init__(ctx, idx, cfg)
        self.kind = cfg["kind"]
        self.weights = weights
        self.ref = build_ref(cfg["policy"], weights)
        policy = build_policy(cfg["policy"], clock, weights)
        self.policy = policy
        self.pcls = policy_class(policy)
        self.weighted = False
        self.instant = False
        self.sinkless = False
        self.model = None
        self.shifts = None
        self.shift_events = 0
        name = f"S{idx}"
        svc = cfg.get("svc", {"mode": "const", "ticks": 1})
        arrivals = ctx.arrivals

        def svc_of(event):
            if svc["mode"] == "item":
                return arrivals[event.context["rid"]]["svc"]
            return svc["ticks"]

        if self.kind == "server":
            c = cfg["conc"]
            if c["model"] == "fixed":
                self.model = FixedConcurrency(c["n"])
                self.limit = c["n"]
            elif c["model"] == "dynamic":
                self.model = DynamicConcurrency(c["n"], min_limit=c["min"], max_limit=c["max"])
                self.limit = c["n"]
            elif c["model"] == "weighted":
                self.model = WeightedConcurrency(c["n"])
                self.limit = c["n"]
                self.weighted = True
            else:
                raise InvalidScenario("concurrency model")
            if svc["mode"] == "seq":
                dist = SeqLatency(svc["seq"])
            else:
                dist = ConstantLatency(secs(svc["ticks"]))
            if cfg.get("via_queue_capacity") and cfg["policy"]["type"] == "fifo":
                # Server's own convenience path: no policy object, FIFO with queue_capacity
                self.F = Server(name, concurrency=self.model, service_time=dist, queue_capacity=cfg["policy"].get("cap"),
                                downstream=downstream)
                policy = self.policy = self.F.queue.policy
            else:
                self.F = Server(name, concurrency=self.model, service_time=dist, queue_policy=policy, downstream=downstream)
            self.cls = "Server"
        elif self.kind == "shifted":
            self.shifts = [tuple(s) for s in cfg["shifts"]]
            self.default_cap = cfg.get("default", 0)
            sched = ShiftSchedule([Shift(tsecs(cfg, a), tsecs(cfg, b), c) for a, b, c in self.shifts],
                                  default_capacity=self.default_cap)
            self.shift_ns = [(tns(cfg, a), tns(cfg, b), c) for a, b, c in self.shifts]
            if any(lo != round(tsecs(cfg, a) * 1e9) for (lo, _, _), (a, _, _) in zip(self.shift_ns, self.shifts)):
                ctx.hit("probe.shift_boundary_truncates_below_float")
            self.F = ShiftedServer(name, sched, service_time=secs(svc["ticks"]), downstream=downstream, policy=policy)
            self.cls = "ShiftedServer"
            self.limit = None
        elif self.kind == "reneging":
            pat = cfg.get("patience_ticks")
            self.default_patience_ns = None if pat is None else pat * TICK_NS
            if cfg.get("no_reneged_sink"):
                extra_sink = None                    # reneged customers simply leave (reneged_target=None)
            self.F = RenegingPool(name, cfg["limit"], svc_of, downstream, extra_sink,
                                  float("inf") if pat is None else secs(pat), policy)
            self.cls = "RenegingQueuedResource"
            self.limit = cfg["limit"]
        elif self.kind == "driver":
            self.instant = svc["mode"] == "instant"
            if self.instant:
                self.sinkless = bool(cfg.get("sinkless"))
                self.W = InstantWorker(f"{name}.worker", None if self.sinkless else downstream)
                ctx.hit("probe.instant_worker")
            else:
                self.W = TrustingWorker(f"{name}.worker", cfg["limit"], svc_of, downstream)
            self.Q = Queue(name=f"{name}.queue", egress=None, policy=policy)
            self.D = QueueDriver(name=f"{name}.driver", queue=self.Q, target=self.W)
            self.Q.egress = self.D
            self.F = None
            self.cls = "QueueDriver"
            self.limit = cfg["limit"]
        else:
            raise InvalidScenario(f"stage kind {self.kind}")
        if self.F is not None:
            self.Q, self.D, self.W = self.F.queue, self.F.driver, self.F.worker
        if self.Q.policy is not policy:
            pc = cfg["policy"]
            if not (pc["type"] == "fifo" and pc.get("cap") is None and type(self.Q.policy) is FIFOQueue):
                raise V("order", self.cls, "configured-policy-replaced-by-default",
                        f"{self.cls}(policy={self.pcls}(...)) queues with {type(self.Q.policy).__name__} "
                        f"(capacity {self.Q.policy.capacity}); the policy object passed in is not used")
            self.policy = self.Q.policy      # an unbounded FIFO swapped for an unbounded FIFO: no observable difference
            ctx.hit("probe.equivalent_default_policy_substituted")
        if self.kind in ("shifted", "reneging") and self.Q.policy is policy and \
                not (cfg["policy"]["type"] == "fifo" and cfg["policy"].get("cap") is None):
            ctx.hit("probe.configured_policy_on_shifted_or_reneging")
        if self.policy.capacity == 0:
            ctx.hit("probe.zero_capacity_queue")
        self.extra_sink = extra_sink
        self.last_acc = self.last_drop = 0
        self.last_rej = self.last_ren = self.last_done = 0
        self.active_w = 0
        self.waiting = 0
        self.inflight: set[int] = set()
        self.expect_deliver: deque = deque()
        self.n_overpoll_reject = 0
        self.grace = False          # limit raised from outside the loop: stranding judged after the next trigger
        self.end_lenient = False
        self._reset_instant()

    def _reset_instant(self):
        self.f_start = self.f_completion = self.f_raise = self.f_enqueue = self.f_enqueue_empty = False
        self.n_notify = self.n_poll = self.n_start_inst = 0
        self.f_raise_backlog = False

    def entities(self):
        return [self.F] if self.F is not None else [self.Q, self.D, self.W]

    def front(self):
        return self.F if self.F is not None else self.Q

    def roles(self):
        r = {id(self.Q): "queue", id(self.D): "driver", id(self.W): "worker"}
        if self.F is not None:
            r[id(self.F)] = "front"
        return r

    # component views
    def comp_active(self):
        if self.kind == "server":
            return self.F.active_requests
        if self.kind == "shifted":
            return self.F._active
        if self.kind == "reneging":
            return self.F.active
        return self.W.active

    def comp_done(self):
        if self.kind == "server":
            return self.F._requests_completed
        if self.kind == "shifted":
            return self.F.processed
        if self.kind == "reneging":
            return self.F.done
        return self.W.done

    def weight(self, rid):
        return self.ctx.arrivals[rid]["w"] if self.weighted else 1

    def sched_cap(self, t_ns, before=False):
        """capacity the schedule prescribes at t (or just before t)"""
        for lo, hi, c in self.shift_ns:
            if (lo < t_ns <= hi) if before else (lo <= t_ns < hi):
                return c
        return self.default_cap

    def limit_for_start(self, t_ns):
        if self.kind != "shifted":
            return self.limit
        # at a boundary instant either side of the transition is acceptable
        return max(self.sched_cap(t_ns), self.sched_cap(t_ns, before=True))

    def limit_after(self, t_ns):
        if self.kind != "shifted":
            return self.limit
        if self.end_lenient:
            # an auto-terminating run ended with (daemon) shift changes still pending: the schedule could not be applied
            return min(self.sched_cap(t_ns), self.F.current_capacity)
        return self.sched_cap(t_ns)

    # ---- deliveries
    def on_delivery(self, ev, role):
        if role == "front":
            if self.kind == "shifted" and ev.event_type == "_ShiftChange":
                self._shift_change()
            else:
                self._offer(ev)
        elif role == "queue":
            if isinstance(ev, QueuePollEvent):
                self._poll(ev)
            else:
                self._offer(ev)
        elif role == "driver":
            if isinstance(ev, QueueDeliverEvent):
                self._deliver(ev)
            elif isinstance(ev, QueueNotifyEvent):
                self.n_notify += 1
                self._end_grace()
        elif role == "worker":
            if isinstance(ev, ProcessContinuation):
                self._continuation(ev)
            else:
                self._start(ev)

    def _end_grace(self):
        if self.grace:
            self.grace = False
            self.ctx.hit("probe.outside_grace_ended_by_trigger")

    def _depth_checks(self, where):
        if len(self.policy) != len(self.ref):
            raise V("conserve", self.pcls, f"depth-mismatch-after-{where}",
                    f"policy holds {len(self.policy)} items, reference model {len(self.ref)}")
        if len(self.policy) > self.policy.capacity:
            raise V("hold", self.pcls, "len-exceeds-capacity", f"{len(self.policy)} > {self.policy.capacity}")
        if self.Q.depth != self.waiting:
            raise V("conserve", self.cls, f"queue-depth-ne-ledger-after-{where}",
                    f"queue depth {self.Q.depth}, ledger has {self.waiting} waiting")
        p = policy_counter_problem(self.policy, self.ref)
        if p:
            raise V("counters", self.pcls, f"enqueued-ne-dequeued+dropped+held-after-{where}", p)

    def _offer(self, ev):
        rid = self.rid_of(ev)
        ctx = self.ctx
        self.inst.add("offer")
        if self.kind == "shifted" and not self.state and self.sched_cap(ctx.now_ns) != self.sched_cap(0):
            ctx.hit("probe.shift_first_arrival_in_later_shift")
        ctx.arrive(rid, self.idx, self.cls)
        if rid in self.state:
            raise V("conserve", self.cls, "offered-twice", f"rid {rid} offered again (state {self.state[rid]})")
        acc, drop = self.Q.stats_accepted, self.Q.stats_dropped
        da, dd = acc - self.last_acc, drop - self.last_drop
        self.last_acc, self.last_drop = acc, drop
        if (da, dd) not in ((1, 0), (0, 1)):
            raise V("conserve", self.cls, "offer-not-counted-exactly-once",
                    f"rid {rid}: accepted+{da} dropped+{dd} after one offer")
        it = ctx.arrivals[rid]
        legal = self.ref.legal_push(it, ctx.now_ns)
        accepted = da == 1
        if accepted not in legal:
            raise V("admit", self.pcls, "accepted-beyond-capacity" if accepted else "rejected-with-room",
                    f"rid {rid}: policy {'accepted' if accepted else 'rejected'} with {len(self.ref)} held, "
                    f"capacity {self.ref.cap}")
        self.ref.commit_push(it, ctx.now_ns, accepted)
        if accepted:
            self.state[rid] = "waiting"
            if self.waiting == 0:
                self.f_enqueue_empty = True
            self.waiting += 1
            self.f_enqueue = True
        else:
            self.state[rid] = "rejected"
            ctx.hit("probe.queue_full_reject")
        self._depth_checks("enqueue")

    def _poll(self, ev):
        self.n_poll += 1
        ctx = self.ctx
        if len(self.policy) > len(self.ref):
            raise V("conserve", self.pcls, "depth-mismatch-after-pop",
                    f"policy holds {len(self.policy)} items, reference model {len(self.ref)} before its pop")
        it, dropped = self.ref.pop(ctx.now_ns)
        for d in dropped:
            self.move(d["rid"], "waiting", "expired", "expiry")
            self.waiting -= 1
            ctx.hit("probe.deadline_expired_drop")
        if it is not None:
            self.move(it["rid"], "waiting", "popped", "dequeue")
            self.waiting -= 1
            self.inflight.add(it["rid"])
            self.expect_deliver.append(it["rid"])
        else:
            ctx.hit("probe.poll_found_nothing")
        if isinstance(self.ref, RefCoDel) or (isinstance(self.ref, RefBalk) and isinstance(self.ref.inner, RefCoDel)):
            for d in self.ref.sync_len(len(self.policy)):
                self.move(d["rid"], "waiting", "dropped", "codel-drop")
                self.waiting -= 1
                ctx.hit("probe.codel_drop")
        self._depth_checks("pop")

    def _deliver(self, ev):
        pl = ev.payload
        if pl is None:
            # the queue's answer to a poll that found nothing (kept for protocols that answer every poll)
            self.ctx.hit("probe.empty_poll_answer")
            return
        rid = pl.context.get("rid")
        exp = self.expect_deliver.popleft() if self.expect_deliver else None
        if rid != exp:
            raise V("order", self.pcls, "dequeued-item-ne-policy-order",
                    f"queue handed out rid {rid}, the policy's order says rid {exp}")

    def _instant_detail(self):
        if self.n_notify >= 1 and self.f_completion:
            return "notify-poll+completion-poll-same-instant"
        if self.n_poll >= 2:
            return "several-polls-same-instant"
        return "single-poll"

    def _start(self, ev):
        rid = self.rid_of(ev)
        ctx = self.ctx
        self.move(rid, "popped", "service", "start")
        self.inflight.discard(rid)
        w = self.weight(rid)
        limit = self.limit_for_start(ctx.now_ns)
        room = limit - self.active_w >= w
        outcome = "service"
        if self.kind == "server":
            rej = self.F._requests_rejected
            if rej - self.last_rej == 1:
                outcome = "rejected"
            elif rej != self.last_rej:
                raise V("conserve", self.cls, "rejected-counter-jump", f"{self.last_rej} -> {rej}")
            self.last_rej = rej
        elif self.kind == "reneging":
            ren = self.F.reneged
            it = ctx.arrivals[rid]
            pat = it.get("patience_ns", self.default_patience_ns)
            waited = ctx.now_ns - it["t"]
            must = pat is not None and waited > pat
            if ren - self.last_ren == 1:
                outcome = "reneged"
            self.last_ren = ren
            if must and outcome != "reneged":
                raise V("renege", self.cls, "served-past-patience", f"rid {rid} waited {waited}ns > patience {pat}ns")
            if not must and outcome == "reneged":
                raise V("renege", self.cls, "reneged-within-patience", f"rid {rid} waited {waited}ns <= patience {pat}ns")
        if outcome == "reneged":
            self.state[rid] = "reneged"
            ctx.hit("probe.reneged")
            if self.extra_sink is not None:
                ctx.emit(rid, "reneged", self.cls)
            else:
                ctx.hit("probe.reneged_without_target")
        elif outcome == "rejected":
            if room:
                raise V("conserve", self.cls, "dequeued-item-rejected-with-free-capacity",
                        f"rid {rid} (weight {w}) discarded although {limit - self.active_w} of {limit} free")
            self.state[rid] = "rejected-after-dequeue"
            self.n_overpoll_reject += 1
            ctx.hit("probe.server_reject_after_dequeue")
            if w > 1:
                ctx.hit("probe.server_reject_heavy_head")
            elif "transition" in self.inst:
                ctx.hit("probe.server_reject_limit_lowered_in_flight")   # set_limit() shrank the pool under a dequeued item
            else:
                ctx.hit("probe.server_reject_overpoll")
        else:
            if not room:
                detail = self._instant_detail()
                if self.kind == "shifted" and self.F.current_capacity != self.sched_cap(ctx.now_ns):
                    detail = "schedule-capacity-not-applied" + ("-before-first-transition" if self.shift_events == 0 else "")
                raise V("limit", self.cls, f"start-beyond-limit/{detail}",
                        f"rid {rid} (weight {w}) started with {self.active_w} of {limit} in service at t={ctx.now_ns}ns")
            self.active_w += w
            self.max_active = max(self.max_active, self.active_w)
            self.starts.append(rid)
            self.f_start = True
            self.n_start_inst += 1
            if self.instant:
                self._continuation(ev)          # non-generator worker: served within this very delivery
        if self.comp_active() != self.active_w:
            raise V("conserve", self.cls, "in-service-count-ne-ledger",
                    f"component reports {self.comp_active()} in service, ledger {self.active_w}")

    def _continuation(self, ev):
        done = self.comp_done()
        d = done - self.last_done
        self.last_done = done
        if d == 0:
            return
        if d != 1:
            raise V("conserve", self.cls, "completed-counter-jump", f"+{d} in one delivery")
        rid = self.rid_of(ev)
        self.move(rid, "service", "done", "completion")
        self.active_w -= self.weight(rid)
        self.f_completion = True
        self._end_grace()
        self.inst.add("completion")
        if not self.sinkless:
            self.ctx.emit(rid, self.next_key, self.cls)
        if self.comp_active() != self.active_w:
            raise V("conserve", self.cls, "in-service-count-ne-ledger",
                    f"component reports {self.comp_active()} in service, ledger {self.active_w}")

    def _shift_change(self):
        self.shift_events += 1
        self.inst.add("transition")
        new = self.sched_cap(self.ctx.now_ns)
        old = self.sched_cap(self.ctx.now_ns, before=True)
        if new > old:
            self.f_raise = True
            if self.waiting:
                self.f_raise_backlog = True
                self.ctx.hit("fault.capacity_raised_under_backlog")
            self.ctx.hit("probe.shift_capacity_raised")
            if old == 0 and self.waiting:
                self.ctx.hit("probe.shift_raise_from_zero_with_backlog")
            if self.waiting and self.cfg.get("ms") and any(
                    lo == self.ctx.now_ns and lo != round(tsecs(self.cfg, a) * 1e9)
                    for (lo, _, _), (a, _, _) in zip(self.shift_ns, self.shifts)):
                self.ctx.hit("probe.raise_at_truncated_boundary_with_backlog")
        if new == 0:
            self.ctx.hit("probe.shift_zero_capacity")

    def housekeep(self, returned):
        """a scripted DeadlineQueue.purge_expired() call happened on this stage's policy"""
        if not isinstance(self.ref, RefDeadline):
            return
        ctx = self.ctx
        dropped = self.ref.purge(ctx.now_ns)
        for d in dropped:
            self.move(d["rid"], "waiting", "expired", "purge")
            self.waiting -= 1
        ctx.hit("probe.pipeline_purge")
        if dropped:
            ctx.hit("probe.pipeline_purge_removed")
        if returned != len(dropped):
            raise V("counters", self.pcls, "purge_expired-count-ne-model",
                    f"purge_expired() returned {returned}, {len(dropped)} entries had expired")
        self._depth_checks("purge")
        p = policy_query_problem(self.policy, self.ref, ctx.now_ns)
        if p:
            raise V("policy", self.pcls, "query-ne-model", p)

    def ctl_limit(self, n):
        if self.kind != "server" or self.cfg["conc"]["model"] != "dynamic":
            raise InvalidScenario("ctl on a stage without DynamicConcurrency")
        c = self.cfg["conc"]
        new = max(c["min"], n)
        if c["max"] is not None:
            new = min(c["max"], new)
        self.inst.add("transition")
        if new > self.limit:
            self.f_raise = True
            self.ctx.hit("probe.dynamic_limit_raised")
            if self.waiting:
                self.f_raise_backlog = True
                self.ctx.hit("fault.capacity_raised_under_backlog")
        self.limit = new
        if self.model.limit != new:
            raise V("limit", "DynamicConcurrency", "limit-ne-requested", f"{self.model.limit} != {new}")

    # ---- instants
    def on_time_advance(self, prev_ns):
        if self.expect_deliver:
            raise V("conserve", self.cls, "dequeued-never-delivered", f"rids {list(self.expect_deliver)} popped, no delivery")
        if self.inflight:
            raise V("conserve", self.cls, "delivered-never-started", f"rids {sorted(self.inflight)}")
        if self.n_start_inst >= 2:
            self.ctx.hit("probe.burst_pulled_in_within_instant")
        if self.f_raise_backlog and self.f_start:
            self.ctx.hit("probe.capacity_raise_pulled_backlog")
        if self.n_notify >= 1 and self.f_completion and self.f_start:
            self.ctx.hit("probe.notify_and_completion_coincide")
        if self.waiting:
            self.n_waited += 1
            h = self.ref.head(prev_ns)
            if h is not None and not self.grace:
                w = self.weight(h["rid"])
                limit = self.limit_after(prev_ns)
                if limit - self.active_w >= w:
                    if self.f_raise:
                        detail = "capacity-raised"
                    elif self.f_start:
                        detail = "after-start"
                    elif self.f_completion:
                        detail = "after-completion"
                    elif self.f_enqueue:
                        if self.f_enqueue_empty:
                            detail = "after-enqueue-into-empty-queue" + ("-notified" if self.n_notify else "-not-notified")
                        else:
                            detail = "after-enqueue-behind-backlog"
                            if isinstance(self.ref, RefDeadline) and \
                                    sum(1 for it in self.ref.items if it["deadline_ns"] >= prev_ns) == 1:
                                detail += "-of-expired-items"   # only dead entries were ahead of it
                    else:
                        detail = "idle"
                    if self.kind == "shifted" and self.F.current_capacity != limit:
                        detail = "schedule-capacity-not-applied" + ("-before-first-transition" if self.shift_events == 0 else "")
                    raise V("strand", self.cls, detail,
                            f"t={prev_ns}ns: {self.waiting} waiting (head rid {h['rid']}, weight {w}) while "
                            f"{self.active_w} of {limit} in service and the clock moves on")
        self._reset_instant()

    def at_end(self, t_ns, lenient=False):
        self.end_lenient = lenient
        self.on_time_advance(t_ns)
        left = sorted(r for r, s in self.state.items() if s == "service")
        if left:
            raise V("conserve", self.cls, "in-service-never-completed", f"rids {left} still in service, no event pending")
        if self.waiting:
            self.ctx.hit("probe.held_at_end_by_contract")

    def abstract(self):
        return f"{self.kind}:{self.pcls}:{min(self.max_active, 4)}:{'rej' if self.n_overpoll_reject else ''}"


# ---- PooledCycleResource ----------------------------------------------------

class PooledStage(Stage):
    kind = "pooled"
    cls = "PooledCycleResource"

    def __init__(self, ctx, idx, cfg, downstream):
        super().__init__(ctx, idx, cfg)
        self.pool, self.qcap = cfg["pool"], cfg.get("qcap", 0)
        self.F = PooledCycleResource(f"S{idx}", self.pool, secs(cfg["cycle_ticks"]), downstream=downstream,
                                     queue_capacity=self.qcap)
        self.avail = self.pool
        self.q: deque = deque()
        self.reinject: set[int] = set()
        self.n_rej = 0
        self.n_done = 0

    def entities(self):
        return [self.F]

    def front(self):
        return self.F

    def roles(self):
        return {id(self.F): "front"}

    def _cross(self):
        F = self.F
        # a unit freed for a dequeued item may be shown as available or as reserved
        if F.available not in (self.avail, self.avail - len(self.reinject)) or \
                (F.queued, F.rejected, F.completed) != (len(self.q), self.n_rej, self.n_done):
            raise V("conserve", self.cls, "counters-ne-ledger",
                    f"component (available,queued,rejected,completed)={(F.available, F.queued, F.rejected, F.completed)} "
                    f"ledger {(self.avail, len(self.q), self.n_rej, self.n_done)} ({len(self.reinject)} in hand-over)")
        if F.active != self.pool - self.avail or F.active > self.pool:
            raise V("limit", self.cls, "active-beyond-pool", f"active {F.active}, pool {self.pool}, ledger free {self.avail}")

    def on_delivery(self, ev, role):
        ctx, F = self.ctx, self.F
        if isinstance(ev, ProcessContinuation):
            rid = self.rid_of(ev)
            if F.completed == self.n_done:
                return
            self.move(rid, "service", "done", "completion")
            self.inst.add("completion")
            self.n_done += 1
            self.avail += 1
            ctx.emit(rid, self.next_key, self.cls, fifo=True)
            took = len(self.q) - F.queued
            if took not in (0, 1):
                raise V("conserve", self.cls, "queue-length-jump-at-completion", f"{len(self.q)} -> {F.queued}")
            must = bool(self.q) and self.avail - len(self.reinject) > 0
            may = bool(self.q) and self.avail > 0      # unit of an item in hand-over counted free: either reading
            if (took and not may) or (must and not took):
                raise V("strand" if must else "conserve", self.cls,
                        "completion-did-not-dequeue" if must else "dequeue-without-free-unit",
                        f"{len(self.q)} queued, {self.avail} units free, {len(self.reinject)} in hand-over, dequeued {took}")
            if took:
                ctx.hit("probe.pooled_handover")
                nxt = self.q.popleft()
                self.move(nxt, "waiting", "reinject", "dequeue")
                self.reinject.add(nxt)
            self._cross()
            return
        rid = self.rid_of(ev)
        full = self.qcap > 0 and len(self.q) >= self.qcap
        if rid in self.reinject:
            # the component re-offers a dequeued item to itself as a new event
            self.reinject.discard(rid)
            if self.avail > 0:
                self.state[rid] = "service"
                self.avail -= 1
                self.starts.append(rid)
            elif full:
                self.state[rid] = "rejected-after-dequeue"
                self.n_rej += 1
                ctx.hit("probe.pooled_reinjected_rejected")
            else:
                if self.q:
                    raise V("order", self.cls, "dequeued-item-requeued-behind-later-arrivals",
                            f"rid {rid} was first in line, lost its unit to a same-instant arrival and went to the "
                            f"back of the queue behind rids {list(self.q)}")
                self.state[rid] = "waiting"
                self.q.append(rid)
                ctx.hit("probe.pooled_reinjected_requeued_alone")
            self.max_active = max(self.max_active, self.pool - self.avail)
            self._cross()
            return
        self.inst.add("offer")
        if self.reinject and self.state.get(rid) == "waiting":
            raise V("order", self.cls, "dequeued-item-ne-fifo-head",
                    f"rid {rid} was taken from the queue, first in line was rid {sorted(self.reinject)}")
        ctx.arrive(rid, self.idx, self.cls)
        if rid in self.state:
            raise V("conserve", self.cls, "offered-twice", f"rid {rid}")
        if self.reinject:
            ctx.hit("probe.pooled_arrival_during_handover")
        dq, dr = F.queued - len(self.q), F.rejected - self.n_rej
        if (dq, dr) == (0, 0):
            outcome = "started"
        elif (dq, dr) == (1, 0):
            outcome = "queued"
        elif (dq, dr) == (0, 1):
            outcome = "rejected"
        else:
            raise V("conserve", self.cls, "offer-not-counted-exactly-once", f"rid {rid}: queued+{dq} rejected+{dr}")
        hold = "rejected" if full else "queued"
        if self.avail - len(self.reinject) > 0:
            legal = ("started",)
        elif self.avail > 0:
            legal = ("started", hold)      # the only free unit belongs to an item in hand-over: either reading
        else:
            legal = (hold,)
        if outcome not in legal:
            raise V("conserve" if outcome != "started" else "limit", self.cls, f"arrival-{outcome}-expected-{legal[0]}",
                    f"rid {rid}: {outcome} with {self.avail} of {self.pool} units free, {len(self.q)} queued "
                    f"(queue capacity {self.qcap or 'unlimited'})")
        if outcome == "started":
            if self.avail - len(self.reinject) <= 0:
                ctx.hit("probe.pooled_arrival_overtakes_dequeued")
            self.state[rid] = "service"
            self.avail -= 1
            self.starts.append(rid)
        elif outcome == "rejected":
            self.state[rid] = "rejected"
            self.n_rej += 1
            ctx.hit("probe.queue_full_reject")
        else:
            self.state[rid] = "waiting"
            self.q.append(rid)
        self.max_active = max(self.max_active, self.pool - self.avail)
        self._cross()

    def on_time_advance(self, prev_ns):
        if self.reinject:
            raise V("conserve", self.cls, "dequeued-never-restarted", f"rids {sorted(self.reinject)}")
        if self.q:
            self.n_waited += 1
        if self.q and self.avail > 0:
            raise V("strand", self.cls, "unit-free-with-backlog",
                    f"t={prev_ns}ns: {len(self.q)} queued while {self.avail} of {self.pool} units are free")

    def at_end(self, t_ns, lenient=False):
        self.on_time_advance(t_ns)
        left = sorted(r for r, s in self.state.items() if s == "service")
        if left:
            raise V("conserve", self.cls, "in-service-never-completed", f"rids {left}")

    def abstract(self):
        return f"pooled:{min(self.max_active, 4)}:{'q' if self.qcap else 'u'}"


# ---- BatchProcessor ---------------------------------------------------------

class BatchStage(Stage):
    kind = "batch"
    cls = "BatchProcessor"

    def __init__(self, ctx, idx, cfg, downstream):
        super().__init__(ctx, idx, cfg)
        self.size, self.timeout = cfg["size"], cfg.get("timeout_ticks", 0)
        self.timeout_ns = tns(cfg, self.timeout)
        if self.timeout and self.timeout_ns != round(tsecs(cfg, self.timeout) * 1e9):
            ctx.hit("probe.batch_timeout_truncates_below_float")
        self.F = BatchProcessor(f"S{idx}", downstream, batch_size=self.size, process_time=secs(cfg["proc_ticks"]),
                                timeout_s=tsecs(cfg, self.timeout))
        self.buf: list[int] = []
        self.first_t = None
        self.batches: deque = deque()
        self.n_items = 0
        self.n_batches = 0

    def entities(self):
        return [self.F]

    def front(self):
        return self.F

    def roles(self):
        return {id(self.F): "front"}

    def _flush(self):
        batch, self.buf = self.buf, []
        self.first_t = None
        for r in batch:
            self.move(r, "waiting", "service", "batch-start")
        self.batches.append(batch)
        self.max_active = max(self.max_active, len(self.batches))

    def on_delivery(self, ev, role):
        ctx, F = self.ctx, self.F
        if isinstance(ev, ProcessContinuation):
            d = F.items_processed - self.n_items
            if d == 0 and F.batches_processed == self.n_batches:
                return
            if not self.batches or F.batches_processed != self.n_batches + 1 or d != len(self.batches[0]):
                raise V("conserve", self.cls, "batch-completion-ne-ledger",
                        f"items_processed +{d}, batches {self.n_batches}->{F.batches_processed}, "
                        f"ledger's oldest running batch {list(self.batches[0]) if self.batches else None}")
            batch = self.batches.popleft()
            self.inst.add("completion")
            self.n_items += d
            self.n_batches += 1
            for r in batch:
                self.move(r, "service", "done", "completion")
                ctx.emit(r, self.next_key, self.cls, fifo=True)
            return
        if ev.event_type == "_BatchTimeout":
            self.inst.add("transition")
            if F.buffer_depth == 0 and self.buf:
                ctx.hit("probe.batch_timeout_flush")
                self._flush()
            elif F.buffer_depth != len(self.buf):
                raise V("conserve", self.cls, "buffer-ne-ledger-after-timeout", f"{F.buffer_depth} vs {len(self.buf)}")
            return
        rid = self.rid_of(ev)
        self.inst.add("offer")
        ctx.arrive(rid, self.idx, self.cls)
        if rid in self.state:
            raise V("conserve", self.cls, "offered-twice", f"rid {rid}")
        self.state[rid] = "waiting"
        self.buf.append(rid)
        if len(self.buf) == 1:
            self.first_t = ctx.now_ns
        if F.buffer_depth == 0:
            if len(self.buf) < self.size:
                ctx.hit("probe.batch_flushed_below_size")
            if self.size == 1 and self.timeout > 0:
                ctx.hit("probe.batch_of_one_with_timeout_processed_at_once")
            self._flush()
        elif F.buffer_depth != len(self.buf):
            raise V("conserve", self.cls, "buffer-ne-ledger", f"component buffers {F.buffer_depth}, ledger {len(self.buf)}")

    def on_time_advance(self, prev_ns):
        if self.buf:
            self.n_waited += 1
        if len(self.buf) >= self.size:
            # narrow detail for the one configuration in which the first item of a batch already completes it
            detail = "full-batch-not-processed"
            if self.size == 1 and len(self.buf) == 1 and self.timeout > 0:
                detail += "/batch-of-one-arms-timeout-instead"
            raise V("strand", self.cls, detail,
                    f"t={prev_ns}ns: {len(self.buf)} items buffered, batch_size={self.size}, "
                    f"timeout {self.timeout} ticks, clock moves on")
        if self.buf and self.timeout > 0 and prev_ns - self.first_t >= self.timeout_ns:
            raise V("strand", self.cls, "partial-batch-past-timeout",
                    f"t={prev_ns}ns: oldest buffered item arrived at {self.first_t}ns, timeout {self.timeout} ticks")

    def at_end(self, t_ns, lenient=False):
        if len(self.buf) >= self.size:
            self.on_time_advance(t_ns)
        if self.buf and self.timeout > 0:
            raise V("strand", self.cls, "partial-batch-never-flushed", f"{len(self.buf)} items, timeout armed, run over")
        if self.batches:
            raise V("conserve", self.cls, "in-service-never-completed", f"batches {list(self.batches)}")
        if self.buf:
            self.ctx.hit("probe.held_at_end_by_contract")

    def abstract(self):
        return f"batch:{self.size}:{'t' if self.timeout else 'n'}:{min(self.max_active, 3)}"


# ---- ConveyorBelt -----------------------------------------------------------

class ConveyorStage(Stage):
    kind = "conveyor"
    cls = "ConveyorBelt"

    def __init__(self, ctx, idx, cfg, downstream):
        super().__init__(ctx, idx, cfg)
        self.cap, self.transit_ns = cfg.get("cap", 0), cfg["transit_ticks"] * TICK_NS
        self.F = ConveyorBelt(f"S{idx}", downstream, secs(cfg["transit_ticks"]), capacity=self.cap)
        self.on_belt: dict[int, int] = {}
        self.n_rej = self.n_done = 0

    def entities(self):
        return [self.F]

    def front(self):
        return self.F

    def roles(self):
        return {id(self.F): "front"}

    def _cross(self):
        F = self.F
        if (F.items_in_transit, F.items_rejected, F.items_transported) != (len(self.on_belt), self.n_rej, self.n_done):
            raise V("conserve", self.cls, "counters-ne-ledger",
                    f"component {(F.items_in_transit, F.items_rejected, F.items_transported)} "
                    f"ledger {(len(self.on_belt), self.n_rej, self.n_done)}")
        if self.cap > 0 and F.items_in_transit > self.cap:
            raise V("limit", self.cls, "in-transit-beyond-capacity", f"{F.items_in_transit} > {self.cap}")

    def on_delivery(self, ev, role):
        ctx = self.ctx
        rid = self.rid_of(ev)
        if isinstance(ev, ProcessContinuation):
            if self.F.items_transported == self.n_done:
                return
            self.move(rid, "service", "done", "completion")
            self.inst.add("completion")
            t0 = self.on_belt.pop(rid)
            if ctx.now_ns - t0 != self.transit_ns:
                raise V("strand", self.cls, "transit-time-ne-configured", f"rid {rid}: {ctx.now_ns - t0}ns vs {self.transit_ns}ns")
            self.n_done += 1
            ctx.emit(rid, self.next_key, self.cls, fifo=True)
            self._cross()
            return
        self.inst.add("offer")
        ctx.arrive(rid, self.idx, self.cls)
        if rid in self.state:
            raise V("conserve", self.cls, "offered-twice", f"rid {rid}")
        drej = self.F.items_rejected - self.n_rej
        full = self.cap > 0 and len(self.on_belt) >= self.cap
        if drej not in (0, 1):
            raise V("conserve", self.cls, "offer-not-counted-exactly-once", f"rid {rid}: rejected+{drej}")
        if full and not drej:
            raise V("limit", self.cls, "accepted-beyond-capacity", f"rid {rid}: {len(self.on_belt)} in transit, capacity {self.cap}")
        if drej and not full:
            raise V("conserve", self.cls, "rejected-with-room", f"rid {rid}: {len(self.on_belt)} in transit, capacity {self.cap}")
        if full:
            self.state[rid] = "rejected"
            self.n_rej += 1
            ctx.hit("probe.queue_full_reject")
        else:
            self.state[rid] = "service"
            self.on_belt[rid] = ctx.now_ns
            self.max_active = max(self.max_active, len(self.on_belt))
        self._cross()

    def at_end(self, t_ns, lenient=False):
        if self.on_belt:
            raise V("conserve", self.cls, "in-service-never-completed", f"rids {sorted(self.on_belt)}")

    def abstract(self):
        return f"conveyor:{'c' if self.cap else 'u'}:{min(self.max_active, 4)}"


# ---- GateController ---------------------------------------------------------

class GateStage(Stage):
    kind = "gate"
    cls = "GateController"

    def __init__(self, ctx, idx, cfg, downstream):
        super().__init__(ctx, idx, cfg)
        self.qcap = cfg.get("qcap", 0)
        self.is_open = bool(cfg.get("initially_open", True))
        if any(tns(cfg, x) != round(tsecs(cfg, x) * 1e9) for ab in cfg["schedule"] for x in ab):
            ctx.hit("probe.gate_time_truncates_below_float")
        self.F = GateController(f"S{idx}", downstream, schedule=[(tsecs(cfg, a), tsecs(cfg, b)) for a, b in cfg["schedule"]],
                                initially_open=self.is_open, queue_capacity=self.qcap)
        self.q: deque = deque()
        self.n_pass = self.n_rej = 0
        self.toggles = 0
        # the schedule as the statement of intent: open at t iff t lies in some [open, close); transitions in the
        # order the documented API creates them (per interval: open, then close) for the sequential reading
        self.initial_open = self.is_open
        self.end_lenient = False
        self.iv = [(tns(cfg, a), tns(cfg, b)) for a, b in cfg["schedule"]]
        self.tr = sorted([(lo, 2 * i, True) for i, (lo, _) in enumerate(self.iv)]
                         + [(hi, 2 * i + 1, False) for i, (_, hi) in enumerate(self.iv)])
        ivs = sorted(self.iv)
        if any(ivs[i][1] == ivs[i + 1][0] and ivs[i][0] < ivs[i][1] for i in range(len(ivs) - 1)):
            ctx.hit("probe.gate_touching_intervals")
        if any(ivs[i][1] > ivs[i + 1][0] for i in range(len(ivs) - 1)):
            ctx.hit("probe.gate_overlapping_intervals")

    def entities(self):
        return [self.F]

    def front(self):
        return self.F

    def roles(self):
        return {id(self.F): "front"}

    def start_events(self):
        return self.F.start_events()

    def _cross(self):
        F = self.F
        st = F.stats
        if (F.is_open, F.queue_depth, st.passed_through, st.rejected) != (self.is_open, len(self.q), self.n_pass, self.n_rej):
            raise V("conserve", self.cls, "counters-ne-ledger",
                    f"component (open,depth,passed,rejected)={(F.is_open, F.queue_depth, st.passed_through, st.rejected)} "
                    f"ledger {(self.is_open, len(self.q), self.n_pass, self.n_rej)}")
        if self.qcap > 0 and F.queue_depth > self.qcap:
            raise V("hold", self.cls, "len-exceeds-capacity", f"{F.queue_depth} > {self.qcap}")

    def on_delivery(self, ev, role):
        ctx = self.ctx
        if ev.event_type in ("_GateOpen", "_GateClose"):
            self.inst.add("transition")
        if ev.event_type == "_GateOpen":
            if not self.is_open:
                self.is_open = True
                self.toggles += 1
                if self.q:
                    ctx.hit("probe.gate_flush")
                while self.q:
                    r = self.q.popleft()
                    self.move(r, "waiting", "done", "pass")
                    self.n_pass += 1
                    ctx.emit(r, self.next_key, self.cls, fifo=True)
            self._cross()
            return
        if ev.event_type == "_GateClose":
            if self.is_open:
                self.is_open = False
                self.toggles += 1
            self._cross()
            return
        rid = self.rid_of(ev)
        self.inst.add("offer")
        ctx.arrive(rid, self.idx, self.cls)
        if rid in self.state:
            raise V("conserve", self.cls, "offered-twice", f"rid {rid}")
        if self.is_open:
            self.state[rid] = "done"
            self.n_pass += 1
            ctx.emit(rid, self.next_key, self.cls, fifo=True)
        elif self.qcap > 0 and len(self.q) >= self.qcap:
            self.state[rid] = "rejected"
            self.n_rej += 1
            ctx.hit("probe.queue_full_reject")
        else:
            self.state[rid] = "waiting"
            self.q.append(rid)
            ctx.hit("probe.gate_held")
        self._cross()

    def should_be_open(self, t_ns):
        """acceptable gate states at the end of instant t: the interval reading and, because overlapping intervals
        are not defined anywhere, also the sequential reading (apply every transition up to t in creation order)"""
        if not self.tr or t_ns < self.tr[0][0]:
            return {self.initial_open}
        union = any(lo <= t_ns < hi for lo, hi in self.iv)
        seq = self.initial_open
        for t, _, opens in self.tr:
            if t > t_ns:
                break
            seq = opens
        return {union, seq}

    def on_time_advance(self, prev_ns):
        if self.q:
            self.n_waited += 1
        if self.q and not self.is_open and not self.end_lenient and self.should_be_open(prev_ns) == {True}:
            raise V("strand", self.cls, "closed-inside-a-scheduled-open-interval",
                    f"t={prev_ns}ns: {len(self.q)} queued behind a closed gate although the schedule "
                    f"{self.cfg['schedule']} has the gate open at this instant")
        if self.q and self.is_open:
            raise V("strand", self.cls, "open-gate-with-backlog", f"t={prev_ns}ns: {len(self.q)} queued, gate open")

    def at_end(self, t_ns, lenient=False):
        self.on_time_advance(t_ns)
        if self.q:
            self.ctx.hit("probe.held_at_end_by_contract")

    def abstract(self):
        return f"gate:{min(self.toggles, 4)}:{'q' if self.qcap else 'u'}"


# ---------------------------------------------------------------------------
# pipeline assembly
# ---------------------------------------------------------------------------

class Pipeline:
    """Entities + stages + dispatch for one scenario."""

    def __init__(self, sc: dict):
        self.sc = sc
        arrivals = sc["arrivals"]
        self.ctx = Ctx(arrivals)
        self.sink = TagSink("sink")
        self.reneged_sink = TagSink("reneged")
        clock = lambda: self.sink.now  # noqa: E731
        weights = {k: int(v) for k, v in sc.get("flow_weights", {}).items()}
        cfgs = sc["stages"]
        if not 1 <= len(cfgs) <= 3:
            raise InvalidScenario("1..3 stages")
        self.stages: list[Stage] = [None] * len(cfgs)
        downstream = self.sink
        for idx in range(len(cfgs) - 1, -1, -1):
            cfg = cfgs[idx]
            k = cfg.get("kind")
            if k in ("server", "shifted", "reneging", "driver"):
                st = QRStage(self.ctx, idx, cfg, downstream, self.reneged_sink, clock, weights)
            elif k == "pooled":
                st = PooledStage(self.ctx, idx, cfg, downstream)
            elif k == "batch":
                st = BatchStage(self.ctx, idx, cfg, downstream)
            elif k == "conveyor":
                st = ConveyorStage(self.ctx, idx, cfg, downstream)
            elif k == "gate":
                st = GateStage(self.ctx, idx, cfg, downstream)
            else:
                raise InvalidScenario(f"stage kind {k}")
            st.next_key = idx + 1 if idx + 1 < len(cfgs) else "sink"
            if getattr(st, "sinkless", False) and idx + 1 < len(cfgs):
                raise InvalidScenario("only the last stage can be sinkless")
            self.stages[idx] = st
            downstream = st.front()
        # relays: hop h enters at relay[h] -> relay[h-1] -> ... -> stage 0
        self.relays = []
        nxt = self.stages[0].front()
        max_h = max([a.get("hops", 0) for a in arrivals] + [0])
        if max_h > 4:
            raise InvalidScenario("hops > 4")
        for h in range(1, max_h + 1):
            r = ConditionalRouter(f"relay{h}", routes=[((lambda e: True), nxt)])
            self.relays.append(r)
            nxt = r
        self.ctl = Ctl("ctl", self.stages)
        self.roles: dict[int, tuple] = {}
        for st in self.stages:
            for eid, role in st.roles().items():
                self.roles[eid] = (st, role)
        self.relay_ids = {id(r) for r in self.relays}
        self.front0 = self.stages[0].front()
        self.inst_hops: list[int] = []

    def entities(self):
        out = [self.sink, self.reneged_sink, self.ctl] + self.relays
        for st in self.stages:
            out.extend(st.entities())
        return out

    def initial_events(self):
        evs = []
        for rid, a in enumerate(self.sc["arrivals"]):
            h = a.get("hops", 0)
            target = self.stages[0].front() if h == 0 else self.relays[h - 1]
            ctx = {"rid": rid, "prio": a.get("prio", 0), "flow": a.get("flow", "f0"),
                   "deadline_ns": a.get("deadline_ns", 1 << 62), "metadata": {"weight": a.get("w", 1)}}
            if a.get("patience_ns") is not None:
                ctx["patience_s"] = a["patience_ns"] / 1e9
            evs.append(Event(time=Instant(a["t"]), event_type=WORK, target=target, context=ctx))
            self.ctx.transit[rid] = (0, "source")
        for c in self.sc.get("ctl", []):
            evs.append(Event(time=Instant(c["t"]), event_type="ctl", target=self.ctl,
                             context={"stage": c["stage"], "limit": c["limit"]}))
        for c in self.sc.get("purge", []):
            evs.append(Event(time=Instant(c["t"]), event_type="purge", target=self.ctl, context={"stage": c["stage"]}))
        for st in self.stages:
            if isinstance(st, GateStage):
                evs.extend(st.start_events())
        return evs

    # ---- seams
    def on_event(self, ev, mon):
        ctx = self.ctx
        ctx.now_ns = ev.time.nanoseconds
        tid = id(ev.target)
        ent = self.roles.get(tid)
        if ent is not None:
            if ev.target is self.front0 and ev.event_type == WORK and not isinstance(ev, ProcessContinuation):
                rid = ev.context.get("rid")
                if rid is not None and rid not in self.stages[0].state:
                    self.inst_hops.append(ctx.arrivals[rid]["hops"])
            ent[0].on_delivery(ev, ent[1])
            return
        if ev.target is self.sink:
            rid = ev.context.get("rid")
            ctx.arrive(rid, "sink", "Sink")
            ctx.sink_seen[rid] = ctx.sink_seen.get(rid, 0) + 1
            return
        if ev.target is self.reneged_sink:
            ctx.arrive(ev.context.get("rid"), "reneged", "Sink")
            return
        if ev.target is self.ctl:
            st = self.stages[ev.context["stage"]]
            if ev.event_type == "purge":
                if self.ctl.last_purge is not None and isinstance(st, QRStage):
                    st.housekeep(self.ctl.last_purge)
                return
            st.ctl_limit(ev.context["limit"])
            return

    def outside_capacity_change(self, stage, op, limit, when):
        """a capacity change made by user code while no event loop is executing"""
        st = self.stages[stage]
        if not isinstance(st, QRStage) or st.F is None:
            return
        self.ctx.hit("probe.outside_change_before_run" if when == "before-run" else "probe.outside_change_while_paused")
        if op == "limit" and isinstance(st.model, DynamicConcurrency):
            before = st.limit
            st.model.set_limit(limit)
            st.ctl_limit(limit)
            if st.limit > before:
                # 7d4ab37 documents: a raise outside the loop pulls work only at the next notify/completion
                st.grace = True
                st.f_raise = False
                if st.waiting:
                    self.ctx.hit("probe.outside_limit_raised_under_backlog")
        else:
            st.F.capacity_changed()

    def on_time_advance(self, new_time):
        prev = self.ctx.now_ns
        self._instant_facts()
        for st in self.stages:
            st.on_time_advance(prev)
        self.ctx.check_instant_end(prev)

    def _instant_facts(self):
        ctx = self.ctx
        if len(self.inst_hops) >= 2:
            ctx.hit("fault.burst_same_instant")
            if len(set(self.inst_hops)) >= 2:
                ctx.hit("fault.mixed_depth_burst")
        self.inst_hops = []
        for st in self.stages:
            if "offer" in st.inst and "completion" in st.inst:
                ctx.hit("fault.arrival_at_completion_instant")
            if "offer" in st.inst and "transition" in st.inst:
                ctx.hit("fault.arrival_at_transition_instant")
            st.inst.clear()

    def at_end(self, lenient=False):
        """`lenient`: an auto-terminating run stopped with daemon (shift/gate) events still pending — the state they
        would have produced at this very instant is not demanded"""
        self._instant_facts()
        t = self.ctx.now_ns
        for st in self.stages:
            if isinstance(st, GateStage):
                st.end_lenient = lenient
            st.at_end(t, lenient)
        self.ctx.check_instant_end(t)


# ---------------------------------------------------------------------------
# direct policy drive (oracle iv, first half): same push/pop sequence on the
# real policy and on the reference model, inside the engine (policies that
# need a clock read the simulation clock)
# ---------------------------------------------------------------------------

class PolicyBench(Entity):
    def __init__(self, name, cfg, items, weights, probe):
        super().__init__(name)
        self.policy = build_policy(cfg, lambda: self.now, weights)
        self.ref = build_ref(cfg, weights)
        self.pcls = policy_class(self.policy)
        self.items = items
        self.pushed: set[int] = set()
        self.probe = probe
        self.trace: list = []
        self.max_len = 0

    def _hit(self, k):
        self.probe[k] = self.probe.get(k, 0) + 1

    def _common(self, where):
        pol, ref = self.policy, self.ref
        if len(pol) != len(ref):
            raise V("policy", self.pcls, f"len-ne-model-after-{where}", f"policy {len(pol)} vs model {len(ref)}")
        if len(pol) > pol.capacity:
            raise V("hold", self.pcls, "len-exceeds-capacity", f"{len(pol)} > {pol.capacity}")
        if pol.is_empty() != (len(ref) == 0):
            raise V("policy", self.pcls, "is_empty-ne-model", f"is_empty()={pol.is_empty()} with {len(ref)} held")
        p = policy_counter_problem(pol, ref)
        if p:
            raise V("counters", self.pcls, f"enqueued-ne-dequeued+dropped+held-after-{where}", p)
        self.max_len = max(self.max_len, len(ref))

    def handle_event(self, event):
        op = event.context["op"]
        now = self.now.nanoseconds
        pol, ref = self.policy, self.ref
        if op["op"] == "push":
            i = op["it"]
            if i in self.pushed:
                return []
            self.pushed.add(i)
            it = self.items[i]
            e = Event(time=self.now, event_type=WORK, target=self,
                      context={"rid": it["rid"], "prio": it["prio"], "flow": it["flow"],
                               "deadline_ns": it["deadline_ns"], "metadata": {"weight": 1}})
            legal = ref.legal_push(it, now)
            got = pol.push(e)
            if not isinstance(got, bool):
                raise V("policy", self.pcls, "push-returns-non-bool", repr(got))
            if got not in legal:
                raise V("admit", self.pcls, "accepted-beyond-capacity" if got else "rejected-with-room",
                        f"push of rid {it['rid']} returned {got} with {len(ref)} held, capacity {ref.cap}")
            ref.commit_push(it, now, got)
            self._hit("probe.policy_push_rejected" if not got else "probe.policy_push")
            self.trace.append(("push", it["rid"], got))
            self._common("push")
        elif op["op"] == "pop":
            if len(pol) > len(ref):
                raise V("policy", self.pcls, "len-ne-model-after-pop", f"policy {len(pol)} vs model {len(ref)}")
            want, dropped = ref.pop(now)
            got = pol.pop()
            grid = None if got is None else got.context["rid"]
            wrid = None if want is None else want["rid"]
            if isinstance(ref, RefCoDel):
                extra = ref.sync_len(len(pol)) if len(pol) <= len(ref) else []
                if extra:
                    self._hit("probe.codel_drop")
            if dropped:
                self._hit("probe.deadline_expired_drop")
            if grid != wrid:
                raise V("order", self.pcls, "popped-item-ne-policy-order",
                        f"pop returned rid {grid}, the policy's order says rid {wrid} (t={now}ns)")
            self.trace.append(("pop", grid))
            self._common("pop")
        elif op["op"] == "purge":
            # DeadlineQueue.purge_expired(): the only public maintenance method any policy has
            if hasattr(pol, "purge_expired"):
                want = ref.purge(now)
                got = pol.purge_expired()
                if got != len(want):
                    raise V("counters", self.pcls, "purge_expired-count-ne-model",
                            f"purge_expired() returned {got}, {len(want)} entries had expired (t={now}ns)")
                self._hit("probe.policy_purge")
                if want:
                    self._hit("probe.policy_purge_removed")
                    if len(ref) >= 3:
                        self._hit("probe.policy_purge_left_3plus")
                self.trace.append(("purge", got))
                self._common("purge")
        elif op["op"] == "query":
            p = policy_query_problem(pol, ref, now)
            if p:
                raise V("policy", self.pcls, "query-ne-model", p)
            self._hit("probe.policy_query")
            self._common("query")
        elif op["op"] == "peek":
            got = pol.peek()
            want = ref.head(now)
            if (None if got is None else got.context["rid"]) != (None if want is None else want["rid"]):
                self._hit("obs.peek_ne_next_pop")       # outside the statement: observed, not judged
        return []
