"""One integer decides everything: all randomness is derived by hashing."""
from __future__ import annotations

import hashlib
import random


def H(*parts) -> int:
    h = hashlib.blake2b(repr(parts).encode(), digest_size=8)
    return int.from_bytes(h.digest(), "big")


def rng_for(*parts) -> random.Random:
    return random.Random(H(*parts))


def unit(*parts) -> float:
    """Keyed uniform [0,1): same key -> same draw, independent of call order."""
    return H(*parts) / 2.0**64


def seed_globals(seed: int) -> None:
    """Seed the process-global PRNGs that repo components draw from."""
    random.seed(seed)
    try:
        import numpy as _np

        _np.random.seed(seed % (2**32))
    except Exception:  # numpy optional
        pass
