"""Generate JSON "script programs" and execute them on the real engine.

The same JSON is executed by simkit.refengine.RefEngine; the two delivery
logs are compared by the checks (C01, C04, C05).
"""
from __future__ import annotations

import random

from happysimulator.core.entity import Entity
from happysimulator.core.event import Event
from happysimulator.core.temporal import Instant

DT_CHOICES_NS = [0, 0, 0, 1, 1, 999, 1_000, 100_000_000, 3_600_000_000_000]
GEN_DELAYS_S = [0.0, 0.0, 4e-10, 1e-9, 1e-6, 0.1, 10.0]
T0_CHOICES_NS = [0, 0, 1, 1, 2, 1_000, 1_000, 100_000_000, 100_000_000, 200_000_000, 3_600_000_000_000]


def gen_emit(rng: random.Random, n_ent: int, n_kinds: int, allow_past: bool) -> dict:
    dt = rng.choice(DT_CHOICES_NS)
    if allow_past and rng.random() < 0.04:
        dt = -rng.choice([1, 1_000, 100_000_000])
    return {"dt": dt, "to": rng.randrange(n_ent), "k": rng.randrange(n_kinds), "daemon": rng.random() < 0.15}


def gen_program(rng: random.Random, *, max_entities=5, max_initial=24, allow_crash=True,
                allow_past=True, allow_gen=True, fuel=None, allow_prepared=False) -> dict:
    n_ent = rng.randint(1, max_entities)
    n_kinds = rng.randint(1, 4)
    prepared: list[dict] = []
    want_prepared = allow_prepared and rng.random() < 0.3
    crashable = [e for e in range(n_ent) if allow_crash and rng.random() < 0.2]
    handlers = {}
    for e in range(n_ent):
        for k in range(n_kinds):
            if rng.random() < 0.2:
                continue  # no handler: sink behaviour
            shapes = ["none", "one", "list", "list"]
            if allow_gen and e not in crashable:
                shapes += ["gen", "gen"]
            shape = rng.choice(shapes)
            h = {"shape": shape,
                 "emits": [gen_emit(rng, n_ent, n_kinds, allow_past) for _ in range(rng.choice([0, 1, 1, 2, 3]))],
                 "rev": rng.random() < 0.3}
            if rng.random() < 0.2:
                h["cancel"] = [rng.randrange(1000) for _ in range(rng.randint(1, 2))]
            if rng.random() < 0.15:
                h["sched"] = [gen_emit(rng, n_ent, n_kinds, allow_past)]
            if shape == "list" and rng.random() < 0.12:
                # the handler re-times (and maybe re-targets) the very Event object it received and returns it again
                h["reuse"] = {"dt": rng.choice(DT_CHOICES_NS), "to": rng.choice([None, rng.randrange(n_ent)])}
            if crashable and rng.random() < 0.15:
                h["crash"] = [rng.choice(crashable)]
            if crashable and rng.random() < 0.2:
                h["uncrash"] = [rng.choice(crashable)]
            if shape == "gen":
                h["steps"] = [
                    {"d": rng.choice(GEN_DELAYS_S),
                     "emits": [gen_emit(rng, n_ent, n_kinds, allow_past) for _ in range(rng.choice([0, 0, 1, 2]))]}
                    for _ in range(rng.randint(1, 4))
                ]
                h["ret"] = rng.choice(["none", "one", "list"])
            handlers[f"{e}:{k}"] = h
    n_init = rng.randint(0, max_initial)
    # heavy timestamp collisions: draw from a small pool
    pool = [rng.choice(T0_CHOICES_NS) for _ in range(rng.randint(1, 4))]
    if want_prepared:
        # events built before the run but handed over by a handler during it; their timestamps collide with what
        # handlers create on the spot (now + dt for the usual dt values)
        lists = [h["emits"] for h in handlers.values()] + [st["emits"] for h in handlers.values() for st in h.get("steps", [])]
        for _ in range(rng.randint(1, 6)):
            if not lists:
                break
            base = rng.choice(pool)
            prepared.append({"t": base + rng.choice([0, 0, 1, 1_000, 100_000_000, 100_000_001, 200_000_000]),
                             "to": rng.randrange(n_ent), "k": rng.randrange(n_kinds), "daemon": rng.random() < 0.1})
            tgt = rng.choice(lists)
            tgt.insert(rng.randint(0, len(tgt)), {"prep": len(prepared) - 1})
    initial = [
        {"t": rng.choice(pool), "to": rng.randrange(n_ent), "k": rng.randrange(n_kinds),
         "daemon": rng.random() < 0.2, "cancel": rng.choice([True, "late"]) if rng.random() < 0.12 else False}
        for _ in range(n_init)
    ]
    order = list(range(n_init))
    if rng.random() < 0.5:
        rng.shuffle(order)
    end_kind = rng.choice(["none", "none", "none", "before", "on", "between", "after"])
    times = sorted({i["t"] for i in initial}) or [0]
    if end_kind == "none":
        end = None
    elif end_kind == "before":
        end = max(0, times[0] - 1)
    elif end_kind == "on":
        end = rng.choice(times)
    elif end_kind == "between":
        end = rng.choice(times) + rng.choice([1, 500, 50_000_000])
    else:
        end = times[-1] + 4_000_000_000_000
    return {
        "n_entities": n_ent, "n_kinds": n_kinds, "handlers": handlers, "initial": initial, "prepared": prepared,
        "sched_order": order, "end": end, "fuel": fuel if fuel is not None else rng.choice([20, 60, 150]),
    }


class ProgramRunner:
    """Executes a script program on the real engine, mirroring RefEngine's
    bookkeeping (registry, fuel) on the harness side."""

    def __init__(self, prog: dict):
        self.prog = prog
        self.fuel = prog.get("fuel", 100)
        self.registry: list[Event] = []
        self.log: list[tuple] = []  # (uid, step, clock_ns, event_time_ns)
        self.tlog: list[tuple] = []  # (clock_ns, event_type, entity, step): identity-free, comparable across reset()
        self.problems: list[tuple] = []  # (sig, msg) noticed at delivery time
        self.entities = [ScriptEntity(f"E{i}", i, self) for i in range(prog["n_entities"])]
        self.sim = None
        self.uid_of: dict[int, int] = {}
        self.late_cancels: list[Event] = []
        self._created: list[Event] = []
        self.prepared: list[Event] = []
        self._handed: set[int] = set()

    def new_event(self, t_ns: int, to: int, k: int, daemon: bool) -> Event:
        ev = Event(time=Instant(t_ns), event_type=f"k{k}", target=self.entities[to], daemon=daemon)
        self.uid_of[id(ev)] = len(self.registry)
        self.registry.append(ev)
        return ev

    def emit_all(self, now_ns: int, emits) -> list[Event]:
        out = []
        for e in emits:
            if self.fuel <= 0:
                break
            self.fuel -= 1
            if "prep" in e:
                ev = self.prepared[e["prep"]]
                if id(ev) not in self._handed:
                    self._handed.add(id(ev))
                    out.append(ev)
                continue
            out.append(self.new_event(now_ns + e["dt"], e["to"], e["k"], e.get("daemon", False)))
        return out

    def create_prepared(self) -> None:
        """Construct (but do not schedule) the prepared events; call right after the last create_initial()."""
        for pe in self.prog.get("prepared", []):
            self.prepared.append(self.new_event(pe["t"], pe["to"], pe["k"], pe.get("daemon", False)))

    def create_initial(self, start: int = 0, stop: int | None = None) -> None:
        """Construct initial events [start, stop) now (creation order = list order)."""
        for ini in self.prog["initial"][start:stop]:
            ev = self.new_event(ini["t"], ini["to"], ini["k"], ini.get("daemon", False))
            if ini.get("cancel") == "late":
                self.late_cancels.append(ev)
            elif ini.get("cancel"):
                ev.cancel()
            self._created.append(ev)

    def initial_in_schedule_order(self) -> list[Event]:
        created = self._created
        order = self.prog.get("sched_order") or list(range(len(created)))
        order = [i for i in order if i < len(created)]
        seen = set(order)
        order += [i for i in range(len(created)) if i not in seen]
        return [created[i] for i in order]

    def build_initial(self) -> list[Event]:
        created = []
        for ini in self.prog["initial"]:
            ev = self.new_event(ini["t"], ini["to"], ini["k"], ini.get("daemon", False))
            if ini.get("cancel") == "late":
                self.late_cancels.append(ev)   # cancelled after schedule(), before run()
            elif ini.get("cancel"):
                ev.cancel()
            created.append(ev)
        order = self.prog.get("sched_order") or list(range(len(created)))
        order = [i for i in order if i < len(created)]
        seen = set(order)
        order += [i for i in range(len(created)) if i not in seen]
        return [created[i] for i in order]

    def apply_late_cancels(self) -> None:
        for ev in self.late_cancels:
            ev.cancel()


class ScriptEntity(Entity):
    def __init__(self, name: str, idx: int, runner: ProgramRunner):
        super().__init__(name)
        self.idx = idx
        self.r = runner
        self.chain = 0  # state hash chain (for C04 "resulting component state")
        self._cur_type = None

    def _note(self, uid: int, step: int, ev_time_ns: int) -> int:
        now = self.now.nanoseconds
        self.r.log.append((uid, step, now, ev_time_ns))
        self.r.tlog.append((now, self._cur_type if step > 0 else None, self.idx, max(step, 0)))
        self.chain = hash((self.chain, uid, step, now)) & 0xFFFFFFFFFFFF
        return now

    def handle_event(self, event):
        r = self.r
        uid = r.uid_of.get(id(event), -1)
        if event._cancelled:
            r.problems.append(("cancelled-delivered", f"cancelled event uid={uid} delivered"))
        now = self._note(uid, -1, event.time.nanoseconds)
        r.tlog[-1] = (now, event.event_type, self.idx, 0)
        # state carried by the event itself (not by the entity): an event is handled once, so this is 0 on arrival
        meta = event.context["metadata"]
        seen_before = meta.get("seen", 0)
        meta["seen"] = seen_before + 1
        if seen_before != meta.get("reuse_hops", 0):
            r.problems.append(("event-metadata-not-fresh", f"event {event.event_type} arrived with seen={seen_before}"))
            return None
        if seen_before:
            # a re-used event object: logged as its own delivery (uid, -(1+hop))
            r.log[-1] = (uid, -(1 + seen_before), r.log[-1][2], r.log[-1][3])
        k = int(event.event_type[1:])
        h = r.prog["handlers"].get(f"{self.idx}:{k}")
        if h is None:
            return None
        for idx in h.get("cancel", []):
            if r.registry:
                r.registry[idx % len(r.registry)].cancel()
        for e in h.get("crash", []):
            r.entities[e]._crashed = True
        for e in h.get("uncrash", []):
            r.entities[e]._crashed = False
        if h["shape"] == "gen":
            return self._process(uid, h)
        created = r.emit_all(now, h.get("emits", []))
        direct = r.emit_all(now, h.get("sched", []))
        if direct:
            r.sim.schedule(direct if len(direct) > 1 else direct[0])
        if h["shape"] == "none":
            return None
        if h["shape"] == "one":
            return created[0] if created else None
        out = list(reversed(created)) if h.get("rev") else created
        ru = h.get("reuse")
        if ru and r.fuel > 0 and seen_before < 2:
            r.fuel -= 1
            event.time = Instant(now + max(0, ru["dt"]))
            if ru.get("to") is not None:
                event.target = r.entities[ru["to"]]
            meta["reuse_hops"] = seen_before + 1
            out = out + [event]
        return out

    def _process(self, uid: int, h: dict):
        r = self.r
        step = 0
        my_type = r.tlog[-1][1]
        for st in h.get("steps", []):
            now = self.now.nanoseconds
            side = r.emit_all(now, st.get("emits", []))
            if side:
                if len(side) == 1 and h.get("rev"):
                    yield st["d"], side[0]
                else:
                    yield st["d"], side
            else:
                yield st["d"]
            step += 1
            self._cur_type = my_type
            self._note(uid, step, -1)
        now = self.now.nanoseconds
        created = r.emit_all(now, h.get("emits", []))
        ret = h.get("ret", "list")
        if ret == "none":
            return None
        if ret == "one":
            return created[0] if created else None
        return created
