"""C16 harness, PageCache family: scripted client processes issue overlapping
read_page / write_page / flush against the repo's real PageCache (LRU of page
ids with dirty bits, optional read-ahead, disk read/write latency > 0).

Oracles after every delivery:
  * pages_cached <= capacity_pages;
  * a dirty page never leaves the "cached and dirty" state without a disk
    write-back being accounted for it (stats.dirty_writebacks) -- "write-back
    data is never discarded before it reaches the backing store";
and at every flush completion: no page that was dirtied before the flush was
invoked (and not re-written since) is still dirty.
"""
from __future__ import annotations

import hashlib

from simkit import repo

repo.activate()

from happysimulator.components.infrastructure.page_cache import PageCache  # noqa: E402
from happysimulator.core.entity import Entity  # noqa: E402
from happysimulator.core.event import Event  # noqa: E402
from happysimulator.core.simulation import Simulation  # noqa: E402
from happysimulator.core.temporal import Instant  # noqa: E402

from simkit.c16_harness import _is_int, _need, drive, sec  # noqa: E402
from simkit.history import History  # noqa: E402
from simkit.world import Monitor, Violation  # noqa: E402

P = "C16"
PAGE_OPS = ("rd", "wr", "pflush")


def validate_page(sc: dict) -> None:
    _need(_is_int(sc.get("cap"), 1, 64), "cap")
    _need(_is_int(sc.get("ra", 0), 0, 8), "readahead")
    _need(_is_int(sc.get("n_keys"), 1, 32), "n_keys")
    lat = sc.get("lat")
    _need(isinstance(lat, dict) and _is_int(lat.get("r"), 1, 10**7) and _is_int(lat.get("w"), 1, 10**7), "lat")
    cl = sc.get("clients")
    _need(isinstance(cl, list) and 1 <= len(cl) <= 8, "clients")
    for c in cl:
        _need(isinstance(c, dict) and isinstance(c.get("ops"), list) and _is_int(c.get("t0", 0), 0), "client")
        for op in c["ops"]:
            _need(isinstance(op, dict) and op.get("o") in PAGE_OPS and _is_int(op.get("g", 0), 0, 10**8), "op")
            if op["o"] != "pflush":
                _need(_is_int(op.get("k"), 0, sc["n_keys"] - 1), "page id")


class PageClient(Entity):
    def __init__(self, world: "PageWorld", idx: int, spec: dict):
        super().__init__(f"client{idx}")
        self.w = world
        self.idx = idx
        self.spec = spec
        self.seg = None

    def handle_event(self, event):
        return self._run()

    def _run(self):
        for op in self.spec["ops"]:
            yield sec(int(op.get("g", 0)))
            yield from self.w.perform(self, op)
        self.w.live -= 1
        if self.w.live == 0 and self.w.sc.get("audit", True):
            return [Event(time=self.now + sec(self.w.settle_us), event_type="c16.audit", target=self.w.auditor)]
        return None


class PageAuditor(Entity):
    """At quiescence: flush, then the cache must hold no dirty page."""

    def __init__(self, world: "PageWorld"):
        super().__init__("auditor")
        self.w = world
        self.seg = None

    def handle_event(self, event):
        return self._run()

    def _run(self):
        yield 0.0
        yield from self.w.perform(self, {"o": "pflush"})
        self.w.audited = True
        return None


class PageWorld:
    fam = "page"

    def __init__(self, sc: dict, cap: int = 30_000):
        validate_page(sc)
        self.sc = sc
        lat = sc["lat"]
        self.pc = PageCache("pagecache", capacity_pages=int(sc["cap"]), readahead_pages=int(sc.get("ra", 0)),
                            disk_read_latency_s=sec(lat["r"]), disk_write_latency_s=sec(lat["w"]))
        self.clients = [PageClient(self, i, c) for i, c in enumerate(sc["clients"])]
        self.live = len(self.clients)
        self.auditor = PageAuditor(self)
        self.audited = False
        self.settle_us = 4 * max(lat["r"], lat["w"]) * (int(sc.get("ra", 0)) + 2) + 1
        self.sim = Simulation(entities=[self.pc, *self.clients, self.auditor])
        for c in self.clients:
            self.sim.schedule(Event(time=Instant(int(c.spec.get("t0", 0)) * 1000), event_type="c16.start", target=c))
        self.actors = {id(c): c for c in self.clients}
        self.actors[id(self.auditor)] = self.auditor
        self.mon = Monitor(self.sim, cap=cap, invariant=self._hook)
        self.hist = History(self.mon)
        self.inflight: dict[int, dict] = {}
        self.done_queue: list = []
        self.prev_dirty: set = set()
        self.prev_wb = 0
        self.prev_evictions = 0
        self.last_write: dict[int, int] = {}  # page -> stamp of the latest completed write_page
        self.last_write_rec: dict[int, dict] = {}
        self.pending_loss: list = []
        self.probes: dict[str, int] = {}
        self.counts: dict[str, int] = {}
        self.states: set = set()
        self.n_completed = 0
        self.overlap_any = False
        self.initial: dict = {}

    def probe(self, name):
        self.probes[name] = 1

    def count(self, name, n=1):
        self.counts[name] = self.counts.get(name, 0) + n

    def now_ns(self):
        return self.pc.now.nanoseconds

    def perform(self, actor, op: dict):
        kind = op["o"]
        k = op.get("k")
        rec = self.hist.invoke(actor.name, kind, key=k)
        rec["t_inv"] = self.now_ns()
        actor.seg = rec
        if self.inflight:
            self.overlap_any = True
            self.count("fault.page_operation_overlap")
        pc = self.pc
        if kind in ("rd", "wr") and k not in pc._pages and len(pc._pages) >= int(self.sc["cap"]):
            oldest = next(iter(pc._pages.values()), None)
            if oldest is not None and oldest.dirty and any(
                    o["key"] == k and {o["kind"], kind} == {"rd", "wr"} for o in self.inflight.values()):
                # a read miss and a write miss of the same page overlap while the cache is full and its LRU victim is
                # dirty: both will wait on that victim's write-back (check-then-act hazards across the wait)
                self.probe("probe.page_read_write_miss_same_page_behind_dirty_victim")
        self.inflight[rec["id"]] = rec
        if kind == "rd":
            pages = pc._pages
            if k not in pages:
                ra = int(self.sc.get("ra", 0))
                if any((k + i) in pages and pages[k + i].dirty for i in range(1, ra + 1)):
                    self.probe("probe.page_readahead_window_over_dirty_page")
                    if len(pages) + 1 < int(self.sc["cap"]):
                        self.probe("probe.page_readahead_over_dirty_page_with_room")
            gen = pc.read_page(k)
        elif kind == "wr":
            rec["hit"] = k in pc._pages
            if k in pc._pages:
                self.probe("probe.page_write_hit")
            gen = pc.write_page(k)
        else:
            rec["dirty_at_inv"] = sorted(pid for pid, p in pc._pages.items() if p.dirty)
            gen = pc.flush()
        res = yield from drive(gen)
        rec["t_ret"] = self.now_ns()
        self.hist.complete(rec, res)
        if kind == "wr":
            self.last_write[k] = rec["ret"]
            self.last_write_rec[k] = rec
        del self.inflight[rec["id"]]
        self.done_queue.append(rec)
        self.n_completed += 1
        return res

    def _hook(self, ev, mon):
        actor = self.actors.get(id(ev.target))
        seg = getattr(actor, "seg", None) if actor is not None else None
        kind = seg["kind"] if seg is not None else "other"
        pc = self.pc
        pages = pc._pages
        st = pc.stats
        dirty_now = {pid for pid, p in pages.items() if p.dirty}
        gone = self.prev_dirty - dirty_now
        paid = st.dirty_writebacks - self.prev_wb
        if len(gone) > paid:
            how = "replaced-by-clean-page" if any(g in pages for g in gone) else "evicted"
            g0 = seg["key"] if (seg is not None and seg.get("key") in gone) else sorted(gone)[0]
            if seg is not None and kind == "rd":
                # which page of the read was it, and was it written while this read was already running?
                how += "/requested-page" if g0 == seg["key"] else "/readahead-page"
                racing = any(r["kind"] == "wr" and r["key"] == g0 and r["inv"] > seg["inv"] for r in self.hist.ops)
                how += "-written-during-this-read" if racing else "-written-before-this-read"
            raise Violation(f"{P}/writeback-lost/PageCache/dirty-page-{how}-without-writeback-during-{kind}",
                            f"dirty page(s) {sorted(gone)} left the dirty state during {kind} while only {paid} disk "
                            f"write-back(s) were accounted (cached now: {list(pages)}, dirty now: {sorted(dirty_now)})")
        if gone:
            # The write-back that pays for a page leaving the dirty state occupied the device for one disk write
            # latency: it started at now - w and cannot contain a write acknowledged after that instant.
            now = self.now_ns()
            w_ns = int(self.sc["lat"]["w"]) * 1000
            started = now - w_ns
            for g in sorted(gone):
                lw = self.last_write_rec.get(g)
                if lw is not None and lw["t_ret"] > started:
                    by = "flush" if kind == "pflush" else "eviction"
                    how = "write-hit-on-the-page-being-written-back" if lw.get("hit") else "write-miss-that-re-inserted-the-page"
                    # Not a verdict yet: another write-back of the same page id, started after the write, may still be in
                    # flight (two evictors that picked the same victim); it would complete within one write latency and
                    # shows up as a write-back accounted with no page leaving the dirty state.
                    self.pending_loss.append({
                        "page": g, "ack": lw["t_ret"], "deadline": now + w_ns,
                        "sig": f"{P}/writeback-lost/PageCache/page-left-dirty-state-by-{by}-whose-writeback-predates-the-write/{how}",
                        "msg": f"page {g} was written (acknowledged at t={lw['t_ret']}ns) and left the dirty state at t={now}ns "
                               f"during {kind}; the write-back accounted for it started at t={started}ns, before that write, "
                               f"and no later write-back followed within one disk write latency: the written data never "
                               f"reached the device"})
        if paid > len(gone):
            # a write-back completed without any page leaving the dirty state: a second evictor of an already evicted
            # victim, or (since bd4f48c) an evictor / flush whose page was written again while its write-back was in flight
            self.probe("probe.page_writeback_completed_without_page_leaving_dirty_state")
        if self.pending_loss:
            now = self.now_ns()
            surplus = paid - len(gone)
            started = now - int(self.sc["lat"]["w"]) * 1000
            while surplus > 0:
                hit = next((x for x in self.pending_loss if x["ack"] <= started), None)
                if hit is None:
                    break
                self.pending_loss.remove(hit)
                self.probe("probe.page_late_duplicate_writeback_covered_write")
                surplus -= 1
            for x in self.pending_loss:
                if now > x["deadline"]:
                    raise Violation(x["sig"], x["msg"])
        if paid:
            self.count("fault.page_dirty_writeback", paid)
            if kind != "pflush":
                self.probe("probe.page_dirty_eviction_written_back")
        if pc.pages_cached > int(self.sc["cap"]):
            raise Violation(f"{P}/capacity/PageCache/size-gt-capacity",
                            f"pages_cached={pc.pages_cached} > capacity_pages={self.sc['cap']} after {kind} "
                            f"({len(self.inflight)} operation(s) in flight)")
        if st.evictions != self.prev_evictions:
            self.count("fault.page_eviction", st.evictions - self.prev_evictions)
            self.probe("probe.page_eviction")
            self.prev_evictions = st.evictions
        if st.readaheads:
            self.probe("probe.page_readahead_loaded")
        if pc.pages_cached == int(self.sc["cap"]):
            self.probe("probe.page_cache_full")
        self.prev_dirty = dirty_now
        self.prev_wb = st.dirty_writebacks
        if self.done_queue:
            q, self.done_queue = self.done_queue, []
            for rec in q:
                if rec["kind"] == "pflush":
                    self._judge_flush(rec, dirty_now)
                elif rec["kind"] == "wr":
                    self._judge_write(rec, pages)
        if len(self.states) < 96:
            kinds = ",".join(sorted(r["kind"] for r in self.inflight.values()))
            self.states.add(f"{pc.pages_cached}|d{len(dirty_now)}|{kinds}")

    def _judge_write(self, rec, pages):
        """An acknowledged write_page(P) leaves P cached and dirty (it stays so until a write-back of P is accounted,
        which the per-delivery rule above watches).  Judged in the delivery in which write_page returned."""
        pg = pages.get(rec["key"])
        if pg is None or not pg.dirty:
            state = "page-not-cached" if pg is None else "page-cached-clean"
            overl = any(o["kind"] == "rd" and o["key"] == rec["key"] and o["inv"] < rec["ret"]
                        and (o["ret"] is None or o["ret"] > rec["inv"]) for o in self.hist.ops)
            raise Violation(f"{P}/writeback-lost/PageCache/acknowledged-write-not-dirty/{state}"
                            + ("-after-overlapping-read-of-the-page" if overl else ""),
                            f"write_page({rec['key']}) invoked at t={rec['t_inv']}ns returned at t={rec['t_ret']}ns but the page "
                            f"is {state.replace('-', ' ')}: nothing will ever write it back "
                            f"(cached: {list(pages)}, dirty: {sorted(p for p, x in pages.items() if x.dirty)})")
        if rec["t_ret"] > rec["t_inv"]:
            self.probe("probe.page_write_miss_waited_for_room")
            if any(o["kind"] == "rd" and o["key"] == rec["key"] and rec["inv"] < (o["ret"] or 1 << 60) < rec["ret"]
                   for o in self.hist.ops):
                # a read of the same page completed (cached it clean) while this write miss was waiting for a
                # dirty victim's write-back
                self.probe("probe.page_read_landed_inside_write_miss_wait")

    def _judge_flush(self, rec, dirty_now):
        """Pages dirty when flush() was invoked and not written again since must be clean (or gone) when it returns."""
        left = [p for p in rec["dirty_at_inv"] if p in dirty_now and self.last_write.get(p, -1) < rec["inv"]
                and not any(r["kind"] == "wr" and r["key"] == p for r in self.inflight.values())]
        if left:
            raise Violation(f"{P}/flush-incomplete/PageCache/page-still-dirty",
                            f"flush() invoked at t={rec['t_inv']}ns returned {rec['result']} but page(s) {left}, dirty before "
                            f"the flush and not written since, are still dirty")
        if rec["result"]:
            self.probe("probe.page_flush_wrote")

    def final_checks(self):
        if self.pending_loss:
            x = self.pending_loss[0]
            raise Violation(x["sig"], x["msg"])
        if self.pc.dirty_pages:
            raise Violation(f"{P}/flush-incomplete/PageCache/dirty-after-final-flush",
                            f"{self.pc.dirty_pages} page(s) still dirty after the final flush at quiescence")

    def history_digest(self) -> str:
        h = hashlib.blake2b(digest_size=12)
        for o in self.hist.ops:
            h.update(repr((o["client"], o["kind"], o["key"], o["inv"], o["ret"], o["result"], o.get("t_inv"), o.get("t_ret"))).encode())
        h.update(self.mon.digest.encode())
        return h.hexdigest()
