"""C07 drivers, part 1: components driven by plain arrival events
(queues, servers, clients, load balancers, resilience wrappers, rate limiters,
microservice wrappers, industrial stations, scheduling, sketching collectors,
network).  Each driver = gen(rng) -> cfg (plain JSON) and build(zoo, cfg).
"""
from __future__ import annotations

from simkit.c07_zoo import NS, InvalidScenario, arrivals, check_arr, check_num, lat, lossy, ns, rel

from happysimulator.components.client.client import Client
from happysimulator.components.client.connection_pool import ConnectionPool
from happysimulator.components.client.pooled_client import PooledClient
from happysimulator.components.client.retry import DecorrelatedJitter, ExponentialBackoff, FixedRetry, NoRetry
from happysimulator.components.common import Counter as RepoCounter
from happysimulator.components.common import Sink as RepoSink
from happysimulator.components.industrial.appointment import AppointmentScheduler
from happysimulator.components.industrial.batch_processor import BatchProcessor
from happysimulator.components.industrial.breakdown import BreakdownScheduler
from happysimulator.components.industrial.conditional_router import ConditionalRouter
from happysimulator.components.industrial.conveyor import ConveyorBelt
from happysimulator.components.industrial.gate_controller import GateController
from happysimulator.components.industrial.inspection import InspectionStation
from happysimulator.components.industrial.inventory import InventoryBuffer
from happysimulator.components.industrial.perishable_inventory import PerishableInventory
from happysimulator.components.industrial.pooled_cycle import PooledCycleResource
from happysimulator.components.industrial.reneging import RenegingQueuedResource
from happysimulator.components.industrial.shift_schedule import Shift, ShiftedServer, ShiftSchedule
from happysimulator.components.industrial.split_merge import SplitMerge
from happysimulator.components.load_balancer.health_check import HealthChecker
from happysimulator.components.load_balancer.load_balancer import LoadBalancer
from happysimulator.components.load_balancer import strategies as lbs
from happysimulator.components.microservice.api_gateway import APIGateway, RouteConfig
from happysimulator.components.microservice.idempotency_store import IdempotencyStore
from happysimulator.components.microservice.outbox_relay import OutboxRelay
from happysimulator.components.microservice.saga import Saga, SagaStep
from happysimulator.components.microservice.sidecar import Sidecar
from happysimulator.components.queue import Queue
from happysimulator.components.queue_driver import QueueDriver
from happysimulator.components.queue_policy import FIFOQueue, LIFOQueue, PriorityQueue
from happysimulator.components import queue_policies as QP
from happysimulator.components.queued_resource import QueuedResource
from happysimulator.components.random_router import RandomRouter
from happysimulator.components.rate_limiter.distributed import DistributedRateLimiter
from happysimulator.components.rate_limiter.inductor import Inductor
from happysimulator.components.rate_limiter.null import NullRateLimiter
from happysimulator.components.rate_limiter.rate_limited_entity import RateLimitedEntity
from happysimulator.components.datastore.kv_store import KVStore
from happysimulator.components.resilience.bulkhead import Bulkhead
from happysimulator.components.resilience.circuit_breaker import CircuitBreaker
from happysimulator.components.resilience.fallback import Fallback
from happysimulator.components.resilience.hedge import Hedge
from happysimulator.components.resilience.timeout import TimeoutWrapper
from happysimulator.components.scheduling.job_scheduler import JobDefinition, JobScheduler
from happysimulator.components.scheduling.work_stealing_pool import WorkStealingPool
from happysimulator.components.server.async_server import AsyncServer
from happysimulator.components.server.concurrency import DynamicConcurrency, FixedConcurrency, WeightedConcurrency
from happysimulator.components.server.server import Server
from happysimulator.components.server.thread_pool import ThreadPool
from happysimulator.distributions.constant import ConstantLatency

DRIVERS: dict = {}


def driver(name, classes):
    def deco(pair):
        gen, build = pair()
        DRIVERS[name] = {"name": name, "classes": list(classes), "gen": gen, "build": build}
        return pair
    return deco


# --------------------------------------------------------------------------
# shared pieces
# --------------------------------------------------------------------------

def svc_times(rng, slow=None, n=6):
    """Per-request backend service times: zeros, decimals, occasionally slower than `slow`."""
    out = []
    for _ in range(n):
        r = rng.random()
        if r < 0.2:
            out.append(0.0)
        elif slow is not None and r < 0.45:
            out.append(round(slow * rng.choice([1.0, 1.5, 3.0]), 6))
        else:
            out.append(lat(rng, zero_p=0.0, hi=0.08))
    return out


def flow_cfg(rng, marks=(), n=None, span=None):
    n = n or rng.randint(6, 36)
    span = span or rng.choice([0.2, 1.0, 3.0])
    arr, tags = arrivals(rng, n, span, marks)
    return {"arr": arr, "tags": tags}


def horizon(cfg, extra_s):
    arr = check_arr(cfg["arr"])
    last = max([(a[0] if isinstance(a, list) else a) for a in arr], default=0)
    return last + ns(check_num(extra_s, 0, 1e5)) + 1


def feed(z, cfg, target, etype="req", ctx_fn=None):
    """Schedule every arrival as one harness event to `target`."""
    for i, t in enumerate(check_arr(cfg["arr"])):
        ctx = ctx_fn(i) if ctx_fn else {"metadata": {"i": i}}
        z.at(t, target, etype, ctx)
    for tag in cfg.get("tags", []):
        z.probe(f"probe.arr_{tag}")


def policy_of(spec):
    t = spec.get("type", "fifo")
    cap = spec.get("cap")
    fcap = float("inf") if cap is None else check_num(cap, 0, 10**6)
    if t == "fifo":
        return FIFOQueue(capacity=fcap)
    if t == "lifo":
        return LIFOQueue(capacity=fcap)
    idx = lambda e: (e.context.get("metadata") or {}).get("i", 0)  # noqa: E731
    if t == "prio":
        return PriorityQueue(capacity=fcap, key=lambda e: idx(e) % 3)
    clock = spec.get("_clock")           # injected by policy_for(z, spec): the simulated clock, never the wall clock
    if t == "deadline":
        from happysimulator.core.temporal import Instant as _I
        return QP.DeadlineQueue(get_deadline=lambda e: _I(e.time.nanoseconds + (idx(e) % 4) * 5_000_000), capacity=cap, clock_func=clock)
    if t == "codel":
        return QP.CoDelQueue(target_delay=0.005, interval=0.05, capacity=cap, clock_func=clock)
    if t == "alifo":
        return QP.AdaptiveLIFO(congestion_threshold=2, capacity=cap)
    if t == "red":
        return QP.REDQueue(min_threshold=1, max_threshold=4, max_probability=0.5, capacity=None if cap is None else max(int(cap), 4))
    if t == "fair":
        return QP.FairQueue(get_flow_id=lambda e: f"f{idx(e) % 2}", per_flow_capacity=cap)
    if t == "wfq":
        return QP.WeightedFairQueue(get_flow_id=lambda e: f"f{idx(e) % 2}", get_weight=lambda f: 1 + (f == "f1"), capacity=cap)
    raise InvalidScenario("policy")


def policy_for(z, spec):
    """policy_of with the simulated clock for the time-aware policies (CoDel, Deadline)."""
    if spec is None:
        return None
    return policy_of(dict(spec, _clock=lambda: z.now))


def gen_policy(rng):
    return {"type": rng.choice(["fifo", "fifo", "lifo", "prio", "deadline", "codel", "alifo", "red", "fair", "wfq"]),
            "cap": rng.choice([None, None, 1, 2, 5])}


def retry_of(spec):
    t = spec.get("type", "none")
    if t == "none":
        return NoRetry()
    if t == "fixed":
        return FixedRetry(max_attempts=int(spec["max"]), delay=check_num(spec["delay"]))
    if t == "exp":
        return ExponentialBackoff(max_attempts=int(spec["max"]), initial_delay=check_num(spec["delay"], 1e-9),
                                  max_delay=check_num(spec["max_delay"], 1e-9), multiplier=spec.get("mult", 2.0),
                                  jitter=check_num(spec.get("jitter", 0.0)))
    if t == "decor":
        return DecorrelatedJitter(max_attempts=int(spec["max"]), base_delay=check_num(spec["delay"], 1e-9),
                                  max_delay=check_num(spec["max_delay"], 1e-9))
    raise InvalidScenario("retry")


def gen_retry(rng):
    t = rng.choice(["none", "fixed", "fixed", "exp", "decor"])
    d = lat(rng, zero_p=0.0, hi=0.05)
    if t == "fixed":
        return {"type": t, "max": rng.randint(1, 4), "delay": rng.choice([0.0, 0.0, d])}
    if t == "exp":
        return {"type": t, "max": rng.randint(1, 4), "delay": d, "max_delay": d * rng.choice([1, 4]),
                "mult": rng.choice([1.0, 2.0]), "jitter": rng.choice([0.0, 0.01])}
    if t == "decor":
        return {"type": t, "max": rng.randint(1, 4), "delay": d, "max_delay": d * rng.choice([1, 3])}
    return {"type": "none"}


def retry_marks(spec):
    return [spec["delay"]] if spec.get("type") in ("fixed", "exp") else []


# --------------------------------------------------------------------------
# queues / servers
# --------------------------------------------------------------------------

@driver("Queue", ["Queue", "QueueDriver"])
def _queue():
    def gen(rng):
        c = flow_cfg(rng)
        c.update(policy=gen_policy(rng), svc=svc_times(rng), cap=rng.choice([1, 1, 2, 3]))
        return c

    def build(z, c):
        sink = z.sink()
        worker = z.svc("worker", c["svc"], forward=sink, capacity=int(c["cap"]))
        q = Queue(name="q", egress=None, policy=policy_for(z, c["policy"]))
        d = QueueDriver(name="qd", queue=q, target=worker)
        q.egress = d
        z.add(q, d)
        feed(z, c, q)
        z.horizon_ns = horizon(c, 5 + sum(c["svc"]) * 10)
    return gen, build


class _EchoResource(QueuedResource):
    """Concrete subclass of the abstract QueuedResource (harness-side; the
    queue/driver/worker-adapter plumbing that runs is the repo's)."""

    def __init__(self, name, times, downstream):
        super().__init__(name, policy=FIFOQueue())
        self.times, self.k, self.downstream, self.busy = times, 0, downstream, 0

    def has_capacity(self):
        return self.busy < 1

    def handle_queued_event(self, event):
        t = self.times[self.k % len(self.times)]
        self.k += 1
        self.busy += 1
        try:
            yield t
        finally:
            self.busy -= 1
        return [self.forward(event, self.downstream)]


@driver("QueuedResource", ["QueuedResource", "_QueuedResourceWorkerAdapter"])
def _qr():
    def gen(rng):
        c = flow_cfg(rng)
        c.update(svc=svc_times(rng))
        return c

    def build(z, c):
        sink = z.sink()
        r = z.add(_EchoResource("qr", [check_num(x) for x in c["svc"]], sink))
        z.touch("QueuedResource")
        feed(z, c, r)
        z.horizon_ns = horizon(c, 5 + sum(c["svc"]) * 10)
    return gen, build


def conc_of(spec):
    t = spec.get("type", "fixed")
    if t == "fixed":
        return int(spec.get("n", 1))
    if t == "dynamic":
        return DynamicConcurrency(initial=int(spec["n"]), min_limit=1, max_limit=int(spec["n"]) + 2)
    if t == "weighted":
        return WeightedConcurrency(total_capacity=int(spec["n"]))
    raise InvalidScenario("concurrency")


@driver("Server", ["Server"])
def _server():
    def gen(rng):
        c = flow_cfg(rng)
        st = lat(rng, hi=0.1)
        c.update(conc={"type": rng.choice(["fixed", "dynamic", "weighted", "weighted"]), "n": rng.randint(1, 5)},
                 st=st, qcap=rng.choice([None, 0, 1, 3]), policy=rng.choice([None, gen_policy(rng)]),
                 weights=[rng.randint(1, 3) for _ in range(5)], relimit=[rng.randint(1, 6) for _ in range(3)])
        c["arr"], c["tags"] = arrivals(rng, len(c["arr"]), 1.0, [st])
        return c

    def build(z, c):
        sink = z.sink()
        pol = policy_for(z, c.get("policy"))
        model = conc_of(c["conc"])
        s = Server("server", concurrency=model, service_time=ConstantLatency(check_num(c["st"])),
                   queue_policy=pol, queue_capacity=c.get("qcap"), downstream=sink)
        z.add(s)
        cap = int(c["conc"].get("n", 1))
        ws = [int(w) for w in c.get("weights") or [1]]
        if any(w < 1 or w > 8 for w in ws):
            raise InvalidScenario("weights")
        # mixed request weights (never more than the whole pool): a heavy request can meet a partly used pool
        feed(z, c, s, ctx_fn=lambda i: {"metadata": {"i": i, "weight": min(ws[i % len(ws)], cap) if c["conc"]["type"] == "weighted" else 1}})
        if c["conc"]["type"] == "dynamic" and c.get("relimit"):
            act = z.actor("operator")
            arr = check_arr(c["arr"])
            for k, lim in enumerate(c["relimit"]):
                at = arr[(k + 1) * len(arr) // (len(c["relimit"]) + 1)] if arr else 0
                z.run_at(at, act, lambda lim=lim: (z.touch(s), model.set_limit(max(1, min(int(lim), cap + 2))), None)[2])
        z.horizon_ns = horizon(c, 5 + c["st"] * (len(c["arr"]) + 2))
    return gen, build


@driver("ThreadPool", ["ThreadPool"])
def _threadpool():
    def gen(rng):
        c = flow_cfg(rng)
        c.update(workers=rng.randint(1, 3), qcap=rng.choice([None, 1, 4]), pts=svc_times(rng), dflt=lat(rng, hi=0.05),
                 policy=rng.choice([None, None, gen_policy(rng)]))
        return c

    def build(z, c):
        tp = z.add(ThreadPool("tp", num_workers=int(c["workers"]), queue_capacity=c.get("qcap"),
                              queue_policy=policy_for(z, c.get("policy")),
                              default_processing_time=check_num(c["dflt"])))
        pts = [check_num(x) for x in c["pts"]]

        def ctx(i):
            md = {"i": i}
            if i % 3:
                md["processing_time"] = pts[i % len(pts)]
            return {"metadata": md}
        feed(z, c, tp, "task", ctx)
        z.horizon_ns = horizon(c, 5 + (sum(pts) + c["dflt"]) * len(c["arr"]))
    return gen, build


@driver("AsyncServer", ["AsyncServer"])
def _asyncserver():
    def gen(rng):
        c = flow_cfg(rng)
        c.update(maxc=rng.choice([1, 2, 5, 100]), cpu=lat(rng, hi=0.03), io=rng.choice(["none", "gen", "gen", "event"]),
                 io_t=svc_times(rng, n=4))
        return c

    def build(z, c):
        sink = z.sink()
        io_t = [check_num(x) for x in c["io_t"]]
        k = [0]

        def io_gen(ev):
            t = io_t[k[0] % len(io_t)]
            k[0] += 1
            yield t
            return z.ev(sink, "io_done", {"metadata": {}})

        def io_event(ev):
            return z.ev(sink, "io_done", {"metadata": {}})

        handler = {"none": None, "gen": io_gen, "event": io_event}[c["io"]]
        a = z.add(AsyncServer("async", max_connections=int(c["maxc"]),
                              cpu_work_distribution=ConstantLatency(check_num(c["cpu"])), io_handler=handler))
        feed(z, c, a)
        z.horizon_ns = horizon(c, 5 + (c["cpu"] + max(io_t)) * (len(c["arr"]) + 2))
    return gen, build


@driver("WorkStealingPool", ["WorkStealingPool", "_Worker"])
def _wsp():
    def gen(rng):
        c = flow_cfg(rng)
        c.update(workers=rng.randint(1, 4), pts=svc_times(rng), dflt=lat(rng, hi=0.05))
        return c

    def build(z, c):
        sink = z.sink()
        p = z.add(WorkStealingPool("wsp", num_workers=int(c["workers"]), downstream=sink,
                                   default_processing_time=check_num(c["dflt"])))
        for w in p.workers:
            z.add(w)
        pts = [check_num(x) for x in c["pts"]]
        feed(z, c, p, "task", lambda i: {"metadata": ({"processing_time": pts[i % len(pts)]} if i % 2 else {})})
        z.horizon_ns = horizon(c, 5 + (sum(pts) + c["dflt"]) * len(c["arr"]))
    return gen, build


@driver("Sinks", ["Sink", "Counter", "RandomRouter", "ConditionalRouter"])
def _sinks():
    def gen(rng):
        c = flow_cfg(rng)
        c.update(drop=rng.random() < 0.5)
        return c

    def build(z, c):
        s, cnt, s2 = z.add(RepoSink("rsink")), z.add(RepoCounter("rcounter")), z.add(RepoSink("rsink2"))
        rr = z.add(RandomRouter("rr", targets=[s, cnt, s2]))
        cr = z.add(ConditionalRouter("cr", routes=[(lambda e: e.context["metadata"]["i"] % 3 == 0, s),
                                                   (lambda e: e.context["metadata"]["i"] % 3 == 1, rr)],
                                     default=None if c["drop"] else cnt, drop_unmatched=bool(c["drop"])))
        feed(z, c, cr)
        z.horizon_ns = horizon(c, 1)
    return gen, build


# --------------------------------------------------------------------------
# clients
# --------------------------------------------------------------------------

@driver("Client", ["Client"])
def _client():
    def gen(rng):
        to = rng.choice([None, lat(rng, zero_p=0.3, hi=0.1)])
        rp = gen_retry(rng)
        c = flow_cfg(rng, marks=[to] + retry_marks(rp))
        c.update(timeout=to, retry=rp, svc=svc_times(rng, slow=to), real_server=rng.random() < 0.4)
        if rng.random() < 0.3:
            # retry storm: every request times out (backend slower than the timeout), retried with ZERO back-off, so
            # many retry events are stamped "now + 0" at decimal timeout instants (4.1 s, 0.1*k s ...)
            to = rng.choice([0.1, 0.1 * rng.randint(2, 9), 0.01, 0.07, 0.57, lat(rng, zero_p=0.0, hi=0.3)])
            c.update(timeout=to, retry={"type": "fixed", "max": rng.randint(2, 4), "delay": 0.0}, real_server=False,
                     svc=[round(to * rng.choice([1.5, 2.0, 4.0]), 6) for _ in range(3)])
            c["arr"], c["tags"] = arrivals(rng, rng.randint(12, 36), rng.choice([0.5, 2.0, 4.0]), [to, 0.1, 1.0])
            c["tags"] = c["tags"] + ["retry_storm"]
        return c

    def build(z, c):
        if c["real_server"]:
            backend = z.add(Server("backend", concurrency=1, service_time=ConstantLatency(check_num(max(c["svc"])))))
        else:
            backend = z.svc("backend", c["svc"])
        cl = z.add(Client("client", target=backend, timeout=c["timeout"], retry_policy=retry_of(c["retry"])))
        arr = check_arr(c["arr"])

        def first():
            evs = []
            for i, t in enumerate(arr):
                e = cl.send_request(payload=i)
                e.time = type(e.time)(z.t0_ns + t)
                evs.append(e)
            return evs
        z.after_init(first)
        for tag in c.get("tags", []):
            z.probe(f"probe.arr_{tag}")
        z.horizon_ns = horizon(c, 5 + (max(c["svc"]) + (c["timeout"] or 0)) * 6 * len(arr) / 4)
    return gen, build


@driver("PooledClient", ["PooledClient", "ConnectionPool"])
def _pooled():
    def gen(rng):
        to = rng.choice([None, lat(rng, zero_p=0.0, hi=0.08)])
        rp = gen_retry(rng)
        idle = rng.choice([0.004, 0.01, 0.05, 1.0, 60.0, lossy(rng, 0.01, 0.2)])
        ct = rng.choice([0.05, 0.2, 1.0])
        c = flow_cfg(rng, marks=[to, idle, ct] + retry_marks(rp), n=rng.randint(5, 24))
        c.update(timeout=to, retry=rp, svc=svc_times(rng, slow=to), minc=rng.choice([0, 0, 1, 2, 3]),
                 maxc=rng.choice([1, 2, 3]), ctimeout=ct, idle=idle, clat=lat(rng, hi=0.03), warm=rng.random() < 0.5)
        c["maxc"] = max(c["maxc"], c["minc"], 1)
        return c

    def build(z, c):
        backend = z.svc("backend", c["svc"])
        pool = z.add(ConnectionPool("pool", target=backend, min_connections=int(c["minc"]),
                                    max_connections=int(c["maxc"]), connection_timeout=check_num(c["ctimeout"], 1e-6),
                                    idle_timeout=check_num(c["idle"], 1e-6),
                                    connection_latency=ConstantLatency(check_num(c["clat"]))))
        cl = z.add(PooledClient("pclient", connection_pool=pool, timeout=c["timeout"], retry_policy=retry_of(c["retry"])))
        arr = check_arr(c["arr"])

        def first():
            evs = []
            if c["warm"]:
                evs.append(pool.warmup())
            for i, t in enumerate(arr):
                e = cl.send_request(payload=i)
                e.time = type(e.time)(z.t0_ns + t)
                evs.append(e)
            return evs
        z.after_init(first)
        for tag in c.get("tags", []):
            z.probe(f"probe.arr_{tag}")
        z.horizon_ns = horizon(c, 1 + c["ctimeout"] * 2 + (max(c["svc"]) + (c["timeout"] or 0)) * 2 * len(arr))
    return gen, build


# --------------------------------------------------------------------------
# load balancer / health check
# --------------------------------------------------------------------------

LB_STRATS = ["RoundRobin", "WeightedRoundRobin", "Random", "LeastConnections", "WeightedLeastConnections",
             "LeastResponseTime", "IPHash", "ConsistentHash", "PowerOfTwoChoices"]


def strat_of(name):
    cls = getattr(lbs, name, None)
    if cls is None:
        raise InvalidScenario("strategy")
    return cls()


@driver("LoadBalancer", ["LoadBalancer", "HealthChecker"])
def _lb():
    def gen(rng):
        interval = rng.choice([0.05, 0.1, 0.5, 1.01])
        hto = round(interval * rng.choice([0.2, 0.5, 0.9]), 6)
        c = flow_cfg(rng, marks=[interval, hto])
        c.update(strategy=rng.choice(LB_STRATS), nb=rng.randint(1, 4), svc=svc_times(rng, slow=hto),
                 interval=interval, hto=hto, hth=rng.randint(1, 2), uth=rng.randint(1, 3), hc=rng.random() < 0.7,
                 real=rng.random() < 0.3, on_none=rng.choice(["reject", "queue"]),
                 weights=rng.choice([None, [rng.choice([1, 1, 2, 5, 100]) for _ in range(4)]]))
        return c

    def build(z, c):
        nb = int(c["nb"])
        if nb < 1 or nb > 8:
            raise InvalidScenario("nb")
        backends = []
        for i in range(nb):
            times = c["svc"][i % len(c["svc"]):] + c["svc"][: i % len(c["svc"])]
            if c["real"] and i == 0:
                backends.append(z.add(Server(f"be{i}", concurrency=1,
                                             service_time=ConstantLatency(check_num(max(c["svc"]))))))
            else:
                backends.append(z.svc(f"be{i}", times))
        lb = z.add(LoadBalancer("lb", backends=backends, strategy=strat_of(c["strategy"]), on_no_backend=c.get("on_none", "reject")))
        if c.get("weights"):
            for b, w in zip(backends, c["weights"]):
                lb.add_backend(b, weight=int(w))
        feed(z, c, lb, ctx_fn=lambda i: {"metadata": {"i": i, "client_ip": f"10.0.0.{i % 5}", "key": f"k{i % 7}"}})
        if c["hc"]:
            hc = z.add(HealthChecker("hc", load_balancer=lb, interval=check_num(c["interval"], 1e-6),
                                     timeout=check_num(c["hto"], 1e-6), healthy_threshold=int(c["hth"]),
                                     unhealthy_threshold=int(c["uth"])))
            z.after_init(lambda: hc.start())
        z.horizon_ns = horizon(c, 3 + c["interval"] * 6 + max(c["svc"]) * 4)
    return gen, build


# --------------------------------------------------------------------------
# resilience wrappers
# --------------------------------------------------------------------------

def _backend(z, c, name="backend"):
    if c.get("real"):
        return z.add(Server(name, concurrency=int(c.get("real_conc", 1)),
                            service_time=ConstantLatency(check_num(max(c["svc"])))))
    return z.svc(name, c["svc"])


@driver("CircuitBreaker", ["CircuitBreaker"])
def _cb():
    def gen(rng):
        to = lat(rng, zero_p=0.0, hi=0.3)
        c = flow_cfg(rng, marks=[to])
        c.update(ft=rng.randint(1, 3), st=rng.randint(1, 2), timeout=to, hmax=rng.randint(1, 2),
                 svc=svc_times(rng), fail_mod=rng.choice([0, 2, 3]), real=rng.random() < 0.3)
        return c

    def build(z, c):
        be = _backend(z, c)
        fm = int(c["fail_mod"])
        pred = (lambda e: (e.context.get("metadata") or {}).get("i", 0) % fm == 0) if fm else None
        cb = z.add(CircuitBreaker("cb", target=be, failure_threshold=int(c["ft"]), success_threshold=int(c["st"]),
                                  timeout=check_num(c["timeout"], 1e-6), half_open_max_requests=int(c["hmax"]),
                                  failure_predicate=pred))
        feed(z, c, cb)
        z.horizon_ns = horizon(c, 3 + c["timeout"] * 3 + max(c["svc"]) * len(c["arr"]))
    return gen, build


@driver("Bulkhead", ["Bulkhead"])
def _bh():
    def gen(rng):
        wt = rng.choice([None, lat(rng, zero_p=0.0, hi=0.1)])
        c = flow_cfg(rng, marks=[wt])
        c.update(maxc=rng.randint(1, 3), wq=rng.choice([0, 1, 3, 10]), wt=wt, svc=svc_times(rng, slow=wt),
                 real=rng.random() < 0.3)
        return c

    def build(z, c):
        be = _backend(z, c)
        bh = z.add(Bulkhead("bh", target=be, max_concurrent=int(c["maxc"]), max_wait_queue=int(c["wq"]),
                            max_wait_time=c["wt"]))
        feed(z, c, bh)
        z.horizon_ns = horizon(c, 3 + (c["wt"] or 0) * 3 + max(c["svc"]) * len(c["arr"]))
    return gen, build


@driver("TimeoutWrapper", ["TimeoutWrapper"])
def _tw():
    def gen(rng):
        to = lat(rng, zero_p=0.0, hi=0.1)
        c = flow_cfg(rng, marks=[to])
        c.update(timeout=to, svc=svc_times(rng, slow=to), cb=rng.random() < 0.5, real=rng.random() < 0.3)
        return c

    def build(z, c):
        be = _backend(z, c)
        sink = z.sink()
        cb = (lambda ev: z.ev(sink, "timed_out", {"metadata": {}})) if c["cb"] else None
        tw = z.add(TimeoutWrapper("tw", target=be, timeout=check_num(c["timeout"], 1e-6), on_timeout=cb))
        feed(z, c, tw)
        z.horizon_ns = horizon(c, 3 + c["timeout"] * 3 + max(c["svc"]) * len(c["arr"]))
    return gen, build


@driver("Hedge", ["Hedge"])
def _hedge():
    def gen(rng):
        hd = lat(rng, zero_p=0.0, hi=0.05)
        c = flow_cfg(rng, marks=[hd])
        c.update(delay=hd, maxh=rng.randint(1, 3), svc=svc_times(rng, slow=hd), real=rng.random() < 0.3)
        return c

    def build(z, c):
        be = _backend(z, c)
        h = z.add(Hedge("hedge", target=be, hedge_delay=check_num(c["delay"], 1e-6), max_hedges=int(c["maxh"])))
        feed(z, c, h)
        z.horizon_ns = horizon(c, 3 + c["delay"] * 5 + max(c["svc"]) * 4 * len(c["arr"]))
    return gen, build


@driver("Fallback", ["Fallback"])
def _fallback():
    def gen(rng):
        to = rng.choice([None, lat(rng, zero_p=0.0, hi=0.1)])
        c = flow_cfg(rng, marks=[to])
        c.update(timeout=to, svc=svc_times(rng, slow=to), svc2=svc_times(rng), fb=rng.choice(["entity", "callable"]),
                 fail_mod=rng.choice([0, 2, 3]), real=rng.random() < 0.3)
        return c

    def build(z, c):
        be = _backend(z, c, "primary")
        sink = z.sink()
        fbe = z.svc("secondary", c["svc2"]) if c["fb"] == "entity" else (lambda ev: z.ev(sink, "fb", {"metadata": {}}))
        fm = int(c["fail_mod"])
        pred = (lambda e: (e.context.get("metadata") or {}).get("i", 0) % fm == 0) if fm else None
        f = z.add(Fallback("fallback", primary=be, fallback=fbe, failure_predicate=pred, timeout=c["timeout"]))
        feed(z, c, f)
        z.horizon_ns = horizon(c, 3 + (c["timeout"] or 0) * 3 + (max(c["svc"]) + max(c["svc2"])) * len(c["arr"]))
    return gen, build


# --------------------------------------------------------------------------
# rate limiters
# --------------------------------------------------------------------------

def gen_rl_policy(rng):
    t = rng.choice(["token", "leaky", "leaky", "sliding", "fixed", "adaptive"])
    if t == "token":
        cap = rng.choice([1.0, 2.0, 5.0])
        return {"type": t, "capacity": cap, "rate": rng.choice([1.0, 3.0, 6.0, 7.0, 30.0, 10.0, 100.0]),
                "initial": rng.choice([None, 0.0, cap])}
    if t == "leaky":
        # leak rates whose interval 1/rate is truncated in nanoseconds (3, 6, 7, 9, 30, 60 ... per second) and exact ones
        return {"type": t, "rate": rng.choice([3.0, 6.0, 7.0, 9.0, 30.0, 60.0, 150.0, 300.0, 1.0, 10.0, 100.0])}
    if t in ("sliding", "fixed"):
        return {"type": t, "window": rng.choice([0.01, 0.05, 0.1, 0.3, 0.7, 1.0]), "max": rng.randint(1, 4),
                "n": rng.randint(1, 4)}
    return {"type": t, "window": rng.choice([0.5, 1.0]), "min": 2.0, "max": 20.0, "initial": rng.choice([2.0, 10.0]),
            "step": rng.choice([None, 1.0]), "factor": 0.5}


def rl_marks(p):
    if p["type"] in ("sliding", "fixed", "adaptive"):
        return [p["window"]]
    return [1.0 / p["rate"]]


@driver("RateLimitedEntity", ["RateLimitedEntity", "NullRateLimiter"])
def _rl():
    def gen(rng):
        p = gen_rl_policy(rng)
        c = flow_cfg(rng, marks=rl_marks(p), span=rng.choice([0.05, 0.3, 1.0]))
        c.update(policy=p, qcap=rng.choice([0, 1, 5, 1000]), null_first=rng.random() < 0.6)
        if p["type"] in ("leaky", "token") and rng.random() < 0.7:
            # a burst above the rate with room in the queue: requests are queued and the entity polls the policy at
            # exactly the instant the policy announced
            c["qcap"] = rng.choice([5, 1000])
            c["arr"], c["tags"] = arrivals(rng, rng.randint(10, 30), rng.choice([0.02, 0.1]), rl_marks(p))
            c["tags"] = c["tags"] + ["burst_above_rate"]
        return c

    def build(z, c):
        from simkit.c10_model import build_policy
        pol, _ = build_policy(c["policy"])
        sink = z.sink()
        rl = z.add(RateLimitedEntity("rl", downstream=sink, policy=pol, queue_capacity=int(c["qcap"])))
        head = z.add(NullRateLimiter("nullrl", downstream=rl)) if c["null_first"] else rl
        feed(z, c, head)
        z.horizon_ns = horizon(c, 3 + 3 * len(c["arr"]) * max(rl_marks(c["policy"])))
    return gen, build


@driver("Inductor", ["Inductor"])
def _inductor():
    def gen(rng):
        tau = rng.choice([0.0, 0.01, 0.1, 1.0])
        c = flow_cfg(rng, marks=[tau], span=rng.choice([0.05, 0.3, 1.0]))
        c.update(tau=tau, qcap=rng.choice([0, 1, 5, 10000]))
        return c

    def build(z, c):
        sink = z.sink()
        ind = z.add(Inductor("inductor", downstream=sink, time_constant=check_num(c["tau"]), queue_capacity=int(c["qcap"])))
        feed(z, c, ind)
        z.horizon_ns = horizon(c, 10)
    return gen, build


@driver("DistributedRateLimiter", ["DistributedRateLimiter"])
def _drl():
    def gen(rng):
        w = rng.choice([0.05, 0.1, 0.3, 1.0])
        c = flow_cfg(rng, marks=[w], span=rng.choice([0.05, 0.3, 1.0]))
        c.update(limit=rng.randint(1, 8), window=w, rlat=lat(rng, hi=0.02), wlat=lat(rng, hi=0.02),
                 thr=rng.choice([0.5, 0.8, 1.0]), two=rng.random() < 0.4)
        return c

    def build(z, c):
        sink = z.sink()
        store = z.add(KVStore("rlstore", read_latency=check_num(c["rlat"]), write_latency=check_num(c["wlat"])))
        lims = [z.add(DistributedRateLimiter(f"drl{i}", downstream=sink, backing_store=store, global_limit=int(c["limit"]),
                                             window_size=check_num(c["window"], 1e-6), local_threshold=c["thr"]))
                for i in range(2 if c["two"] else 1)]
        for i, t in enumerate(check_arr(c["arr"])):
            z.at(t, lims[i % len(lims)], "req", {"metadata": {"i": i}})
        for tag in c.get("tags", []):
            z.probe(f"probe.arr_{tag}")
        z.horizon_ns = horizon(c, 3 + (c["rlat"] + c["wlat"]) * len(c["arr"]))
    return gen, build


# --------------------------------------------------------------------------
# microservice
# --------------------------------------------------------------------------

@driver("APIGateway", ["APIGateway"])
def _gw():
    def gen(rng):
        to = rng.choice([None, lat(rng, zero_p=0.0, hi=0.1), lat(rng, zero_p=0.0, hi=0.1), lat(rng, zero_p=0.0, hi=0.03)])
        al = lat(rng, hi=0.01)
        c = flow_cfg(rng, marks=[to, al])
        if to is not None and rng.random() < 0.6:
            al = rel(rng, to, (1.0, 1.5, 3.0))        # authentication takes as long as / longer than the route's timeout
        c.update(timeout=to, auth=al, fail=rng.choice([0.0, 0.0, 0.3]), svc=svc_times(rng, slow=to),
                 rl=rng.choice([None, gen_rl_policy(rng)]), nb=rng.randint(0, 3))
        return c

    def build(z, c):
        from simkit.c10_model import build_policy
        bes = [z.svc(f"be{i}", c["svc"][i % len(c["svc"]):] + c["svc"][: i % len(c["svc"])]) for i in range(int(c["nb"]))]
        pol = build_policy(c["rl"])[0] if c.get("rl") else None
        routes = {"a": RouteConfig(name="a", backends=bes, rate_limit_policy=pol, auth_required=True, timeout=c["timeout"]),
                  "b": RouteConfig(name="b", backends=bes[:1], auth_required=False, timeout=c["timeout"])}
        gw = z.add(APIGateway("gw", routes=routes, auth_latency=check_num(c["auth"]), auth_failure_rate=c["fail"]))
        feed(z, c, gw, ctx_fn=lambda i: {"metadata": {"i": i, "route": ["a", "b", "a", "zzz"][i % 4]}})
        z.horizon_ns = horizon(c, 3 + (c["timeout"] or 0) * 2 + max(c["svc"]) * len(c["arr"]))
    return gen, build


@driver("IdempotencyStore", ["IdempotencyStore"])
def _idem():
    def gen(rng):
        ttl = lat(rng, zero_p=0.0, hi=0.5)
        ci = lat(rng, zero_p=0.0, hi=0.3)
        c = flow_cfg(rng, marks=[ttl, ci])
        c.update(ttl=ttl, cleanup=ci, maxe=rng.choice([1, 2, 100]), svc=svc_times(rng), keys=rng.randint(1, 5))
        return c

    def build(z, c):
        be = z.svc("backend", c["svc"])
        nk = int(c["keys"])
        s = z.add(IdempotencyStore("idem", target=be, key_extractor=lambda e: e.context["metadata"].get("key"),
                                   ttl=check_num(c["ttl"], 1e-6), max_entries=int(c["maxe"]),
                                   cleanup_interval=check_num(c["cleanup"], 1e-6)))
        feed(z, c, s, ctx_fn=lambda i: {"metadata": {"i": i, "key": None if i % 7 == 6 else f"k{i % nk}"}})
        z.horizon_ns = horizon(c, 3 + c["ttl"] * 3 + c["cleanup"] * 3 + max(c["svc"]) * 3)
    return gen, build


@driver("OutboxRelay", ["OutboxRelay"])
def _outbox():
    def gen(rng):
        pi = lat(rng, zero_p=0.0, hi=0.2)
        rl = lat(rng, zero_p=0.5, hi=0.01)
        c = flow_cfg(rng, marks=[pi, rl])
        c.update(poll=pi, batch=rng.choice([1, 2, 5, 100]), relay=rl, prime=rng.random() < 0.5, via=rng.choice(["write", "event"]))
        return c

    def build(z, c):
        sink = z.sink()
        ob = z.add(OutboxRelay("outbox", downstream=sink, poll_interval=check_num(c["poll"], 1e-6),
                               batch_size=int(c["batch"]), relay_latency=check_num(c["relay"])))
        act = z.actor()

        def w(i):
            z.touch(ob)
            ob.write({"i": i})
            if c["via"] == "event":      # any non-poll event primes the poll loop
                return [z.ev(ob, "kick", {"metadata": {"i": i}})]
            return None
        for i, t in enumerate(check_arr(c["arr"])):
            z.run_at(t, act, w, i)
        for tag in c.get("tags", []):
            z.probe(f"probe.arr_{tag}")
        if c["prime"] or c["via"] == "write":
            z.after_init(lambda: ob.prime_poll())
        z.horizon_ns = horizon(c, 3 + c["poll"] * 5 + c["relay"] * len(c["arr"]) * 2)
    return gen, build


@driver("Saga", ["Saga"])
def _saga():
    def gen(rng):
        to = rng.choice([None, lat(rng, zero_p=0.0, hi=0.1)])
        c = flow_cfg(rng, marks=[to], n=rng.randint(3, 16))
        c.update(nsteps=rng.randint(1, 4), timeout=to, svc=svc_times(rng, slow=to), comp=svc_times(rng, n=3))
        return c

    def build(z, c):
        nst = int(c["nsteps"])
        if not 1 <= nst <= 6:
            raise InvalidScenario("nsteps")
        steps = []
        for i in range(nst):
            a = z.svc(f"act{i}", c["svc"][i % len(c["svc"]):] + c["svc"][: i % len(c["svc"])])
            k = z.svc(f"comp{i}", c["comp"])
            steps.append(SagaStep(name=f"s{i}", action_target=a, action_event_type="do", compensation_target=k,
                                  compensation_event_type="undo", timeout=c["timeout"]))
        sg = z.add(Saga("saga", steps=steps))
        feed(z, c, sg, "start", lambda i: {"metadata": {"i": i}, "payload": i})
        z.horizon_ns = horizon(c, 3 + ((c["timeout"] or 0) + max(c["svc"]) + max(c["comp"])) * nst * 2)
    return gen, build


@driver("Sidecar", ["Sidecar"])
def _sidecar():
    def gen(rng):
        rto = lat(rng, zero_p=0.0, hi=0.08)
        cto = lat(rng, zero_p=0.0, hi=0.3)
        rbd = rng.choice([0.0, 0.0, lat(rng, zero_p=0.0, hi=0.02)])
        c = flow_cfg(rng, marks=[rto, cto, rbd])
        c.update(rto=rto, cto=cto, retries=rng.randint(0, 3), rbd=rbd, cft=rng.randint(1, 3), cst=rng.randint(1, 2),
                 svc=svc_times(rng, slow=rto), rl=rng.choice([None, gen_rl_policy(rng)]))
        if rng.random() < 0.3:       # every request times out and is retried with zero base delay
            c.update(rbd=0.0, retries=rng.randint(1, 3), rl=None, cft=50,
                     svc=[round(rto * rng.choice([1.5, 3.0]), 6) for _ in range(3)])
            c["tags"] = c["tags"] + ["retry_storm"]
        return c

    def build(z, c):
        from simkit.c10_model import build_policy
        be = z.svc("backend", c["svc"])
        pol = build_policy(c["rl"])[0] if c.get("rl") else None
        sc_ = z.add(Sidecar("sidecar", target=be, rate_limit_policy=pol, circuit_failure_threshold=int(c["cft"]),
                            circuit_success_threshold=int(c["cst"]), circuit_timeout=check_num(c["cto"], 1e-6),
                            request_timeout=check_num(c["rto"], 1e-6), max_retries=int(c["retries"]),
                            retry_base_delay=check_num(c["rbd"])))
        feed(z, c, sc_)
        z.horizon_ns = horizon(c, 3 + (c["rto"] + c["rbd"] * 8) * (c["retries"] + 1) * 2 + c["cto"] * 2)
    return gen, build


# --------------------------------------------------------------------------
# industrial
# --------------------------------------------------------------------------

def dec(rng, lo, hi, places=2):
    """A 'decimal' configuration value such as 4.1 or 2.01 (the way users write shift/gate times)."""
    k = 10 ** places
    return rng.randint(int(lo * k), int(hi * k)) / k


@driver("AppointmentScheduler", ["AppointmentScheduler"])
def _appt():
    def gen(rng):
        n = rng.randint(2, 20)
        appts = sorted(dec(rng, 0, 10, rng.choice([1, 2, 3])) for _ in range(n))
        if rng.random() < 0.5:
            appts += [appts[0]] * 2
        return {"appts": appts, "noshow": rng.choice([0.0, 0.3]), "tags": []}

    def build(z, c):
        sink = z.sink()
        a = z.add(AppointmentScheduler("appt", target=sink, appointments=[z.abs_s(check_num(x, 0, 1e4)) for x in c["appts"]],
                                       no_show_rate=c["noshow"]))
        z.after_init(lambda: a.start_events())
        z.horizon_ns = ns(max(c["appts"]) + 1)
    return gen, build


@driver("BatchProcessor", ["BatchProcessor"])
def _batch():
    def gen(rng):
        to = rng.choice([0.0, lat(rng, zero_p=0.0, hi=0.2)])
        pt = lat(rng, hi=0.1)
        c = flow_cfg(rng, marks=[to, pt])
        c.update(batch=rng.choice([1, 2, 3, 5]), pt=pt, timeout=to)
        if rng.random() < 0.6:
            # a batch that takes longer than the partial-batch timeout, a full batch at one instant and stragglers
            # (fewer than a batch) arriving while it is being processed, early and late in the processing time
            to = lat(rng, zero_p=0.0, hi=0.1)
            pt = rel(rng, to, (1.5, 3.0, 3.0, 6.0))
            b = rng.choice([2, 3, 5])
            t1 = rng.randrange(0, 10**9)
            arr = [t1] * b
            for _ in range(rng.randint(1, b - 1)):
                arr.append(t1 + ns(pt * rng.choice([0.05, 0.1, 0.2, 0.5, 0.9])))
            if rng.random() < 0.5:
                arr += [t1 + ns(pt * 4)] * rng.randint(1, b)
            c.update(arr=sorted(arr), batch=b, pt=pt, timeout=to, tags=c["tags"] + ["straggler_during_batch"])
        return c

    def build(z, c):
        sink = z.sink()
        b = z.add(BatchProcessor("batch", downstream=sink, batch_size=int(c["batch"]), process_time=check_num(c["pt"]),
                                 timeout_s=check_num(c["timeout"])))
        feed(z, c, b)
        z.horizon_ns = horizon(c, 3 + c["timeout"] * 3 + c["pt"] * len(c["arr"]))
    return gen, build


@driver("BreakdownScheduler", ["BreakdownScheduler"])
def _breakdown():
    def gen(rng):
        c = flow_cfg(rng, span=3.0)
        c.update(mttf=rng.choice([0.01, 0.1, 0.5, 2.0]), mtr=rng.choice([0.001, 0.05, 0.5]), st=lat(rng, hi=0.05))
        return c

    def build(z, c):
        sink = z.sink()
        s = z.add(Server("machine", concurrency=1, service_time=ConstantLatency(check_num(c["st"])), downstream=sink))
        bd = z.add(BreakdownScheduler("breakdown", target=s, mean_time_to_failure=check_num(c["mttf"], 1e-4),
                                      mean_repair_time=check_num(c["mtr"], 1e-4)))
        z.after_init(lambda: bd.start_event())
        feed(z, c, s)
        z.horizon_ns = horizon(c, 3)
    return gen, build


@driver("ConveyorBelt", ["ConveyorBelt"])
def _conveyor():
    def gen(rng):
        tt = lat(rng, hi=0.3)
        c = flow_cfg(rng, marks=[tt])
        c.update(tt=tt, cap=rng.choice([0, 1, 2, 5]), chain=rng.random() < 0.4)
        return c

    def build(z, c):
        sink = z.sink()
        b2 = z.add(ConveyorBelt("belt2", downstream=sink, transit_time=check_num(c["tt"]), capacity=0)) if c["chain"] else sink
        b = z.add(ConveyorBelt("belt", downstream=b2, transit_time=check_num(c["tt"]), capacity=int(c["cap"])))
        feed(z, c, b)
        z.horizon_ns = horizon(c, 3 + c["tt"] * 3)
    return gen, build


@driver("GateController", ["GateController"])
def _gate():
    def gen(rng):
        c = flow_cfg(rng, span=3.0)
        sched, t = [], 0.0
        for _ in range(rng.randint(0, 4)):
            a = round(t + dec(rng, 0.0, 1.5, rng.choice([1, 2, 3])), 3)
            b = round(a + dec(rng, 0.0, 1.5, rng.choice([1, 2, 3])), 3)
            sched.append([a, b])
            t = b if rng.random() < 0.8 else a
        c.update(sched=sched, open0=rng.random() < 0.5, qcap=rng.choice([0, 1, 3]), manual=rng.random() < 0.3)
        c["arr"], c["tags"] = arrivals(rng, len(c["arr"]), 3.0, [x for ab in sched for x in ab])
        return c

    def build(z, c):
        sink = z.sink()
        g = z.add(GateController("gate", downstream=sink, schedule=[(z.abs_s(check_num(a)), z.abs_s(check_num(b))) for a, b in c["sched"]],
                                 initially_open=bool(c["open0"]), queue_capacity=int(c["qcap"])))
        z.after_init(lambda: g.start_events())
        feed(z, c, g)
        if c["manual"]:
            act = z.actor()
            arr = check_arr(c["arr"])
            mid = arr[len(arr) // 2] if arr else 0

            def toggle():
                z.touch(g)
                return g.close() + g.open()
            z.run_at(mid, act, toggle)
        z.horizon_ns = horizon(c, 4)
    return gen, build


@driver("InspectionStation", ["InspectionStation"])
def _inspect():
    def gen(rng):
        it = lat(rng, hi=0.1)
        c = flow_cfg(rng, marks=[it])
        c.update(it=it, rate=rng.choice([0.0, 0.5, 1.0]), policy=rng.choice([None, gen_policy(rng)]))
        return c

    def build(z, c):
        ok, bad = z.sink("pass"), z.sink("fail")
        st = z.add(InspectionStation("inspect", pass_target=ok, fail_target=bad, inspection_time=check_num(c["it"]),
                                     pass_rate=c["rate"], policy=policy_for(z, c.get("policy"))))
        feed(z, c, st)
        z.horizon_ns = horizon(c, 3 + c["it"] * (len(c["arr"]) + 2))
    return gen, build


@driver("InventoryBuffer", ["InventoryBuffer"])
def _inventory():
    def gen(rng):
        lt = rng.choice([0.0, 0.0, lat(rng, zero_p=0.0, hi=0.5)])
        c = flow_cfg(rng, marks=[lt])
        c.update(stock=rng.choice([0, 1, 5, 20]), rop=rng.choice([0, 2, 5]), oq=rng.randint(1, 6), lead=lt)
        return c

    def build(z, c):
        sink, so = z.sink(), z.sink("stockout")
        inv = z.add(InventoryBuffer("inventory", initial_stock=int(c["stock"]), reorder_point=int(c["rop"]),
                                    order_quantity=int(c["oq"]), lead_time=check_num(c["lead"]), downstream=sink,
                                    stockout_target=so))
        feed(z, c, inv, "consume", lambda i: {"metadata": {"i": i}, "quantity": 1 + i % 2})
        z.horizon_ns = horizon(c, 3 + c["lead"] * 3)
    return gen, build


@driver("PerishableInventory", ["PerishableInventory"])
def _perishable():
    def gen(rng):
        lt = rng.choice([0.0, 0.0, lat(rng, zero_p=0.0, hi=0.5)])
        sci = lat(rng, zero_p=0.0, hi=0.3)
        shelf = lat(rng, zero_p=0.0, hi=1.0)
        c = flow_cfg(rng, marks=[lt, sci, shelf])
        c.update(stock=rng.choice([0, 1, 5, 20]), rop=rng.choice([0, 2, 5]), oq=rng.randint(1, 6), lead=lt, sci=sci,
                 shelf=shelf, t0=rng.choice([None, 0.0]))
        return c

    def build(z, c):
        sink, waste = z.sink(), z.sink("waste")
        inv = z.add(PerishableInventory("perishable", initial_stock=int(c["stock"]), shelf_life_s=check_num(c["shelf"], 1e-6),
                                        spoilage_check_interval_s=check_num(c["sci"], 1e-6), reorder_point=int(c["rop"]),
                                        order_quantity=int(c["oq"]), lead_time=check_num(c["lead"]), downstream=sink,
                                        waste_target=waste, initial_stock_time=c["t0"]))
        z.after_init(lambda: inv.start_event())
        feed(z, c, inv, "consume", lambda i: {"metadata": {"i": i}, "quantity": 1 + i % 2})
        z.horizon_ns = horizon(c, 3 + c["lead"] * 3 + c["sci"] * 4)
    return gen, build


@driver("PooledCycleResource", ["PooledCycleResource"])
def _pooledcycle():
    def gen(rng):
        ct = lat(rng, hi=0.2)
        c = flow_cfg(rng, marks=[ct])
        c.update(pool=rng.randint(1, 3), ct=ct, qcap=rng.choice([0, 1, 4]))
        return c

    def build(z, c):
        sink = z.sink()
        p = z.add(PooledCycleResource("pooled", pool_size=int(c["pool"]), cycle_time=check_num(c["ct"]), downstream=sink,
                                      queue_capacity=int(c["qcap"])))
        feed(z, c, p)
        z.horizon_ns = horizon(c, 3 + c["ct"] * (len(c["arr"]) + 2))
    return gen, build


class _RenegingServer(RenegingQueuedResource):
    """Concrete subclass of the abstract RenegingQueuedResource (repo logic: patience check + reneged emission)."""

    def __init__(self, name, st, downstream, **kw):
        super().__init__(name, **kw)
        self.st, self.downstream, self.busy = st, downstream, 0

    def has_capacity(self):
        return self.busy < 1

    def _handle_served_event(self, event):
        self.busy += 1
        try:
            yield self.st
        finally:
            self.busy -= 1
        return [self.forward(event, self.downstream)]


@driver("RenegingQueuedResource", ["RenegingQueuedResource"])
def _reneging():
    def gen(rng):
        pat = rng.choice([0.0, lat(rng, zero_p=0.0, hi=0.2)])
        st = lat(rng, hi=0.1)
        c = flow_cfg(rng, marks=[pat, st])
        c.update(patience=pat, st=st, policy=rng.choice([None, gen_policy(rng)]))
        return c

    def build(z, c):
        sink, ren = z.sink(), z.sink("reneged")
        r = z.add(_RenegingServer("reneging", check_num(c["st"]), sink, reneged_target=ren,
                                  default_patience_s=check_num(c["patience"]),
                                  policy=policy_for(z, c.get("policy"))))
        z.touch("RenegingQueuedResource")
        from happysimulator.core.temporal import Instant as _I
        arr = check_arr(c["arr"])
        lag = [0, ns(check_num(c["st"])), 3 * ns(check_num(c["patience"])), -1_000_000]

        def ctx(i):
            d = {"metadata": {"i": i}}
            if i % 4 == 0:
                d["patience_s"] = 0.01
            if i % 3 == 1:       # caller-supplied creation time behind (or ahead of) the arrival instant
                d["created_at"] = _I(max(0, z.t0_ns + arr[i] - lag[i % len(lag)]))
            return d
        feed(z, c, r, ctx_fn=ctx)
        z.horizon_ns = horizon(c, 3 + c["st"] * (len(c["arr"]) + 2))
    return gen, build


@driver("ShiftedServer", ["ShiftedServer"])
def _shifted():
    def gen(rng):
        places = rng.choice([0, 1, 1, 2, 2, 3])
        shifts, t = [], 0.0
        for _ in range(rng.randint(1, 4)):
            a = round(t + (dec(rng, 0.0, 3.0, places) if rng.random() < 0.5 else 0.0), 3)
            b = round(a + max(dec(rng, 0.0, 5.0, places), 10 ** -places), 3)
            shifts.append([a, b, rng.randint(0, 3)])
            t = b
        st = lat(rng, hi=0.1)
        c = flow_cfg(rng, marks=[st] + [x for s in shifts for x in s[:2]], span=3.0)
        c.update(shifts=shifts, dcap=rng.choice([0, 1]), st=st, policy=rng.choice([None, gen_policy(rng)]), places=places)
        return c

    def build(z, c):
        sink = z.sink()
        sched = ShiftSchedule([Shift(z.abs_s(check_num(a)), z.abs_s(check_num(b)), int(k)) for a, b, k in c["shifts"]],
                              default_capacity=int(c["dcap"]))
        s = z.add(ShiftedServer("shifted", schedule=sched, service_time=check_num(c["st"]), downstream=sink,
                                policy=policy_for(z, c.get("policy"))))
        feed(z, c, s)
        z.horizon_ns = max(horizon(c, 2), ns(max(b for _, b, _ in c["shifts"]) + 1))
    return gen, build


@driver("SplitMerge", ["SplitMerge"])
def _splitmerge():
    def gen(rng):
        c = flow_cfg(rng, n=rng.randint(3, 16))
        c.update(fan=rng.randint(2, 4), svc=svc_times(rng))
        return c

    def build(z, c):
        sink = z.sink()
        fan = int(c["fan"])
        if not 2 <= fan <= 8:      # all_of() needs >= 2 futures: a one-target SplitMerge raises (not a C07 matter)
            raise InvalidScenario("fan")
        ts = [z.svc(f"part{i}", c["svc"][i % len(c["svc"]):] + c["svc"][: i % len(c["svc"])]) for i in range(fan)]
        sm = z.add(SplitMerge("splitmerge", targets=ts, downstream=sink))
        feed(z, c, sm)
        z.horizon_ns = horizon(c, 3 + max(c["svc"]) * 3)
    return gen, build


# --------------------------------------------------------------------------
# scheduling
# --------------------------------------------------------------------------

@driver("JobScheduler", ["JobScheduler"])
def _jobs():
    def gen(rng):
        tick = lat(rng, zero_p=0.0, hi=0.3)
        jobs = []
        for i in range(rng.randint(1, 4)):
            jobs.append({"interval": rng.choice([0.0, tick, round(tick * 2.5, 6), lat(rng, zero_p=0.0, hi=0.5)]),
                         "prio": rng.choice([-5, -1, 0, 0, 1, 2, 1000]), "deps": [j for j in range(i) if rng.random() < 0.4],
                         # a job that finishes in zero simulated time (every run), or a mix of durations
                         "svc": [0.0] if rng.random() < 0.35 else svc_times(rng, n=3)})
        return {"tick": tick, "jobs": jobs, "horizon": round(tick * rng.randint(5, 30), 6), "tags": []}

    def build(z, c):
        js = z.add(JobScheduler("jobs", tick_interval=check_num(c["tick"], 1e-6)))
        for i, j in enumerate(c["jobs"]):
            t = z.svc(f"job{i}", j["svc"])
            js.add_job(JobDefinition(name=f"j{i}", target=t, event_type="Run", interval=check_num(j["interval"]),
                                     priority=int(j["prio"]), depends_on=[f"j{d}" for d in j["deps"] if 0 <= d < i]))
        z.after_init(lambda: js.start())
        z.horizon_ns = ns(check_num(c["horizon"], 0, 100) + 1)
    return gen, build
