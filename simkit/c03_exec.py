"""C03 — execute one zoo model under in-process perturbations and return its
canonical digest.

A *job* is plain JSON: {"model": name, "params": {...}, "seed": int, "wall": null|"offset"|"fast"|"frozen",
"numpy_seed": true|false, "seed_mode": "derived"|"same", "reuse_specs": true|false}.
`execute(job)` does what a user would do in one interpreter:

    random.seed(seed); numpy.random.seed(seed)      # the user's seeds
    sim, stats = build the model                    # repo components only
    sim.run()

and records the delivery log (time_ns, event_type, target name) through the
engine's own `sim.control.on_event` seam (simkit.world.Monitor) plus the
model's list of public statistics.  Nothing else is pinned: `uuid.uuid4` is
left alone (only counted), the process-global event counter and the
module-level PRNG state are whatever earlier jobs in this interpreter left
behind, the hash seed is whatever the interpreter was started with.  The wall
clock is the real one unless the job asks for a fake (`wall`), in which case
`time.time` / `time.monotonic` / `time.perf_counter` are replaced for the
duration of build+run:

    offset : real clock shifted by +10^9 s (another epoch / another boot time)
    fast   : a deterministic clock that jumps 1.5 s on every read (a slow machine)
    frozen : a clock that never advances
"""
from __future__ import annotations

import dataclasses
import enum
import hashlib
import random
import re
import time
import uuid

import numpy as np

from simkit.world import BudgetExceeded, Monitor, Violation, repo_exception_sig

CAP = 6000            # deliveries per model run (models are sized for <= ~5k)
_ADDR = re.compile(r" at 0x[0-9a-fA-F]+")


# ---------------------------------------------------------------------------
# canonical statistics
# ---------------------------------------------------------------------------

def _canon(prefix: str, v, out: dict) -> None:
    """Flatten a public statistic into name -> exact repr.  dict: by key (order-insensitive, as dict equality is);
    set/frozenset: sorted; list/tuple: positional (order is part of a list-valued statistic)."""
    if dataclasses.is_dataclass(v) and not isinstance(v, type):
        for f in dataclasses.fields(v):
            _canon(f"{prefix}.{f.name}", getattr(v, f.name), out)
        return
    if isinstance(v, dict):
        out[f"{prefix}.#len"] = str(len(v))
        for k in v:
            _canon(f"{prefix}[{k!s}]", v[k], out)
        return
    if isinstance(v, (set, frozenset)):
        out[prefix] = repr(sorted(v, key=repr))
        return
    if isinstance(v, (list, tuple)):
        if len(v) > 40:
            h = hashlib.blake2b(repr([_leaf(x) for x in v]).encode(), digest_size=8).hexdigest()
            out[prefix] = f"list[{len(v)}]:{h}"
        else:
            out[prefix] = repr([_leaf(x) for x in v])
        return
    out[prefix] = _leaf(v)


def _leaf(v) -> str:
    if isinstance(v, enum.Enum):
        return f"{type(v).__name__}.{v.name}"
    if isinstance(v, (set, frozenset)):
        return repr(sorted(v, key=repr))
    if isinstance(v, (list, tuple)):
        return repr([_leaf(x) for x in v])
    if isinstance(v, dict):
        return repr(sorted((str(k), _leaf(x)) for k, x in v.items()))
    if dataclasses.is_dataclass(v) and not isinstance(v, type):
        return repr({f.name: _leaf(getattr(v, f.name)) for f in dataclasses.fields(v)})
    r = repr(v)
    if _ADDR.search(r):
        raise AssertionError(f"statistic with an object address in its repr: {r} (harness must pick a value)")
    return r


class Stats:
    """What a builder returns as its statistics callback collects into this."""

    def __init__(self):
        self.out: dict[str, str] = {}
        self.probes: dict[str, int] = {}

    def add(self, name: str, value) -> None:
        _canon(name, value, self.out)

    def probe(self, name: str, fired) -> None:
        """Rare-branch probe of the model itself (did the randomised / faulty path actually run?); not part of the digest."""
        self.probes[name] = int(bool(fired)) | self.probes.get(name, 0)


# ---------------------------------------------------------------------------
# wall clock / uuid observation
# ---------------------------------------------------------------------------

class _Wall:
    def __init__(self, mode):
        self.mode = mode
        self.reads = 0
        self._saved = None
        self._t = 1_000.0

    def __enter__(self):
        self._saved = (time.time, time.monotonic, time.perf_counter)
        rt, rm, rp = self._saved
        mode = self.mode

        def mk(real, base):
            def f():
                self.reads += 1
                if mode is None:
                    return real()
                if mode == "offset":
                    return real() + 1.0e9
                if mode == "fast":
                    self._t += 1.5
                    return base + self._t
                return base + 1_000.0          # frozen
            return f

        time.time = mk(rt, 1.7e9)
        time.monotonic = mk(rm, 5.0e4)
        time.perf_counter = mk(rp, 5.0e4)
        return self

    def __exit__(self, *a):
        time.time, time.monotonic, time.perf_counter = self._saved


class _SerialFuture:
    def __init__(self, fn, args):
        self.fn, self.args, self.done, self.res, self.exc = fn, args, False, None, None

    def run(self):
        if not self.done:
            try:
                self.res = self.fn(*self.args)
            except BaseException as e:  # noqa: BLE001
                self.exc = e
            self.done = True

    def result(self):
        self.run()
        if self.exc is not None:
            raise self.exc
        return self.res


class _Pool:
    """Harness-owned executor for ParallelSimulation: window tasks run one after the other, and `as_completed` yields them in
    an order drawn from a generator seeded with the job's `pool_seed` — the wall-clock dependent completion order of worker
    threads, made a seeded perturbation.  Installed for every job (only parallel models use it)."""

    def __init__(self, seed: int):
        self.rng = random.Random(seed)

    def __enter__(self):
        import happysimulator.parallel.coordinator as c
        import happysimulator.parallel.simulation as s

        self.mods = [m for m in (c, s)]
        self.saved = [(m, getattr(m, "ThreadPoolExecutor", None), getattr(m, "as_completed", None)) for m in self.mods]
        rng = self.rng

        class SerialPool:
            def __init__(self, max_workers=None, **kw):
                pass

            def __enter__(self):
                return self

            def __exit__(self, *a):
                return False

            def submit(self, fn, *args):
                return _SerialFuture(fn, args)

            def shutdown(self, *a, **kw):
                pass

        def as_completed(fs, timeout=None):
            order = list(fs)
            rng.shuffle(order)
            for f in order:
                f.run()
                yield f

        for m, tp, ac in self.saved:
            if tp is not None:
                m.ThreadPoolExecutor = SerialPool
            if ac is not None:
                m.as_completed = as_completed
        return self

    def __exit__(self, *a):
        for m, tp, ac in self.saved:
            if tp is not None:
                m.ThreadPoolExecutor = tp
            if ac is not None:
                m.as_completed = ac


class _UuidCount:
    """uuid4 stays real (os.urandom); only the number of calls is observed."""

    def __enter__(self):
        self.calls = 0
        self._orig = uuid.uuid4

        def counted():
            self.calls += 1
            return self._orig()

        uuid.uuid4 = counted
        return self

    def __exit__(self, *a):
        uuid.uuid4 = self._orig


def _np_state():
    st = np.random.get_state()
    return (int(st[2]), st[1][:4].tolist())


def _peek_event_counter() -> int:
    """Value the process-global event counter would hand out next (observation only: itertools.count
    exposes it through repr; nothing is consumed)."""
    from happysimulator.core import event as _ev

    m = re.search(r"count\((\d+)", repr(_ev._global_event_counter))
    return int(m.group(1)) if m else -1


# ---------------------------------------------------------------------------
# execute
# ---------------------------------------------------------------------------

_SPECS: dict = {}      # per interpreter: spec bundles of the jobs that asked for reuse


def _spec_store(job: dict) -> dict:
    """The spec bundle a user would keep around: objects that depend on model + structure are shared with every later build
    of that structure in this interpreter (also a sibling's), objects that also depend on the seeds only with later builds of
    the same job."""
    import json

    skey = (job["model"], json.dumps(job.get("params") or {}, sort_keys=True))
    key = skey + (job["seed"], job.get("seed_mode", "derived"))
    return {"shared": _SPECS.setdefault(("shared",) + skey, {}), "seeded": _SPECS.setdefault(("seeded",) + key, {})}


def execute(job: dict, full: bool = False) -> dict:
    import simkit.c03_zoo as zoo
    from simkit.c03_zoo import ZOO

    zoo.SEED_MODE = job.get("seed_mode", "derived")
    zoo.SPEC_STORE = _spec_store(job) if job.get("reuse_specs") else None
    entry = ZOO[job["model"]]
    seed = int(job["seed"])
    log: list = []

    def rec(ev, mon):
        t = ev.target
        log.append((ev.time.nanoseconds, str(ev.event_type), getattr(t, "name", None) or type(t).__name__,
                    type(t).__name__))

    counter_before = _peek_event_counter()
    with _Wall(job.get("wall")) as wall, _UuidCount() as uu, _Pool(int(job.get("pool_seed", 0))):
        # ---- what the user does
        random.seed(seed)
        if job.get("numpy_seed", True):
            np.random.seed(seed % (2**32))     # numpy_seed=False: the guides' recipe taken literally (random.seed only); observation runs
        rs0, ns0 = random.getstate(), _np_state()
        sim, stats_fn = entry["build"](job.get("params") or {}, seed)
        mon = Monitor(sim, cap=CAP, spin_cap=CAP + 1, invariant=rec, digest=False)
        status = "ok"
        try:
            summary = sim.run()
        except BudgetExceeded:
            status, summary = "budget", None
        except Violation:
            raise
        except (zoo.ZooCrash, zoo.ZooAbort) as exc:   # a model whose handler raises on purpose; the caller (we) catches it
            status, summary = f"died:{type(exc).__name__}", None
        except Exception as exc:  # noqa: BLE001  (repo exception inside sim.run(): part of the behaviour, compared like a statistic)
            sig = repo_exception_sig(exc)
            if sig is None:
                raise
            status, summary = sig, None
        st = Stats()
        stats_fn(st)
        drew_random = random.getstate() != rs0
        drew_numpy = _np_state() != ns0
    stats = st.out
    stats["run.status"] = status
    stats["run.deliveries"] = str(mon.seq)
    if summary is not None:
        stats["summary.total_events_processed"] = str(summary.total_events_processed)
        stats["summary.events_cancelled"] = str(getattr(summary, "events_cancelled", None))
        for extra in ("total_windows", "total_cross_partition_events", "window_size_s"):     # ParallelSimulationSummary
            if hasattr(summary, extra):
                stats[f"summary.{extra}"] = repr(getattr(summary, extra))
        stats["summary.duration_s"] = repr(summary.duration_s)
        stats["summary.events_per_second"] = repr(summary.events_per_second)   # simulated-time rate, not wall time
        for nm, es in (getattr(summary, "entities", None) or {}).items():
            stats[f"summary.entity[{nm}]"] = f"{es.entity_type}:{es.events_handled}"
    h = hashlib.blake2b(digest_size=12)
    for t, et, tn, _ in log:
        h.update(f"{t}|{et}|{tn}\n".encode())
    log_digest = h.hexdigest()
    h2 = hashlib.blake2b(digest_size=12)
    h2.update(log_digest.encode())
    for k in sorted(stats):
        h2.update(f"{k}={stats[k]}\n".encode())
    out = {
        "model": job["model"], "digest": h2.hexdigest(), "log_digest": log_digest, "n": len(log), "stats": stats,
        "status": status, "sim_s": (mon.last_time_ns / 1e9),
        "probes": st.probes,
        "obs": {"wall_reads": wall.reads, "uuid4_calls": uu.calls, "drew_random": drew_random,
                "drew_numpy": drew_numpy, "event_counter_before": counter_before},
    }
    if full:
        out["log"] = log
    return out


def run_jobs(jobs: list, full: bool = False) -> list:
    return [execute(j, full=full) for j in jobs]
