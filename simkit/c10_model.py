"""C10 helpers: policy construction from JSON, cheap policy clones, the
time_until_available truthfulness probe, and exact integer-nanosecond
reference bounds over a list of admitted (forwarded) timestamps.

Everything here is harness/oracle code; the only repo objects touched are the
policy classes themselves (through their public API) and `Instant`.
"""
from __future__ import annotations

import bisect
import collections
import copy
from fractions import Fraction

from happysimulator.components.rate_limiter.policy import (
    AdaptivePolicy,
    FixedWindowPolicy,
    LeakyBucketPolicy,
    RateAdjustmentReason,
    SlidingWindowPolicy,
    TokenBucketPolicy,
)
from happysimulator.core.temporal import Duration, Instant

from simkit.rng import H
from simkit.world import InvalidScenario, Violation, repo_exception_sig

NS = 1_000_000_000
EPS_TOKENS = Fraction(1, 10**9)   # slack on bucket bounds: the repo accumulates tokens in binary floating point
MAX_WAIT_STEPS = 4                # "a few steps"


# --------------------------------------------------------------------------
# scenario -> policy
# --------------------------------------------------------------------------

def whole_ns(seconds: float, what: str) -> int:
    """Window sizes are generated as decimals with <= 9 digits; the reference
    windows are multiples of that whole number of nanoseconds."""
    if not isinstance(seconds, (int, float)) or seconds <= 0:
        raise InvalidScenario(f"{what} must be > 0")
    n = round(seconds * NS)
    if n < 1 or abs(seconds * NS - n) > 1e-6:
        raise InvalidScenario(f"{what}={seconds!r} is not a whole number of nanoseconds")
    return n


def build_policy(p: dict):
    """Returns (policy, info) where info carries the reference parameters."""
    t = p.get("type")
    if t == "token":
        cap, rate, init = p.get("capacity", 1.0), p.get("rate", 1.0), p.get("initial")
        if cap < 1 or rate <= 0 or (init is not None and not (0 <= init <= cap)):
            raise InvalidScenario("token parameters outside the judged space")
        pol = TokenBucketPolicy(capacity=cap, refill_rate=rate, initial_tokens=init)
        return pol, {"type": t, "cap": Fraction(float(cap)), "rate": Fraction(float(rate)),
                     "period_ns": max(1, round(NS / rate)), "win_ns": max(1, round(NS / rate))}
    if t == "leaky":
        rate = p.get("rate", 1.0)
        if rate <= 0:
            raise InvalidScenario("leak rate must be > 0")
        pol = LeakyBucketPolicy(leak_rate=rate)
        return pol, {"type": t, "rate": Fraction(float(rate)),
                     "period_ns": max(1, round(NS / rate)), "win_ns": max(1, round(NS / rate))}
    if t == "sliding":
        w, n = p.get("window", 1.0), p.get("max", 1)
        wn = whole_ns(w, "window")
        if not isinstance(n, int) or n < 1:
            raise InvalidScenario("max_requests must be >= 1")
        pol = SlidingWindowPolicy(window_size_seconds=w, max_requests=n)
        # the bound is judged against the configured window as an exact rational (decimal reading of the float's
        # shortest repr), never against the truncated nanosecond value the repo's Instant/Duration conversions produce
        return pol, {"type": t, "win_ns": wn, "win_exact": Fraction(str(float(w))) * NS, "n": n, "period_ns": wn,
                     "trunc_ns": int(w * NS)}
    if t == "fixed":
        w, n = p.get("window", 1.0), p.get("n", 1)
        wn = whole_ns(w, "window")
        if not isinstance(n, int) or n < 1:
            raise InvalidScenario("requests_per_window must be >= 1")
        pol = FixedWindowPolicy(requests_per_window=n, window_size=w)
        return pol, {"type": t, "win_ns": wn, "n": n, "period_ns": wn}
    if t == "adaptive":
        w = p.get("window", 1.0)
        mn, mx, init = p.get("min", 1.0), p.get("max", 10.0), p.get("initial", 1.0)
        step, factor = p.get("step"), p.get("factor", 0.5)
        whole_ns(w, "window")
        if mn <= 0 or mx < mn or not (mn <= init <= mx) or not (0 < factor < 1):
            raise InvalidScenario("adaptive parameters rejected by the constructor")
        if mn * w < 1.0:
            raise InvalidScenario("adaptive bucket smaller than one token (outside the judged space)")
        if step is not None and step <= 0:
            raise InvalidScenario("increase_step must be > 0")
        pol = AdaptivePolicy(initial_rate=init, min_rate=mn, max_rate=mx, increase_step=step,
                             decrease_factor=factor, window_size=w)
        return pol, {"type": t, "window_s": float(w), "min": float(mn), "max": float(mx), "initial": float(init),
                     "period_ns": max(1, round(NS / init)), "win_ns": max(1, round(NS / init))}
    raise InvalidScenario(f"unknown policy type {t!r}")


FAIL_REASON = {0: RateAdjustmentReason.FAILURE, 2: RateAdjustmentReason.TIMEOUT, 3: RateAdjustmentReason.THROTTLED}


# --------------------------------------------------------------------------
# clones and the truthfulness probe
# --------------------------------------------------------------------------

def clone(policy):
    """A copy that shares nothing mutable with the original: shallow copy plus
    a one-level copy of every container attribute (the elements — Instants,
    RateSnapshots, numbers — are never mutated by the policies)."""
    c = copy.copy(policy)
    d = getattr(policy, "__dict__", None)
    if d is None:
        return copy.deepcopy(policy)
    for k, v in d.items():
        if isinstance(v, list):
            c.__dict__[k] = list(v)
        elif isinstance(v, dict):
            c.__dict__[k] = dict(v)
        elif isinstance(v, collections.deque):
            c.__dict__[k] = collections.deque(v)
        elif isinstance(v, set):
            c.__dict__[k] = set(v)
    return c


def _call(fn, *a):
    """Call a policy method; an exception raised inside repo code is a violation."""
    try:
        return fn(*a)
    except Violation:
        raise
    except Exception as exc:  # noqa: BLE001
        sig = repo_exception_sig(exc)
        if sig is None:
            raise
        raise Violation(f"C10/{sig}", repr(exc)) from None


def _position(info: dict, policy, now_ns: int) -> str:
    """Small normalised detail: where `now` lies relative to the policy's boundary."""
    t = info["type"]
    if t == "fixed":
        r = now_ns % info["win_ns"]
        if r == 0:
            return "on-boundary"
        if r == info["win_ns"] - 1:
            return "1ns-before-boundary"
        if r == 1:
            return "1ns-after-boundary"
        return "mid-window"
    if t == "sliding":
        log = getattr(policy, "_request_log", None)
        if log:
            d = log[0].nanoseconds + info["win_ns"] - now_ns
            if d == 0:
                return "at-expiry"
            return "before-expiry" if d > 0 else "after-expiry"
        return "empty-log"
    return "bucket"


class TuaProbe:
    """At an instant `now`, on copies of the live policy:
       zero      => try_acquire(now) succeeds;
       w > 0     => try_acquire fails at now and at sampled instants of (now, now+w);
       iterating "wait the returned duration" admits within MAX_WAIT_STEPS waits."""

    def __init__(self, info: dict, seed: int, cname: str):
        self.info = info
        self.seed = seed
        self.cname = cname
        self.n_zero = 0
        self.n_pos = 0
        self.n_guard = 0          # returned exactly 1 ns
        self.max_steps = 0
        self.samples = 0
        self.k = 0

    def check(self, policy, now: Instant, where: str) -> int:
        """Returns the wait in ns reported for `now`."""
        self.k += 1
        now_ns = now.nanoseconds
        c = clone(policy)
        w = _call(c.time_until_available, now)
        if not isinstance(w, Duration):
            raise Violation(f"C10/tua-not-a-duration/{self.cname}/{type(w).__name__}", f"time_until_available returned {w!r}")
        wn = w.nanoseconds
        if wn < 0:
            raise Violation(f"C10/tua-negative/{self.cname}/{_position(self.info, c, now_ns)}",
                            f"time_until_available({now_ns}ns) = {wn}ns < 0 ({where})")
        if wn == 0:
            self.n_zero += 1
            if not _call(c.try_acquire, now):
                raise Violation(
                    f"C10/tua-zero-acquire-fails/{self.cname}/{_position(self.info, c, now_ns)}",
                    f"at t={now_ns}ns ({where}) time_until_available returned ZERO but try_acquire at the same instant was denied")
            # ... and it must not depend on time_until_available having refreshed the state first
            if not _call(clone(policy).try_acquire, now):
                raise Violation(
                    f"C10/tua-zero-acquire-fails/{self.cname}/{_position(self.info, c, now_ns)}-on-untouched-state",
                    f"at t={now_ns}ns ({where}) time_until_available returned ZERO, but try_acquire on the same state "
                    f"(without the refresh time_until_available performed) is denied")
            return 0
        self.n_pos += 1
        if wn == 1:
            self.n_guard += 1
        # no acquire may succeed in [now, now+w)
        pts = {now_ns, now_ns + 1, now_ns + wn - 1, now_ns + wn // 2}
        for j in range(2):
            pts.add(now_ns + 1 + H(self.seed, "tua", self.k, j) % wn)
        for s in sorted(pts):
            if not (now_ns <= s < now_ns + wn):
                continue
            self.samples += 1
            c2 = clone(policy)
            if _call(c2.try_acquire, Instant(s)):
                early = now_ns + wn - s
                kind = "at-now" if s == now_ns else ("last-ns" if early == 1 else "inside")
                raise Violation(
                    f"C10/acquire-before-wait-elapsed/{self.cname}/{kind}",
                    f"at t={now_ns}ns ({where}) time_until_available returned {wn}ns, yet try_acquire succeeds at "
                    f"t={s}ns, {early}ns before the wait has elapsed")
        # waiting the returned duration repeatedly reaches an admitting instant
        c3 = clone(policy)
        t = now_ns
        steps = 0
        while True:
            wi = _call(c3.time_until_available, Instant(t)).nanoseconds
            if wi < 0:
                raise Violation(f"C10/tua-negative/{self.cname}/during-wait-iteration",
                                f"iterating from t={now_ns}ns: time_until_available({t}ns) = {wi}ns")
            if wi == 0:
                if not _call(c3.try_acquire, Instant(t)):
                    raise Violation(
                        f"C10/tua-zero-acquire-fails/{self.cname}/{_position(self.info, c3, t)}",
                        f"waiting from t={now_ns}ns ({where}) for the returned durations reaches t={t}ns where "
                        f"time_until_available is ZERO but try_acquire is denied (a poll re-arms at now+0 forever)")
                break
            if steps >= 1:
                # a positive answer at an instant reached by waiting must be truthful there too
                self.samples += 1
                if _call(clone(c3).try_acquire, Instant(t)):
                    raise Violation(
                        f"C10/acquire-before-wait-elapsed/{self.cname}/at-now-after-waiting",
                        f"after waiting from t={now_ns}ns to t={t}ns time_until_available returns {wi}ns although "
                        f"try_acquire at t={t}ns succeeds")
            steps += 1
            if steps > MAX_WAIT_STEPS:
                raise Violation(
                    f"C10/wait-iteration-stalls/{self.cname}/{_position(self.info, c3, t)}",
                    f"from t={now_ns}ns ({where}) {MAX_WAIT_STEPS} successive waits of the returned duration end at "
                    f"t={t}ns and time_until_available still returns {wi}ns")
            t += wi
        if steps > self.max_steps:
            self.max_steps = steps
        return wn


# --------------------------------------------------------------------------
# interval bounds over admitted timestamps (integer nanoseconds, non-decreasing)
# --------------------------------------------------------------------------

def bound_token(ts: list[int], cap: Fraction, rate: Fraction):
    """count in [a,b] <= capacity + rate*(b-a) for every closed interval."""
    if not ts:
        return None
    t0 = ts[0]
    best_g, best_i = None, 0
    for j, t in enumerate(ts):
        g = Fraction(j) - rate * (t - t0) / NS
        if best_g is None or g < best_g:
            best_g, best_i = g, j
        excess = (g - best_g) + 1 - cap
        if excess > EPS_TOKENS:
            i = best_i
            return ("over-admit", f"{j - i + 1} requests admitted in [{ts[i]}ns, {t}ns] "
                    f"(length {t - ts[i]}ns); bound capacity + rate*length = {float(cap + rate * (t - ts[i]) / NS):.9f}")
    return None


def bound_leaky(ts: list[int], rate: Fraction):
    for a, b in zip(ts, ts[1:]):
        if (b - a) * rate < NS * (1 - Fraction(1, 10**12)):
            return ("spacing", f"admitted at {a}ns and {b}ns: spacing {b - a}ns < 1/rate = {float(NS / rate):.3f}ns")
    return None


def bound_sliding(ts: list[int], win, n: int):
    """Weaker reading: no half-open window [a, a+W) holds more than N, i.e. N+1 admissions must span >= W.
    `win` is the window length in nanoseconds as an exact rational (or int)."""
    for i in range(len(ts) - n):
        if ts[i + n] - ts[i] < win:
            return ("window", f"{n + 1} requests admitted within [{ts[i]}ns, {ts[i + n]}ns], "
                    f"a span of {ts[i + n] - ts[i]}ns < window {float(win):.3f}ns (max_requests={n})")
    return None


def bound_fixed(ts: list[int], win_ns: int, n: int, two_n: bool = True):
    """<= N per aligned window [kW,(k+1)W), where an admission exactly on a
    boundary instant may be attributed to either adjacent window (weaker
    reading: the float window size is ambiguous by < 1 ns at the boundary);
    <= 2N in any half-open interval of length W."""
    # greedy left-to-right attribution: boundary admissions go to the left window while it has room
    interior = collections.Counter()
    onb = collections.Counter()
    for t in ts:
        k, r = divmod(t, win_ns)
        if r == 0:
            onb[k] += 1          # boundary between window k-1 and k
        else:
            interior[k] += 1
    carried = {}                 # window k -> admissions attributed from its left boundary
    for k in sorted(set(interior) | set(onb) | {x - 1 for x in onb}):
        load = interior.get(k, 0) + carried.get(k, 0)
        if load > n:
            return ("aligned-window", f"{load} admissions attributed to aligned window {k} "
                    f"[{k * win_ns}ns, {(k + 1) * win_ns}ns) (requests_per_window={n})")
        b = onb.get(k + 1, 0)    # boundary on the right edge of window k
        if b:
            if load + b <= n:
                pass             # attributed to window k, which is now final
            else:
                carried[k + 1] = b
    m = 2 * n
    for i in range(len(ts) - m if two_n else 0):
        if ts[i + m] - ts[i] < win_ns:
            return ("two-n", f"{m + 1} admissions within [{ts[i]}ns, {ts[i + m]}ns], a span shorter than one "
                    f"window ({win_ns}ns); bound 2N = {m}")
    return None


def bound_adaptive(ts: list[int], window_s: float, samples: list[tuple[int, float]], initial: float):
    """count in [ti,tj] <= R*window + R*(tj-ti), R = largest rate in effect at any
    moment of the closed interval (samples: (time_ns, current_rate) after every
    delivery of the run, in order)."""
    n = len(ts)
    if n == 0:
        return None
    st = [s[0] for s in samples]
    for i in range(n):
        ti = ts[i]
        p = bisect.bisect_left(st, ti)          # first sample at time >= ti
        R = samples[p - 1][1] if p > 0 else initial
        for j in range(i, n):
            tj = ts[j]
            while p < len(samples) and st[p] <= tj:
                if samples[p][1] > R:
                    R = samples[p][1]
                p += 1
            bound = R * window_s + R * ((tj - ti) / NS)
            if (j - i + 1) > bound + 1e-6:
                return ("over-admit", f"{j - i + 1} requests admitted in [{ti}ns, {tj}ns] while the rate never "
                        f"exceeded {R}: bucket bound rate*window + rate*length = {bound:.9f}")
    return None
