"""C12, MultiPaxosNode / FlexiblePaxosNode family: per-slot oracles (owned by the C12 check)."""
from __future__ import annotations

from happysimulator.components.consensus.flexible_paxos import FlexiblePaxosNode
from happysimulator.components.consensus.multi_paxos import MultiPaxosNode
from happysimulator.core.event import Event
from happysimulator.core.simulation import Simulation
from happysimulator.core.temporal import Instant

from simkit.c12_common import (Judge, NetRef, check_faults, check_profile, gen_fault_list, gen_net, gen_per_link,
                               is_first_hop, max_delay)
from simkit.chaosnet import FaultDriver, build_mesh
from simkit.rng import seed_globals
from simkit.world import InvalidScenario, Monitor, result, run_sim

KLASSES = ("ml-live", "ml-live-jitter", "ml-pingpong", "ml-recampaign", "ml-single", "ml-single-faulty", "ml-multi-fifo", "ml-multi")
LIVE = ("ml-live", "ml-live-jitter")
FIFO = ("ml-live", "ml-single-faulty", "ml-multi-fifo", "ml-pingpong")
PFX = {"multi": "MultiPaxos", "flex": "FlexPaxos"}
CLSNAME = {"multi": "MultiPaxosNode", "flex": "FlexiblePaxosNode"}


class RecordingStateMachine:
    """StateMachine protocol stub: records what was applied, in order."""

    def __init__(self):
        self.applied = []

    def apply(self, command):
        self.applied.append(command)
        return ("applied", command)

    def snapshot(self):
        return list(self.applied)

    def restore(self, snapshot):
        self.applied = list(snapshot)


def gen(rng, fam):
    r = rng.random()
    klass = ("ml-live" if r < 0.07 else "ml-live-jitter" if r < 0.17 else "ml-pingpong" if r < 0.26
             else "ml-recampaign" if r < 0.35 else "ml-single" if r < 0.44
             else "ml-single-faulty" if r < 0.50 else "ml-multi-fifo" if r < 0.75 else "ml-multi")
    n = rng.choice([3, 3, 4, 5, 5]) if klass != "ml-live-jitter" else rng.choice([3, 3, 3, 4, 5])
    scale = rng.choice([0.005, 0.01, 0.02])
    fifo = klass in FIFO
    prof = gen_net(rng, scale, fifo=fifo, bounded=(klass == "ml-live-jitter"))
    per = gen_per_link(rng, n, prof, fifo=fifo) if klass != "ml-live-jitter" else {}
    lead0 = rng.randrange(n)
    if klass == "ml-pingpong" and rng.random() < 0.5:   # one slow direction on one or two directed links
        for _ in range(rng.choice([1, 2])):
            a, b = rng.sample(range(n), 2)
            per[f"n{a}->n{b}"] = {"base": round(prof["base"] * rng.choice([5.0, 16.0]), 6)}
    if klass == "ml-recampaign":
        # bounded but non-FIFO delays: individual messages straggle (10-150 x the base), nothing is lost
        prof = {"base": round(scale * 0.2, 6), "jitter": round(scale * rng.choice([0.5, 1.0]), 6),
                "straggler_p": rng.choice([0.1, 0.25, 0.4]), "straggler": round(scale * rng.choice([10.0, 40.0, 150.0]), 6)}
        per = {}
    if klass == "ml-live-jitter" and rng.random() < 0.6:
        # variant "acks only": leader -> follower links are FIFO (constant), follower -> leader links jitter, so Accepted
        # responses overtake each other while Accepts arrive in order (keeps the recorded gap-append finding out)
        prof = {"base": round(scale * rng.choice([0.2, 1.0]), 6), "jitter": 0.0}
        jit = round(scale * rng.choice([2.0, 5.0, 10.0]), 6)
        per = {f"n{f}->n{lead0}": {"jitter": jit} for f in range(n) if f != lead0}
    dmax = max_delay(prof, per)
    hb = rng.choice([0.2, 0.5, 1.0, 5.0]) if klass not in LIVE + ("ml-recampaign",) else rng.choice([0.2, 0.5, 1.0])
    if fam == "flex":
        pairs = [(a, b) for a in range(1, n + 1) for b in range(1, n + 1) if a + b > n]
        q1, q2 = rng.choice(pairs)
    else:
        q1 = q2 = n // 2 + 1
    t0 = round(rng.uniform(0.02, 0.1), 5)
    starts = [{"t": t0, "node": lead0}]
    if klass in ("ml-multi-fifo", "ml-multi"):
        for _ in range(rng.choice([1, 1, 2, 3])):
            gap = rng.choice([rng.uniform(0, 3 * scale), rng.uniform(0, 0.5), rng.uniform(0, 1.5)])
            starts.append({"t": round(t0 + gap, 5), "node": rng.randrange(n)})
    starts.sort(key=lambda s: (s["t"], s["node"]))
    k = rng.randint(2, 12)
    submits = []
    if klass == "ml-pingpong":
        # leadership ping-pong on a fault-free FIFO network: a -> b -> (c ->) a ..., every hand-over a generated multiple
        # of the heartbeat interval after the previous one, then a quiet tail in which the last starter is the
        # established leader and gets the final command(s); judged: those are decided and applied at every node
        order = [lead0]
        for _ in range(rng.choice([2, 2, 3, 4])):
            nxt = rng.choice([i for i in range(n) if i != order[-1]])
            if len(order) >= 2 and rng.random() < 0.6:
                nxt = rng.choice([i for i in order[:-1] if i != order[-1]] or [nxt])  # return of an earlier leader
            order.append(nxt)
        t = t0
        starts = []
        for i, nd in enumerate(order):
            starts.append({"t": round(t, 5), "node": nd})
            t += 4 * dmax + hb * rng.choice([0.3, 1.2, 1.2, 2.5])
        last_start = starts[-1]["t"]
        quiet = rng.random() < 0.5
        if quiet:
            # quiet hand-over: 1-3 commands shortly BEFORE a later hand-over, then nothing - whatever was decided must
            # still reach every node (the new leader has to finish / announce inherited slots without a later command)
            for i in range(rng.choice([1, 1, 2, 3])):
                nxt = rng.choice(starts[1:])["t"]
                back = rng.choice([rng.uniform(0, 2 * dmax), rng.uniform(0, 4 * dmax), rng.uniform(0, hb)])
                submits.append({"t": min(round(max(t0 + 2 * dmax, nxt - back), 5), last_start), "mode": "leader", "node": 0, "cmd": f"e{i}"})
            if len({s["t"] for s in submits}) < len(submits):
                submits = submits[:1]
            submits.sort(key=lambda s: s["t"])
            horizon = round(last_start + 4 * dmax + 2 * hb + 12 * dmax + 0.01, 5)
        else:
            for i in range(rng.choice([0, 0, 1, 2])):   # a few early commands for whoever leads then (may hit recorded findings)
                submits.append({"t": round(rng.uniform(t0 + 4 * dmax, last_start), 5), "mode": "leader", "node": 0, "cmd": f"e{i}"})
            tt = last_start + 4 * dmax + 0.001 + rng.uniform(0, 0.5 * hb)
            for i in range(rng.choice([1, 1, 2, 3])):
                submits.append({"t": round(tt, 5), "mode": "leader", "node": 0, "cmd": f"t{i}", "tail": True})
                tt += rng.uniform(0, 0.4 * hb)
            submits.sort(key=lambda s: s["t"])
            horizon = round(max(s["t"] for s in submits) + 2 * hb + 12 * dmax + 0.01, 5)
    elif klass == "ml-recampaign":
        # one node campaigns repeatedly (start() 2-4 times, a retry typically before the slow first campaign finished), no
        # competitor, no fault; commands go to it whenever it is the established leader, one in flight at a time;
        # judged: every command it accepted as leader is decided and applied at every node
        dmax = max_delay(prof, per)
        starts = [{"t": t0, "node": lead0}]
        t = t0
        for _ in range(rng.choice([1, 1, 2, 3])):
            t += rng.choice([rng.uniform(0, 4 * scale), rng.uniform(0, 0.5 * dmax), rng.uniform(0, 1.5 * dmax)])
            starts.append({"t": round(t, 5), "node": lead0})
        tc = t0 + rng.uniform(0, 0.5 * dmax)
        for i in range(rng.randint(2, 6)):
            submits.append({"t": round(tc, 5), "mode": "leader", "node": 0, "cmd": f"c{i}"})
            tc += 2 * dmax + 1e-4 + rng.uniform(0, dmax)   # > 2 dmax also after rounding to 1e-5
        quiet = rng.random() < 0.5
        if quiet:
            # the node campaigns once more right after its last command (within one heartbeat interval, i.e. between its own
            # commit and the followers learning of it) and no command follows
            submits = submits[:rng.randint(1, 3)]
            starts.append({"t": round(submits[-1]["t"] + rng.choice([rng.uniform(0, 3 * scale), rng.uniform(0, hb)]), 5), "node": lead0})
            starts.sort(key=lambda s: s["t"])
        horizon = round(max([s["t"] for s in submits] + [starts[-1]["t"] + 4 * dmax]) + 2 * hb + 12 * dmax + 0.01, 5)
    elif klass in LIVE:
        base = t0 + 4 * dmax + 0.001
        for i in range(k):
            # back-to-back bursts (several slots in flight at once) mixed with spread-out commands
            if submits and rng.random() < 0.5:
                t = submits[-1]["t"] + rng.choice([0.0, rng.uniform(0, 0.5 * scale), rng.uniform(0, 2 * scale)])
            else:
                t = base + rng.uniform(0, 2.5 * hb)
            submits.append({"t": round(t, 5), "mode": "leader", "node": 0, "cmd": f"c{i}"})
        submits.sort(key=lambda s: s["t"])
        horizon = round(max(s["t"] for s in submits) + 2 * hb + 12 * dmax + 0.01, 5)
    else:
        span = max(s["t"] for s in starts) - t0 + rng.choice([0.3, 0.8, 1.5])
        for i in range(k):
            burst = rng.random() < 0.4 and submits
            t = submits[-1]["t"] + rng.uniform(0, 2 * scale) if burst else t0 + rng.uniform(0, span)
            mode = "leader" if rng.random() < 0.75 else "node"
            submits.append({"t": round(t, 5), "mode": mode, "node": rng.randrange(n), "cmd": f"c{i}"})
        submits.sort(key=lambda s: s["t"])
        horizon = round(max(s["t"] for s in submits + starts) + rng.choice([0.5, 1.0, 2.0]), 5)
    if klass not in ("ml-pingpong", "ml-recampaign"):
        quiet = False
    faults = []
    if klass in ("ml-single-faulty", "ml-multi"):
        faults = gen_fault_list(rng, n, horizon, ("partition", "crash", "pause", "loss", "loss"), max_faults=4)
    return {"fam": fam, "klass": klass, "seed": rng.getrandbits(32), "net_seed": rng.getrandbits(32), "n": n,
            "q1": q1, "q2": q2, "hb": hb, "profile": prof, "per_link": per, "faults": faults, "starts": starts,
            "submits": submits, "horizon": horizon, "quiet_tail": quiet,
            # ml-live-jitter judges liveness only: reordering inside the delay bound is not a fault, and the recorded
            # Multi/Flexible safety findings that reordering triggers must not end the run before liveness is judged
            "defer_fine": klass in ("ml-live-jitter", "ml-pingpong", "ml-recampaign") or (klass != "ml-live" and rng.random() < 0.3)}


EPS = 2e-5   # scenario times are quantised to 1e-5


def _validate(sc):
    fam = sc["fam"]
    if sc.get("klass") not in KLASSES:
        raise InvalidScenario("klass")
    n = sc.get("n", 0)
    if not 3 <= n <= 5:
        raise InvalidScenario("n")
    q1, q2 = sc.get("q1", 0), sc.get("q2", 0)
    if fam == "multi":
        if q1 != n // 2 + 1 or q2 != n // 2 + 1:
            raise InvalidScenario("multi uses majorities")
    elif not (1 <= q1 <= n and 1 <= q2 <= n and q1 + q2 > n):
        raise InvalidScenario("quorums must intersect")
    check_profile(sc.get("profile", {}), sc.get("per_link"))
    check_faults(sc.get("faults", []), n)
    if not 0.01 <= sc.get("hb", 0) <= 100 or not 0 < sc.get("horizon", 0) <= 600:
        raise InvalidScenario("hb/horizon")
    if not sc.get("starts"):
        raise InvalidScenario("no start")
    for s in sc["starts"]:
        if not 0 <= s.get("node", -1) < n or s.get("t", -1) < 0:
            raise InvalidScenario("start")
    cmds = set()
    for s in sc.get("submits", []):
        if not 0 <= s.get("node", -1) < n or s.get("t", -1) < 0 or s.get("mode") not in ("leader", "node"):
            raise InvalidScenario("submit")
        if not isinstance(s.get("cmd"), str) or s["cmd"] in cmds:
            raise InvalidScenario("commands must be unique")
        cmds.add(s["cmd"])
    k = sc["klass"]
    if k in ("ml-live", "ml-live-jitter", "ml-recampaign", "ml-single", "ml-single-faulty") and len({s["node"] for s in sc["starts"]}) != 1:
        raise InvalidScenario("single-starter class")
    if k in ("ml-live", "ml-live-jitter", "ml-pingpong", "ml-recampaign", "ml-single", "ml-multi-fifo") and sc.get("faults"):
        raise InvalidScenario("fault-free class")
    if k in FIFO:
        pr = [sc["profile"]] + list((sc.get("per_link") or {}).values())
        if any(p.get("jitter", 0) or p.get("straggler_p", 0) for p in pr):
            raise InvalidScenario("FIFO class needs constant per-link latency")
    if k == "ml-live-jitter":
        pr = [sc["profile"]] + list((sc.get("per_link") or {}).values())
        if any(p.get("straggler_p", 0) for p in pr) or not sc.get("defer_fine"):
            raise InvalidScenario("ml-live-jitter: bounded delays, liveness-only (deferred) mode")
    if k == "ml-recampaign":
        dmax = max_delay(sc["profile"], sc.get("per_link"))
        subs = sorted(s["t"] for s in sc.get("submits", []))
        if not sc.get("defer_fine") or not subs or any(s["mode"] != "leader" for s in sc["submits"]):
            raise InvalidScenario("ml-recampaign: liveness-only (deferred) mode, commands for the leader")
        if any(b - a < 2 * dmax - EPS for a, b in zip(subs, subs[1:])):
            raise InvalidScenario("ml-recampaign: one command in flight at a time")
        if sc["horizon"] < max(subs + [max(s["t"] for s in sc["starts"]) + 4 * dmax]) + 2 * sc["hb"] + 12 * dmax - EPS:
            raise InvalidScenario("liveness horizon too short")
    if k == "ml-pingpong":
        tail = [s for s in sc.get("submits", []) if s.get("tail")]
        dmax = max_delay(sc["profile"], sc.get("per_link"))
        last_start = max(s["t"] for s in sc["starts"])
        if sc.get("quiet_tail"):
            if not sc.get("defer_fine") or not sc.get("submits") or tail or any(s["mode"] != "leader" for s in sc["submits"]):
                raise InvalidScenario("ml-pingpong quiet: liveness-only mode, commands for the leader, none in the tail")
            if max(s["t"] for s in sc["submits"]) > last_start + EPS or sc["horizon"] < last_start + 4 * dmax + 2 * sc["hb"] + 12 * dmax - EPS:
                raise InvalidScenario("ml-pingpong quiet: commands before the last hand-over, horizon long enough")
        else:
            if not sc.get("defer_fine") or not tail or any(s["mode"] != "leader" for s in tail):
                raise InvalidScenario("ml-pingpong: liveness-only (deferred) mode with tail commands for the leader")
            if min(s["t"] for s in tail) < last_start + 4 * dmax - EPS:
                raise InvalidScenario("ml-pingpong: tail commands come after the last leader is established")
            if sc["horizon"] < max(s["t"] for s in tail) + 2 * sc["hb"] + 12 * dmax - EPS:
                raise InvalidScenario("liveness horizon too short")
    if k in LIVE:
        if any(s["mode"] != "leader" for s in sc.get("submits", [])) or not sc.get("submits") or len(sc["starts"]) != 1:
            raise InvalidScenario("liveness class: one start, commands go to the leader")
        dmax = max_delay(sc["profile"], sc.get("per_link"))
        if min(s["t"] for s in sc["submits"]) < sc["starts"][0]["t"] + 4 * dmax - EPS:
            raise InvalidScenario("liveness class: submit after the leader is established")
        if sc["horizon"] < max(s["t"] for s in sc["submits"]) + 2 * sc["hb"] + 12 * dmax - EPS:
            raise InvalidScenario("liveness horizon too short")


def run(sc):
    _validate(sc)
    fam, klass, n = sc["fam"], sc["klass"], sc["n"]
    P = PFX[fam]
    CLS = CLSNAME[fam]
    q2 = sc["q2"]
    seed_globals(sc["seed"])
    ref = NetRef()
    sms = [RecordingStateMachine() for _ in range(n)]
    if fam == "multi":
        nodes = [MultiPaxosNode(name=f"n{i}", network=ref, state_machine=sms[i], heartbeat_interval=sc["hb"]) for i in range(n)]
    else:
        nodes = [FlexiblePaxosNode(name=f"n{i}", network=ref, state_machine=sms[i], phase1_quorum=sc["q1"],
                                   phase2_quorum=q2, heartbeat_interval=sc["hb"]) for i in range(n)]
    for nd in nodes:
        nd.set_peers(nodes)
    net, links = build_mesh("net", nodes, sc["net_seed"], sc["profile"], sc.get("per_link") or None)
    ref.net = net
    sim = Simulation(entities=[net, *nodes, *links.values()], end_time=Instant.from_seconds(sc["horizon"]))
    fd = FaultDriver(net, nodes, links, sc.get("faults", []))
    sim.schedule(fd.events())
    J = Judge(sc.get("defer_fine", False), CLS)
    idx = {x.name: i for i, x in enumerate(nodes)}

    submitted = set()
    futures = []                 # [node, future, cmd, seen]
    accept_msg = {}              # (bn, bnode, slot) -> (cmd, sender)
    acc = {}                     # slot -> {(bn, bnode, cmd): set(acceptor names)}
    chosen = {}                  # slot -> (cmd, (bn, bnode))
    decided = [dict() for _ in range(n)]   # per node: slot -> cmd at first report
    first = {}                   # slot -> (node, cmd)
    seen_ci = [0] * n
    seen_log = [[] for _ in range(n)]
    was_leader = [False] * n
    skipped = {"no_leader": 0, "node_down": 0}
    pr = dict.fromkeys(["ml_leader_change", "ml_two_leaders_at_once", "ml_accept_out_of_order", "ml_truncate",
                        "ml_commit_via_heartbeat", "ml_pending_assigned_on_takeover", "ml_future_resolved",
                        "ml_leader_deposed_by_own_heartbeat", "ml_queued_at_non_leader", "ml_nack",
                        "ml_leader_uses_foreign_ballot", "ml_leader_kept_leading_after_own_tick",
                        "ml_command_after_first_tick_applied_everywhere", "ml_promise_reported_entries",
                        "ml_live_two_slots_in_flight", "ml_live_acks_out_of_slot_order", "ml_leader_regained_after_own_tick_while_deposed",
                        "ml_pingpong_tail_command_applied_everywhere", "ml_recampaign_stale_nack_reached_leader",
                        "ml_recampaign_command_applied_everywhere", "ml_quiet_handover_decided_command_applied_everywhere",
                        "ml_quiet_new_leader_re_replicated_inherited_slot"], 0)
    deposed_tick = set()         # nodes whose own heartbeat tick fired while they were not leader
    in_flight_max = [0]
    acks_ooo = [False]
    last_ack_slot = {}
    ticked = set()               # leaders that survived at least one own heartbeat tick
    late_cmds = []               # commands submitted to such a leader
    leaders_ever = []
    ack_msgs = {}                # (leader, slot) -> Accepted responses delivered to it
    promises_ml = {}             # (node, ballot number) -> promises from peers for its *own* ballot
    promised_log = {}            # (node, ballot number) -> {slot: (term, command)} highest-term entries reported by the
                                 # promises that formed its phase-1 quorum (the first q1-1 peer promises)
    last_ballot = {}             # node -> (number, node_id) last seen
    slots_committed = [0]

    def note_accept(slot, key, who):
        tab = acc.setdefault(slot, {})
        s = tab.setdefault(key, set())
        s.add(who)
        if len(s) >= q2:
            cmd, b = key[2], (key[0], key[1])
            if slot not in chosen:
                chosen[slot] = (cmd, b)
            elif chosen[slot][0] != cmd:
                J.fine("one-chosen-value-per-slot", "two-values-chosen",
                       f"slot {slot}: {chosen[slot][0]!r} was accepted by {q2} acceptors at ballot {chosen[slot][1]} and now "
                       f"{cmd!r} is accepted by {sorted(s)} at ballot {b}")

    def check_futures():
        for rec in futures:
            nd, fut, cmd, seen = rec
            if seen or not fut.is_resolved:
                continue
            rec[3] = True
            pr["ml_future_resolved"] = 1
            val = fut.value
            i = idx[nd.name]
            try:
                index = val[0]
            except Exception:
                J.coarse("future-is-decided-value", "malformed", f"{nd.name}: submit({cmd!r}) future resolved with {val!r}")
                continue
            if index > nd.log.commit_index:
                J.coarse("future-is-decided-value", "resolved-before-commit",
                         f"{nd.name}: submit({cmd!r}) future resolved with index {index} > commit_index {nd.log.commit_index}")
            e = nd.log.get(index)
            got = e.command if e is not None else None
            if got != cmd:
                J.coarse("future-is-decided-value", "other-command-at-index",
                         f"{nd.name}: submit({cmd!r}) future resolved with index {index}, but the decided entry there is {got!r}")

    def do_start(s):
        nd = nodes[s["node"]]

        def fn(ev):
            if getattr(nd, "_crashed", False):
                skipped["node_down"] += 1
                return None
            out = nd.start()
            observe(nd, ev, {}, "client.start")
            return out
        return fn

    def do_submit(s):
        def fn(ev):
            if s["mode"] == "leader":
                cands = [x for x in nodes if x.is_leader and not getattr(x, "_crashed", False)]
                if not cands:
                    skipped["no_leader"] += 1
                    return None
                nd = cands[s["node"] % len(cands)]
            else:
                nd = nodes[s["node"]]
                if getattr(nd, "_crashed", False):
                    skipped["node_down"] += 1
                    return None
            submitted.add(s["cmd"])
            lead = nd.is_leader
            fut = nd.submit(s["cmd"])
            futures.append([nd, fut, s["cmd"], False])
            out = None
            if lead:
                if nd.name in ticked:
                    late_cmds.append(s["cmd"])
                # the repo's documented way to push a freshly assigned slot (examples/distributed/flexible_paxos_quorums.py)
                out = nd._replicate_slot(nd.log.last_index)
            else:
                pr["ml_queued_at_non_leader"] = 1
            observe(nd, ev, {}, "client.submit")
            return out
        return fn

    for s in sc["starts"]:
        sim.schedule(Event.once(time=Instant.from_seconds(s["t"]), event_type="client.start", fn=do_start(s)))
    for s in sc.get("submits", []):
        sim.schedule(Event.once(time=Instant.from_seconds(s["t"]), event_type="client.submit", fn=do_submit(s)))

    def on_accept_send(md):
        b = (md["ballot_number"], md["ballot_node"])
        slot, cmd, sender = md["slot"], md["command"], md["source"]
        if cmd not in submitted:
            J.fine("accept-value-submitted", "None" if cmd is None else "unsubmitted",
                   f"{sender} sends Accept(ballot={b}, slot={slot}, command={cmd!r}); submitted so far: {sorted(submitted)}")
        if sender != b[1]:
            pr["ml_leader_uses_foreign_ballot"] = 1
            J.fine("accept-needs-own-completed-phase1", "foreign-ballot",
                   f"{sender} sends Accept(ballot={b}, slot={slot}, command={cmd!r}) under a ballot owned by {b[1]} "
                   f"(it still has is_leader=True although its current ballot is another node's)")
        elif promises_ml.get((sender, b[0]), 0) + 1 < sc["q1"]:
            J.fine("accept-needs-own-completed-phase1", "phase1-incomplete",
                   f"{sender} sends Accept(ballot={b}, slot={slot}, command={cmd!r}) after only "
                   f"{promises_ml.get((sender, b[0]), 0)} promises from peers for that ballot (phase-1 quorum {sc['q1']} incl. itself)")
        k = (b[0], b[1], slot)
        if k in accept_msg:
            old_cmd, old_sender = accept_msg[k]
            if old_cmd != cmd:
                J.fine("one-value-per-ballot-slot", "two-senders-one-ballot" if old_sender != sender else "same-sender",
                       f"Accept(ballot={b}, slot={slot}) carried {old_cmd!r} (from {old_sender}) and now {cmd!r} (from {sender})")
        else:
            accept_msg[k] = (cmd, sender)
        if sender == b[1]:
            pe = promised_log.get((sender, b[0]), {}).get(slot)
            own = nodes[idx[sender]].log.get(slot)
            if pe is not None and pe[1] != cmd and pe[0] < b[0] and own is not None and (own.term == b[0] or own.term < pe[0]):
                J.fine("accept-respects-earlier-ballots", "ignores-promised-entry",
                       f"{sender} became leader for ballot {b} on promises that report slot {slot} = {pe[1]!r} accepted at ballot "
                       f"number {pe[0]}, yet it sends Accept(ballot={b}, slot={slot}, command={cmd!r}) "
                       f"(its own entry there has term {own.term})")
        if slot in chosen and chosen[slot][0] != cmd and b > chosen[slot][1]:
            J.fine("accept-respects-earlier-ballots", "overwrites-chosen-slot",
                   f"slot {slot}: {chosen[slot][0]!r} is chosen (accepted by {q2} acceptors at ballot {chosen[slot][1]}), "
                   f"yet {sender} sends Accept(ballot={b}, slot={slot}, command={cmd!r})")
        # the sender holds the entry in its own log and counts itself
        snd = nodes[idx[sender]]
        e = snd.log.get(slot)
        if e is not None and e.command == cmd:
            note_accept(slot, (b[0], b[1], cmd), sender)

    def observe(x, ev, md, et):
        i = idx[x.name]
        log = x.log
        cur = [e.command for e in log.entries_after(0)]
        old = seen_log[i]
        cbn = (x._current_ballot.number, x._current_ballot.node_id)
        if cbn < last_ballot.get(x.name, (0, "")):
            J.fine("ballot-monotone", f"ballot-decreased-on-{et.replace(P, '')}",
                   f"{x.name}'s ballot went from {last_ballot[x.name]} to {cbn} during {et}")
        last_ballot[x.name] = cbn
        if et == P + "Promise" and md.get("ballot_node") == x.name:
            pk = (x.name, md.get("ballot_number"))
            promises_ml[pk] = promises_ml.get(pk, 0) + 1
            if promises_ml[pk] <= sc["q1"] - 1:
                tab = promised_log.setdefault(pk, {})
                for e in md.get("log_entries", []) or []:
                    pr["ml_promise_reported_entries"] = 1
                    cur_e = tab.get(e["index"])
                    if cur_e is None or e["term"] > cur_e[0]:
                        tab[e["index"]] = (e["term"], e["command"])
        if et == P + "Accepted":
            if md.get("slot", 0) < last_ack_slot.get(x.name, 0) and md.get("slot", 0) > log.commit_index:
                acks_ooo[0] = True
            last_ack_slot[x.name] = max(last_ack_slot.get(x.name, 0), md.get("slot", 0))
            in_flight_max[0] = max(in_flight_max[0], log.last_index - log.commit_index)
            ack_msgs[(x.name, md.get("slot"))] = ack_msgs.get((x.name, md.get("slot")), 0) + 1
        # --- acceptor answered an Accept
        if et == P + "Accept":
            b = (md["ballot_number"], md["ballot_node"])
            slot, cmd = md["slot"], md["command"]
            if slot > len(old) + 1:
                pr["ml_accept_out_of_order"] = 1
            cb = x._current_ballot
            if (cb.number, cb.node_id) == b:  # not nacked: the node answers Accepted for (b, slot)
                e = log.get(slot)
                if e is None or e.command != cmd:
                    if e is None:
                        detail = "slot-beyond-log-end"
                    elif e.term == b[0]:
                        detail = "kept-entry-of-equal-ballot-number"
                    else:
                        detail = "kept-other-entry"
                    J.fine("accepted-means-stored", detail,
                           f"{x.name} answers Accepted(ballot={b}, slot={slot}) for command {cmd!r} but its log holds "
                           f"{(e.command if e else None)!r} at index {slot} (log length {log.last_index}, was {len(old)} before)")
                else:
                    note_accept(slot, (b[0], b[1], cmd), x.name)
            else:
                pr["ml_nack"] = 1
        if et == P + "Nack" and klass == "ml-recampaign" and md.get("ballot_node") == x.name \
                and (md.get("ballot_number"), md.get("ballot_node")) == (x._current_ballot.number, x._current_ballot.node_id):
            pr["ml_recampaign_stale_nack_reached_leader"] = 1   # a nack that only names the node's own current ballot
        if len(cur) < len(old) or any(a != c for a, c in zip(old, cur)):
            pr["ml_truncate"] = 1
        # --- leadership probes
        lead = x.is_leader
        was_leader_before = was_leader[i]
        if lead != was_leader[i]:
            if lead:
                if x.name not in leaders_ever:
                    leaders_ever.append(x.name)
                if len(leaders_ever) > 1:
                    pr["ml_leader_change"] = 1
                if len(cur) > len(old):
                    pr["ml_pending_assigned_on_takeover"] = 1
                if sc.get("quiet_tail") and log.last_index > log.commit_index:
                    pr["ml_quiet_new_leader_re_replicated_inherited_slot"] = 1
            elif et == P + "Heartbeat" and md.get("self_heartbeat"):
                pr["ml_leader_deposed_by_own_heartbeat"] = 1
            was_leader[i] = lead
        if (not lead) and et == P + "Heartbeat" and md.get("self_heartbeat"):
            deposed_tick.add(x.name)
        if lead and not was_leader_before and x.name in deposed_tick:
            pr["ml_leader_regained_after_own_tick_while_deposed"] = 1
        if lead and et == P + "Heartbeat" and md.get("self_heartbeat"):
            pr["ml_leader_kept_leading_after_own_tick"] = 1
            ticked.add(x.name)
        if lead and sum(1 for y in nodes if y.is_leader) > 1:
            pr["ml_two_leaders_at_once"] = 1
        # --- decisions: entries up to commit_index
        ci = log.commit_index
        dx = decided[i]
        if ci < seen_ci[i]:
            # a decision that was reported is withdrawn (the weak form of "a reported decision never changes");
            # handled as a fine invariant so that deferred runs can go on to a changed / conflicting decision
            J.fine("decided-slot-not-withdrawn", f"commit-index-regressed-on-{et.replace(P, '')}",
                   f"{x.name} reported slots 1..{seen_ci[i]} decided; during {et} its commit index fell to {ci} "
                   f"(log length now {log.last_index})")
            seen_ci[i] = ci
        for s in range(1, ci + 1):
            if s > seen_ci[i]:
                break
            e = log.get(s)
            got = e.command if e is not None else None
            if got != dx.get(s):
                J.coarse("stability", "decided-entry-changed",
                         f"{x.name} reported {dx.get(s)!r} decided at slot {s}; during {et} the entry became {got!r}")
        if ci > seen_ci[i]:
            if et == P + "Heartbeat":
                pr["ml_commit_via_heartbeat"] = 1
            for s in range(seen_ci[i] + 1, ci + 1):
                e = log.get(s)
                cmd = e.command if e is not None else None
                ch = chosen.get(s)
                if ch is None or ch[0] != cmd:
                    if et == P + "Accepted":
                        role = "leader"
                        if s < md.get("slot", s):
                            why = "lower-slot-committed-along-with-higher"
                        elif ch is not None:
                            why = "entry-differs-from-chosen"
                        elif ack_msgs.get((x.name, s), 0) + 1 < q2:
                            why = "fewer-acks-than-quorum"
                        else:
                            why = "acks-not-a-quorum-of-holders"
                    else:
                        role = "follower-via-" + et.replace(P, "")
                        why = "slot-not-chosen" if ch is None else "entry-differs-from-chosen"
                    holders = {f"{k[2]}@{k[0]},{k[1]}": sorted(v) for k, v in sorted(acc.get(s, {}).items(), key=repr)}
                    J.fine("commit-needs-chosen", f"{role}/{why}",
                           f"{x.name} commits slot {s} = {cmd!r} during {et}; chosen there: {ch}; holders by (command@ballot): {holders}; "
                           f"phase-2 quorum is {q2}")
                if s in dx and dx[s] != cmd:
                    J.coarse("stability", "slot-redecided-differently",
                             f"{x.name} reported {dx[s]!r} decided at slot {s}, withdrew it, and now reports {cmd!r} decided there")
                dx[s] = cmd
                slots_committed[0] = max(slots_committed[0], s)
                if cmd not in submitted:
                    J.coarse("validity", "None" if cmd is None else "unsubmitted",
                             f"{x.name} reports {cmd!r} decided at slot {s}; submitted commands: {sorted(submitted)}")
                if s not in first:
                    first[s] = (x.name, cmd)
                elif first[s][1] != cmd:
                    J.coarse("agreement", "two-values-one-slot",
                             f"slot {s}: {first[s][0]} reported {first[s][1]!r} decided, {x.name} reports {cmd!r}")
            seen_ci[i] = ci
        # --- applied sequence == decided prefix
        ap = sms[i].applied
        for j, c in enumerate(ap):
            if dx.get(j + 1) != c:
                J.coarse("applied-is-decided-prefix", "applied-differs-from-decided",
                         f"{x.name} applied {c!r} as command #{j + 1} but reported {dx.get(j + 1)!r} decided at slot {j + 1}")
                break
        seen_log[i] = cur
        check_futures()

    def invariant(ev, mon):
        tgt = ev.target
        et = ev.event_type
        if tgt is net:
            if et == P + "Accept" and is_first_hop(ev, net):
                on_accept_send(ev.context.get("metadata", {}))
            return
        if type(tgt) is not type(nodes[0]) or getattr(tgt, "_crashed", False):
            return
        observe(tgt, ev, ev.context.get("metadata", {}), et)

    mon = Monitor(sim, cap=80_000, invariant=invariant)
    status, payload = run_sim(sim)
    sig, msg = None, ""
    if status in ("violation", "exception"):
        sig, msg = payload.sig, payload.msg
        if status == "exception":
            sig = f"C12/{sig}"
    elif status == "ok" and (klass in LIVE or klass in ("ml-pingpong", "ml-recampaign")):
        dmax = max_delay(sc["profile"], sc.get("per_link"))
        tag = "/leader-deposed-by-own-heartbeat" if pr["ml_leader_deposed_by_own_heartbeat"] else ""
        bad = None
        tail_cmds = {s["cmd"] for s in sc.get("submits", []) if s.get("tail")}
        for nd, fut, cmd, _ in futures:
            if sc.get("quiet_tail"):
                if not any(cmd in d.values() for d in decided):
                    continue  # quiet hand-over: judged is "decided somewhere => applied everywhere", nothing else
            elif klass == "ml-pingpong" and cmd not in tail_cmds:
                continue  # only commands given to the leader established in the quiet tail are judged
            lagging = [x.name for j, x in enumerate(nodes) if cmd not in sms[j].applied]
            if not any(cmd in d.values() for d in decided):
                bad = ("never-decided", f"command {cmd!r} submitted to established leader {nd.name} was decided nowhere")
            elif lagging:
                # does a lagging node at least hold the entry (it only never learned the commit), or did it never get it?
                lacks = [x.name for x in nodes if x.name in lagging and all(e.command != cmd for e in x.log.entries_after(0))]
                kind = "not-applied-everywhere/follower-lacks-entry" if lacks else "not-applied-everywhere"
                if not lacks:
                    # cause visible in the history: the node that leads at the end inherited the slot (it did not take the
                    # command from the client), re-replicated it, got acks from q2-1 peers and still did not commit it,
                    # because it never counts itself for a slot it did not assign
                    for L in nodes:
                        if L.is_leader and L is not nd:
                            idxs = [e.index for e in L.log.entries_after(0) if e.command == cmd]
                            if idxs and idxs[0] > L.log.commit_index:
                                a = ack_msgs.get((L.name, idxs[0]), 0)
                                if a < q2 <= a + 1:
                                    kind += "/new-leader-does-not-count-itself-for-inherited-slot"
                                    break
                bad = (kind, f"command {cmd!r} submitted to established leader {nd.name} was never applied at {lagging}"
                             + (f"; {lacks} do not even hold the entry in their log" if lacks else " (they hold the entry)"))
            elif not fut.is_resolved and not sc.get("quiet_tail"):
                bad = ("future-unresolved", f"submit({cmd!r}) future at {nd.name} never resolved")
            if bad:
                break
        if bad:
            if J.first_fine:  # liveness-only class: name the recorded safety cause that preceded the liveness failure
                tag += f"/after:{J.first_fine[0]}:{J.first_fine[1]}"
            sig = f"C12/liveness/{CLS}/{bad[0]}{tag}"
            msg = (f"fault-free, {'bounded jitter (reordering)' if klass == 'ml-live-jitter' else 'bounded delays with stragglers' if klass == 'ml-recampaign' else 'FIFO links'}, delays <= {dmax:.4f}s, heartbeat {sc['hb']}s, horizon {sc['horizon']}s: {bad[1]}; "
                   f"commit indexes {[x.log.commit_index for x in nodes]}, leaders now {[x.name for x in nodes if x.is_leader]}, "
                   f"commands skipped because no node was leader: {skipped['no_leader']}")
    pr["ml_quiet_handover_decided_command_applied_everywhere"] = int(bool(sc.get("quiet_tail")) and any(
        any(c in d.values() for d in decided) and all(c in sm.applied for sm in sms) for _, _, c, _ in futures))
    pr["ml_recampaign_command_applied_everywhere"] = int(klass == "ml-recampaign" and any(
        all(c in sm.applied for sm in sms) for _, _, c, _ in futures))
    pr["ml_pingpong_tail_command_applied_everywhere"] = int(klass == "ml-pingpong" and any(
        s.get("tail") and all(s["cmd"] in sm.applied for sm in sms) for s in sc.get("submits", [])))
    pr["ml_live_two_slots_in_flight"] = int(klass in LIVE and in_flight_max[0] >= 2)
    pr["ml_live_acks_out_of_slot_order"] = int(klass in LIVE and acks_ooo[0])
    pr["ml_command_after_first_tick_applied_everywhere"] = int(any(all(c in sm.applied for sm in sms) for c in late_cmds))
    counters = {f"probe.{k}": v for k, v in pr.items()}
    counters["probe.flex_q2_below_majority"] = int(fam == "flex" and q2 < n // 2 + 1)
    counters.update(fd.counters())
    counters["budget_exhausted"] = int(status == "budget")
    counters["ml.submit_skipped_no_leader"] = skipped["no_leader"]
    counters["ml.op_skipped_node_down"] = skipped["node_down"]
    counters["deferred_fine_without_coarse"] = int(J.defer and J.first_fine is not None and sig is None)

    def rank(vals):
        order = sorted(set(vals))
        return [order.index(v) for v in vals]

    br = rank([(x._current_ballot.number, x._current_ballot.node_id) for x in nodes])
    state = repr((fam, n, q2, sorted(zip([x.is_leader for x in nodes], br, [x.log.last_index for x in nodes],
                                         [x.log.commit_index for x in nodes]))))
    nontrivial = slots_committed[0] >= 2 and status != "budget"
    return result(sig=sig, msg=msg, digest=mon.digest, nontrivial=nontrivial, counters=counters,
                  sim_s=mon.last_time_ns / 1e9, deliveries=mon.seq, klass=f"{fam}:{klass}", state=state)
