"""Storage harness shared by C14 (map semantics, transactions) and C15 (crash
durability): engine builders from JSON, client processes that run *inside* the
real engine, read-only introspection of LSM internals used to name the cause
of a bad read, and the online regular-register oracle.

Nothing here changes repository behaviour: engines are the repo's classes,
clients are ordinary `Entity` subclasses whose `handle_event` returns a
generator, and all inspection is read-only.
"""
from __future__ import annotations

import bisect

from simkit import repo

repo.activate()

from happysimulator.components.datastore.kv_store import KVStore  # noqa: E402
from happysimulator.components.storage import lsm_tree as _lsm  # noqa: E402
from happysimulator.components.storage.btree import BTree  # noqa: E402
from happysimulator.components.storage.lsm_tree import (  # noqa: E402
    FIFOCompaction,
    LeveledCompaction,
    LSMTree,
    SizeTieredCompaction,
)
from happysimulator.components.storage.wal import (  # noqa: E402
    SyncEveryWrite,
    SyncOnBatch,
    SyncPeriodic,
    WriteAheadLog,
)
from happysimulator.core.entity import Entity  # noqa: E402
from happysimulator.core.event import Event  # noqa: E402
from happysimulator.core.temporal import Instant  # noqa: E402

from simkit.world import InvalidScenario, Violation  # noqa: E402

TOMB = _lsm._TOMBSTONE
HI_SENTINEL = "~"  # greater than every generated key ("k..")


# --------------------------------------------------------------------------
# building engines from JSON specs
# --------------------------------------------------------------------------

def _need(d: dict, key: str, typ=(int,), lo=None, hi=None):
    if not isinstance(d, dict) or key not in d:
        raise InvalidScenario(f"missing {key}")
    v = d[key]
    if isinstance(v, bool) or not isinstance(v, typ):
        raise InvalidScenario(f"bad type for {key}")
    if lo is not None and v < lo:
        raise InvalidScenario(f"{key} below {lo}")
    if hi is not None and v > hi:
        raise InvalidScenario(f"{key} above {hi}")
    return v


def build_wal(spec: dict | None, name: str = "wal") -> WriteAheadLog | None:
    if spec is None:
        return None
    pol = spec.get("policy")
    if pol == "every":
        policy = SyncEveryWrite()
    elif pol == "batch":
        policy = SyncOnBatch(_need(spec, "n", lo=1, hi=64))
    elif pol == "periodic":
        policy = SyncPeriodic(_need(spec, "interval_us", lo=1) / 1e6)
    else:
        raise InvalidScenario("wal policy")
    return WriteAheadLog(
        name, sync_policy=policy,
        write_latency=_need(spec, "w_us", lo=0) / 1e6,
        sync_latency=_need(spec, "s_us", lo=0) / 1e6,
    )


def build_strategy(spec: dict):
    s = spec.get("strategy")
    p = _need(spec, "p", lo=1, hi=64)
    if s == "size_tiered":
        if p < 2:
            raise InvalidScenario("min_sstables < 2 compacts a level into itself forever")
        return SizeTieredCompaction(min_sstables=p)
    if s == "leveled":
        return LeveledCompaction(level_0_max=max(2, p), size_ratio=_need(spec, "ratio", lo=2, hi=10),
                                 base_size_keys=_need(spec, "base", lo=1, hi=1000))
    if s == "fifo":
        return FIFOCompaction(max_total_sstables=p)
    raise InvalidScenario("strategy")


def build_engine(spec: dict, name: str = "db"):
    """-> (engine, [entities to register])"""
    kind = spec.get("kind") if isinstance(spec, dict) else None
    if kind == "lsm":
        wal = build_wal(spec.get("wal"), f"{name}_wal")
        eng = LSMTree(
            name,
            memtable_size=_need(spec, "memtable", lo=1, hi=64),
            compaction_strategy=build_strategy(spec),
            wal=wal,
            sstable_read_latency=_need(spec, "r_us", lo=0) / 1e6,
            sstable_write_latency=_need(spec, "w_us", lo=0) / 1e6,
            max_levels=_need(spec, "max_levels", lo=2, hi=7),
        )
        return eng, [eng]  # LSMTree.set_clock propagates to memtable and WAL
    if kind == "btree":
        eng = BTree(name, order=_need(spec, "order", lo=3, hi=64),
                    page_read_latency=_need(spec, "r_us", lo=0) / 1e6,
                    page_write_latency=_need(spec, "w_us", lo=0) / 1e6)
        return eng, [eng]
    if kind == "kv":
        eng = KVStore(name, read_latency=_need(spec, "r_us", lo=0) / 1e6,
                      write_latency=_need(spec, "w_us", lo=0) / 1e6,
                      delete_latency=_need(spec, "d_us", lo=0) / 1e6)
        return eng, [eng]
    raise InvalidScenario("engine kind")


def gen_lsm_spec(rng, *, memtable=None, wal="maybe", strategy=None) -> dict:
    strategy = strategy or rng.choice(["size_tiered", "leveled", "fifo"])
    spec = {
        "kind": "lsm", "strategy": strategy,
        "memtable": memtable if memtable is not None else rng.choice([1, 1, 2, 2, 3, 4, 6, 8]),
        "max_levels": rng.choice([2, 2, 3, 3, 4]),
        "r_us": rng.choice([200, 1000, 1000, 3000]),
        "w_us": rng.choice([0, 500, 2000, 2000, 5000]),
    }
    if strategy == "size_tiered":
        spec["p"] = rng.choice([2, 2, 3, 4])
    elif strategy == "leveled":
        spec["p"] = rng.choice([2, 2, 3, 4])
        spec["ratio"] = rng.choice([2, 2, 3])
        spec["base"] = rng.choice([1, 1, 2, 3])
    else:
        spec["p"] = rng.choice([1, 2, 3, 4])
    if wal == "maybe":
        spec["wal"] = gen_wal_spec(rng) if rng.random() < 0.4 else None
    elif wal == "yes":
        spec["wal"] = gen_wal_spec(rng)
    else:
        spec["wal"] = None
    return spec


def gen_wal_spec(rng, policy=None) -> dict:
    policy = policy or rng.choice(["every", "batch", "periodic"])
    w = {"policy": policy, "w_us": rng.choice([0, 100, 100, 400]), "s_us": rng.choice([200, 1000, 1000, 3000])}
    if policy == "batch":
        w["n"] = rng.choice([1, 2, 2, 3, 4])
    if policy == "periodic":
        w["interval_us"] = rng.choice([500, 2000, 5000, 20000])
    return w


# --------------------------------------------------------------------------
# read-only introspection
# --------------------------------------------------------------------------

def gen_chain(gen) -> list[str]:
    """Names of the nested generator frames a *suspended* process is in
    (outermost first), following `yield from` links."""
    out = []
    seen = 0
    while gen is not None and hasattr(gen, "gi_code") and seen < 12:
        out.append(gen.gi_code.co_name)
        gen = gen.gi_yieldfrom
        seen += 1
    return out


class ProcTracker:
    """Knows every process generator the harness started, so that "who is
    inside _flush_memtable / _compact right now" can be answered read-only."""

    def __init__(self):
        self.procs: list = []

    def add(self, gen):
        self.procs.append(gen)
        return gen

    def phases(self, skip=None) -> dict:
        flush = compact = 0
        for g in self.procs:
            if g is skip or g.gi_frame is None:
                continue
            ch = gen_chain(g)
            if "_compact" in ch:
                compact += 1
            elif "_flush_memtable" in ch:
                flush += 1
        return {"flush": flush, "compact": compact}


# Falsy values a store must keep apart from "absent".  Under `canon` the seven are pairwise different (0 == 0.0 == False in
# Python, so values are compared by type and repr); a scenario uses each of them at most once per key, so every value written
# to a key is still unique and reads stay attributable.
FALSY_MAKERS = [lambda: 0, lambda: 0.0, lambda: False, lambda: "", lambda: (), lambda: [], lambda: {}]


def make_value(op: dict, default: str):
    fv = op.get("fv")
    if fv is None:
        return default
    if isinstance(fv, bool) or not isinstance(fv, int) or not 0 <= fv < len(FALSY_MAKERS):
        raise InvalidScenario("fv")
    return FALSY_MAKERS[fv]()


def canon(v):
    """Hashable, type-exact stand-in for a stored value (None and the tombstone sentinel stay what they are)."""
    if v is None or v is TOMB or (isinstance(v, str) and v):
        return v
    return ("value", type(v).__name__, repr(v))


def check_fv_unique(pairs) -> None:
    """pairs: iterable of (key id, fv or None); a falsy value may be written at most once per key in one scenario."""
    seen = set()
    for key, fv in pairs:
        if fv is None:
            continue
        if (key, fv) in seen:
            raise InvalidScenario("the same falsy value written twice to one key")
        seen.add((key, fv))


def assign_falsy(rng, ops, p=0.15, used=None, key_of=lambda o: o["k"]):
    """Give a share of the put-like ops a falsy value, each of the seven at most once per key."""
    used = used if used is not None else {}
    for o in ops:
        if rng.random() < p:
            free = [i for i in range(len(FALSY_MAKERS)) if i not in used.setdefault(key_of(o), set())]
            if free:
                o["fv"] = rng.choice(free)
                used[key_of(o)].add(o["fv"])
    return used


def norm(v):
    return None if v is TOMB else canon(v)


def sst_lookup(sst, key):
    """Raw contents of an SSTable for key (bypasses bloom filter and index)."""
    i = bisect.bisect_left(sst._keys, key)
    if i < len(sst._keys) and sst._keys[i] == key:
        return True, sst._values[i]
    return False, None


def lsm_view(lsm: LSMTree, key) -> list[tuple[str, object]]:
    """Every entry for `key` in documented read order (memtable, immutable
    memtables newest first, L0.. with newest SSTable first)."""
    out = []
    if key in lsm._memtable._data:
        out.append(("mem", lsm._memtable._data[key]))
    for imm in reversed(lsm._immutable_memtables):
        if key in imm._data:
            out.append(("imm", imm._data[key]))
    for li, level in enumerate(lsm._levels):
        for sst in reversed(level):
            ok, v = sst_lookup(sst, key)
            if ok:
                out.append((f"L{li}", v))
    return out


class LsmWatch:
    """Per-delivery, read-only bookkeeping on an LSMTree:
    * the last non-empty contents seen for each memtable object (so that the
      contents of a memtable that `Memtable.flush()` has already cleared are
      still known while its SSTable is not installed yet);
    * shape probes (levels occupied, tombstones in SSTables, ...)."""

    def __init__(self, lsm: LSMTree):
        self.lsm = lsm
        self._snaps: dict[int, tuple[object, dict]] = {}
        self.max_levels_occupied = 0
        self.deepest_level_used = 0
        self.saw_tombstone_in_sst = False
        self.saw_immutable = False
        self.max_sst_total = 0
        self.tombstone_dropped = False
        self.compaction_requests_while_busy = 0
        self._tomb_keys: set = set()
        self._seen_sst: set[int] = set()
        self._keep: list = []
        self._flushes = 0
        self._compacting_prev = 0
        self.observe()

    def observe(self, compacting: int = 0) -> None:
        """`compacting` = number of processes currently suspended inside _compact."""
        lsm = self.lsm
        mt = lsm._memtable
        if mt._data:
            self._snaps[id(mt)] = (mt, dict(mt._data))
        if lsm._immutable_memtables:
            self.saw_immutable = True
        if len(self._snaps) > 8:
            live = {id(mt)} | {id(m) for m in lsm._immutable_memtables}
            for k in [k for k in self._snaps if k not in live]:
                del self._snaps[k]
        occ = 0
        total = 0
        for li, level in enumerate(lsm._levels):
            if level:
                occ += 1
                total += len(level)
                if li > self.deepest_level_used:
                    self.deepest_level_used = li
        if occ > self.max_levels_occupied:
            self.max_levels_occupied = occ
        if total != self.max_sst_total or True:
            # new SSTables: remember which keys have a tombstone on disk; a key whose tombstone was on disk and that now has
            # no entry in any structure had its tombstone dropped by a compaction into the deepest level
            fresh = False
            for level in lsm._levels:
                for sst in level:
                    if id(sst) not in self._seen_sst:
                        self._seen_sst.add(id(sst))
                        self._keep.append(sst)
                        fresh = True
                        for k, v in zip(sst._keys, sst._values):
                            if v is TOMB:
                                self._tomb_keys.add(k)
                                self.saw_tombstone_in_sst = True
            if fresh and not self.tombstone_dropped:
                for k in self._tomb_keys:
                    if not lsm_view(lsm, k):
                        self.tombstone_dropped = True
                        break
        if total > self.max_sst_total:
            self.max_sst_total = total
        fl = lsm._total_memtable_flushes
        if fl != self._flushes:
            self._flushes = fl
            # a flush finished in this delivery; if a compaction was already running before it and none was started by it,
            # its compaction request was turned down by the one-compaction-at-a-time guard
            if getattr(lsm, "_compaction_in_progress", False) and self._compacting_prev >= 1 and compacting <= self._compacting_prev \
                    and lsm._compaction_strategy.should_compact(lsm._levels):
                self.compaction_requests_while_busy += 1
        self._compacting_prev = compacting

    def scan_tombstones(self) -> None:
        if self.saw_tombstone_in_sst:
            return
        for level in self.lsm._levels:
            for sst in level:
                if any(v is TOMB for v in sst._values):
                    self.saw_tombstone_in_sst = True
                    return

    def flushing_contents(self) -> list[dict]:
        """Contents (as last seen) of memtables that are in the immutable list
        right now, i.e. being flushed."""
        out = []
        for imm in self.lsm._immutable_memtables:
            s = self._snaps.get(id(imm))
            if s is not None and s[0] is imm:
                out.append(s[1])
        return out

    def capture(self, key) -> dict:
        """What a cause diagnosis needs, captured at the instant a read begins."""
        return {"view": lsm_view(self.lsm, key),
                "flushing": [norm(s[key]) for s in self.flushing_contents() if key in s],
                "imm": len(self.lsm._immutable_memtables),
                "levels": [list(level) for level in self.lsm._levels]}


class FlushOrderWatch:
    """Read-only: did a frozen memtable's flush complete (leave the immutable list) while an OLDER frozen memtable was still
    being written?  Also: were two flushes with different write times (pages = keys // 16) ever in flight together?"""

    def __init__(self, lsm):
        self.lsm = lsm
        self.prev = list(lsm._immutable_memtables)
        self.inverted = False
        self.different_write_times = False
        self.younger_waited = False

    def observe(self):
        now = list(self.lsm._immutable_memtables)
        for i, m in enumerate(self.prev):
            if m not in now and any(o in now for o in self.prev[:i]):
                self.inverted = True
        if len(now) >= 2 and len({max(1, len(m._data) // 16) for m in now}) >= 2:
            self.different_write_times = True
        if getattr(self.lsm, "_written_sstables", None):
            self.younger_waited = True
        self.prev = now


def order_suffix(overlap_seen: bool, flush_inverted: bool) -> str:
    if overlap_seen:
        return "after-overlapping-compactions"
    if flush_inverted:
        return "after-out-of-order-flush-completion"
    return "compactions-never-overlapped"


def diagnose_lsm(cap: dict, allowed: set, got, lsm, overlap_seen: bool, flush_inverted: bool = False) -> str:
    """Name the cause of a bad LSM read from the contents captured when the
    read began.  The verdict itself never depends on this; it only makes the
    signature narrow (one signature per mechanism)."""
    view = cap["view"]
    first = norm(view[0][1]) if view else None
    in_flush = any(v in allowed for v in cap["flushing"])
    if got == first:
        # the read agrees with what the structures held when it began: the contents were wrong
        if in_flush:
            return "held-only-by-flushing-memtable"
        suffix = order_suffix(overlap_seen, flush_inverted)
        if any(norm(v) in allowed for _, v in view[1:]):
            return f"newer-entry-below-older/{suffix}"
        if None in allowed and got is not None:
            return f"tombstone-missing-older-value-remains/{suffix}"
        return f"latest-write-in-no-structure/{suffix}"
    replaced = any(sst not in lsm._levels[li] for li, lvl in enumerate(cap["levels"]) for sst in lvl)
    if replaced:
        return "sstables-replaced-by-compaction-during-read"
    if in_flush:
        return "held-only-by-flushing-memtable"
    return "read-path-disagrees-with-contents"


# --------------------------------------------------------------------------
# regular-register oracle, online form
# --------------------------------------------------------------------------

def wval(w):
    return None if w["kind"] == "delete" else w["value"]


def allowed_values(ws: list[dict], inv: float, ret: float, initial=None) -> set:
    """Values a read with interval [inv, ret] may return: the latest write that
    completed before `inv` (or one that overlapped it), or any write that
    overlaps the read.  Same rule as simkit.history.check_regular_register."""
    allowed = set()
    latest = None
    for w in ws:
        r = w["ret"]
        if r is not None and r < inv and (latest is None or r > latest["ret"]):
            latest = w
    if latest is None:
        allowed.add(initial)
    else:
        allowed.add(wval(latest))
        li = latest["inv"]
        for w in ws:
            r = w["ret"]
            if w is latest or r is None or r >= inv:
                continue
            if r > li:
                allowed.add(wval(w))
    for w in ws:
        r = w["ret"]
        if w["inv"] < ret and (r is None or r > inv):
            allowed.add(wval(w))
    return allowed


def bad_kind(ws: list[dict], got, initial=None) -> str:
    known = {wval(w) for w in ws} | {initial}
    if got not in known:
        return "read-never-written"
    return "stale-read" if got is not None else "lost-write"


# --------------------------------------------------------------------------
# entities
# --------------------------------------------------------------------------

class Kicker(Entity):
    """Delivers CompactionTrigger events to the LSM tree through its public
    `handle_event` and keeps the returned generator so the tracker can see it."""

    def __init__(self, name, lsm, tracker: ProcTracker):
        super().__init__(name)
        self.lsm = lsm
        self.tracker = tracker
        self.fired = 0

    def handle_event(self, event):
        ev = Event(time=event.time, event_type="CompactionTrigger", target=self.lsm)
        g = self.lsm.handle_event(ev)
        if g is not None:
            self.fired += 1
            return self.tracker.add(g)
        return None


def start_event(t_ns: int, target, kind: str = "start") -> Event:
    return Event(time=Instant(int(t_ns)), event_type=kind, target=target)


def check_index(i, n, what="key index"):
    if isinstance(i, bool) or not isinstance(i, int) or not 0 <= i < n:
        raise InvalidScenario(f"{what} out of range")
    return i


def gap_s(op: dict) -> float:
    g = op.get("gap_ns", 0)
    if isinstance(g, bool) or not isinstance(g, int) or g < 0:
        raise InvalidScenario("gap")
    return g / 1e9


__all__ = [n for n in dir() if not n.startswith("__")]
