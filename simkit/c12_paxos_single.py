"""C12, single-decree PaxosNode family (owned by the C12 check)."""
from __future__ import annotations

from happysimulator.components.consensus.paxos import PaxosNode
from happysimulator.core.event import Event
from happysimulator.core.simulation import Simulation
from happysimulator.core.temporal import Instant

from simkit.c12_common import (Judge, NetRef, check_faults, check_profile, gen_fault_list, gen_net, gen_per_link,
                               is_first_hop, max_delay)
from simkit.chaosnet import FaultDriver, build_mesh
from simkit.rng import seed_globals
from simkit.world import InvalidScenario, Monitor, result, run_sim

CLS = "PaxosNode"
FALSY = [0, "", False, [], 0.0]   # legal proposal values that are falsy; [] stands for the empty tuple ()


def K(v):
    """Type-aware identity of a value: 0, 0.0, False, "" and () are pairwise different proposals."""
    return (type(v).__name__, v)


def _rt(v):
    """Scenario (JSON) value -> runtime value."""
    return () if v == [] and isinstance(v, list) else v

KLASSES = ("px-live", "px-clean3", "px-2of3", "px-nofault", "px-faulty")


def gen(rng):
    r = rng.random()
    # px-clean3 / px-2of3 were avoidance classes for the two Paxos defects fixed in c100387 / 382ed9c; they are
    # folded back into px-nofault / px-faulty (the names are still accepted by _validate)
    klass = "px-live" if r < 0.14 else "px-nofault" if r < 0.48 else "px-faulty"
    scale = rng.choice([0.005, 0.01, 0.02])
    n = 3 if klass in ("px-clean3", "px-2of3") else rng.choice([3, 3, 4, 5, 5])
    retry = rng.choice([0.02, 0.05, 0.1, 0.3])
    prof = gen_net(rng, scale, bounded=(klass == "px-live"))
    per = gen_per_link(rng, n, prof) if klass != "px-live" else {}
    dead = None
    if klass == "px-2of3":
        dead = rng.randrange(n)
    cands = [i for i in range(n) if i != dead]
    if klass in ("px-live", "px-clean3"):
        m = 1
    elif klass == "px-2of3":
        m = 2
    else:
        m = rng.choice([1, 2, 2, 3, 3, 4]) if n >= 4 else rng.choice([1, 2, 2, 3, 3])
    proposers = rng.sample(cands, min(m, len(cands)))
    t0 = round(rng.uniform(0.05, 0.2), 5)
    props = []
    for j, p in enumerate(proposers):
        if j == 0:
            t = t0
        else:
            t = t0 + rng.choice([0.0, rng.uniform(0, 4 * scale), rng.uniform(0, 30 * scale), rng.uniform(0, 2 * retry)])
        props.append({"t": round(t, 5), "node": p, "value": f"v{p}"})
    if rng.random() < 0.35:  # falsy-but-legal values, pairwise distinguishable by (type, value)
        pool = list(FALSY)
        rng.shuffle(pool)
        for q in props:
            if rng.random() < 0.6:
                q["value"] = pool.pop()
    if klass in ("px-nofault", "px-faulty", "px-2of3") and rng.random() < 0.25:
        for _ in range(rng.choice([1, 1, 2])):
            q = rng.choice(props)
            props.append({"t": round(q["t"] + rng.uniform(scale, 6 * retry), 5), "node": q["node"], "value": q["value"]})
    props.sort(key=lambda d: (d["t"], d["node"]))
    last = max(p["t"] for p in props)
    if klass == "px-live":
        horizon = round(last + 14 * max_delay(prof, per) + 0.05, 5)
    else:
        horizon = round(last + rng.choice([1.0, 2.0, 4.0]), 5)
    faults = []
    if klass in ("px-clean3", "px-2of3", "px-faulty"):
        kinds = ("partition", "crash", "pause", "loss", "loss")
        faults = gen_fault_list(rng, n, horizon, kinds, max_faults=5)
        if klass == "px-2of3":
            # the third node is down for good from the start: no promise beyond the quorum can ever arrive
            faults = [f for f in faults if not (f["kind"] in ("crash", "pause") and f["node"] == dead)]
            faults.insert(0, {"kind": "crash", "node": dead, "start": 0.0, "end": None})
    return {"fam": "paxos", "klass": klass, "seed": rng.getrandbits(32), "net_seed": rng.getrandbits(32), "n": n,
            "retry_delay": retry, "profile": prof, "per_link": per, "faults": faults, "proposals": props,
            "horizon": horizon, "defer_fine": klass in ("px-nofault", "px-faulty") and rng.random() < 0.3}


def _validate(sc):
    if sc.get("klass") not in KLASSES:
        raise InvalidScenario("klass")
    n = sc.get("n", 0)
    if not 3 <= n <= 5:
        raise InvalidScenario("n")
    check_profile(sc.get("profile", {}), sc.get("per_link"))
    check_faults(sc.get("faults", []), n)
    props = sc.get("proposals", [])
    if not props:
        raise InvalidScenario("no proposals")
    by_node = {}
    for p in props:
        v = p.get("value")
        ok = (isinstance(v, str) or (isinstance(v, (int, float, bool)) and v == 0) or (isinstance(v, list) and not v)) \
            and "value" in p
        if not 0 <= p.get("node", -1) < n or p.get("t", -1) < 0 or not ok:
            raise InvalidScenario("proposal")
        if by_node.setdefault(p["node"], K(_rt(v))) != K(_rt(v)):
            raise InvalidScenario("one value per proposer")
    if len(set(by_node.values())) != len(by_node):
        raise InvalidScenario("values must be unique per proposer")
    if not 0.001 <= sc.get("retry_delay", 0) <= 10 or not 0 < sc.get("horizon", 0) <= 600:
        raise InvalidScenario("retry/horizon")
    k = sc["klass"]
    if k in ("px-live", "px-clean3") and len(by_node) != 1:
        raise InvalidScenario("single proposer class")
    if k in ("px-live", "px-nofault") and sc.get("faults"):
        raise InvalidScenario("fault-free class")
    if k == "px-live":
        pr = [sc["profile"]] + list((sc.get("per_link") or {}).values())
        if any(p.get("straggler_p", 0) for p in pr) or len(props) != 1:
            raise InvalidScenario("liveness class needs bounded delays and one proposal")
        if sc["horizon"] < props[0]["t"] + 12 * max_delay(sc["profile"], sc.get("per_link")) - 2e-5:
            raise InvalidScenario("liveness horizon too short")
    if k in ("px-clean3", "px-2of3") and n != 3:
        raise InvalidScenario("n=3 class")
    if k == "px-2of3":
        dead = [f for f in sc["faults"] if f["kind"] == "crash" and f["start"] == 0.0 and f.get("end") is None]
        if not dead or any(p["node"] == dead[0]["node"] for p in props):
            raise InvalidScenario("px-2of3 needs one node down for good from t=0 that never proposes")


def run(sc):
    _validate(sc)
    n, klass = sc["n"], sc["klass"]
    quorum = n // 2 + 1
    seed_globals(sc["seed"])
    ref = NetRef()
    nodes = [PaxosNode(name=f"n{i}", network=ref, retry_delay=sc["retry_delay"]) for i in range(n)]
    for nd in nodes:
        nd.set_peers(nodes)
    net, links = build_mesh("net", nodes, sc["net_seed"], sc["profile"], sc.get("per_link") or None)
    ref.net = net
    sim = Simulation(entities=[net, *nodes, *links.values()], end_time=Instant.from_seconds(sc["horizon"]))
    fd = FaultDriver(net, nodes, links, sc.get("faults", []))
    sim.schedule(fd.events())
    J = Judge(sc.get("defer_fine", False), CLS)

    proposed = set()           # values proposed so far
    own_value = {}             # proposer name -> its value
    futures = []               # [node, future, seen?]
    accept_val = {}            # (bn, bnode) -> value carried by the Accept messages of that ballot
    acc = {}                   # (bn, bnode) -> {acceptor: set(values it held as accepted at that ballot)}
    promises = {}              # (proposer, bn) -> number of Promise deliveries
    cur_bn = {}                # proposer -> highest ballot number it sent a Prepare for
    decided = {}               # node -> value at first report
    first = []                 # [(node, value)] first decision in the run
    ballots = set()
    accepted_msgs = {}         # (proposer, bn) -> number of Accepted responses delivered to it
    chosen = []                # [(value, ballot)] first value accepted by a quorum of acceptors at one ballot
    mono = {}                  # acceptor -> [promised, accepted] ballots last seen
    pr = dict.fromkeys(["px_promise_beyond_quorum", "px_late_promise_carried_accepted_value", "px_retry_after_nack",
                        "px_competing_ballots", "px_decided_via_learn", "px_value_adopted_from_promise",
                        "px_accepted_for_stale_ballot", "px_future_resolved", "px_proposal_skipped_node_down",
                        "px_reproposal", "px_decided_on_retried_ballot", "px_four_proposers", "px_falsy_value_proposed",
                        "px_falsy_value_adopted_from_promise"], 0)
    retried = set()            # (proposer, ballot number) of ballots created by PaxosRetry

    def check_futures():
        for rec in futures:
            nd, fut, seen = rec
            if seen or not fut.is_resolved:
                continue
            rec[2] = True
            pr["px_future_resolved"] = 1
            fv = fut.value
            if not nd.is_decided:
                J.coarse("future-is-decided-value", "resolved-while-node-undecided",
                         f"{nd.name}'s propose() future resolved with {fv!r} but the node reports no decision")
            if K(fv) != K(nd.decided_value):
                J.coarse("future-is-decided-value", "differs-from-node-decision",
                         f"{nd.name}'s propose() future resolved with {fv!r}; the node reports decided value {nd.decided_value!r}")
            if first and K(fv) != K(first[0][1]):
                J.coarse("future-is-decided-value", "differs-from-cluster-decision",
                         f"{nd.name}'s propose() future resolved with {fv!r}; {first[0][0]} decided {first[0][1]!r}")

    def trigger(p):
        nd = nodes[p["node"]]

        def fn(ev):
            if getattr(nd, "_crashed", False):
                pr["px_proposal_skipped_node_down"] = 1
                return None
            if nd.name in own_value:
                pr["px_reproposal"] = 1
            val = _rt(p["value"])
            if not val and val is not None:
                pr["px_falsy_value_proposed"] = 1
            proposed.add(K(val))
            own_value[nd.name] = K(val)
            fut = nd.propose(val)
            futures.append([nd, fut, False])
            out = None if fut.is_resolved else nd.start_phase1()
            check_futures()
            return out
        return fn

    for p in sc["proposals"]:
        sim.schedule(Event.once(time=Instant.from_seconds(p["t"]), event_type="client.propose", fn=trigger(p)))

    def on_accept_send(md):
        b = (md["ballot_number"], md["ballot_node"])
        v = md["value"]
        if K(v) not in proposed:
            if v is None:
                detail = "None-for-superseded-ballot" if b[0] < cur_bn.get(b[1], 0) else "None"
            else:
                detail = "unproposed"
            J.fine("accept-value-proposed", detail,
                   f"{b[1]} sends Accept(ballot={b}, value={v!r}); proposed so far: {sorted(map(repr, proposed))}; "
                   f"its current ballot number is {cur_bn.get(b[1])}")
        if b in accept_val:
            if K(accept_val[b]) != K(v):
                beyond = promises.get((b[1], b[0]), 0) + 1 > quorum
                J.fine("one-value-per-ballot", "after-promise-beyond-quorum" if beyond else "other",
                       f"{b[1]} sent Accept(ballot={b}, value={accept_val[b]!r}) and now sends Accept(ballot={b}, value={v!r}) "
                       f"after {promises.get((b[1], b[0]), 0)} promises from peers (quorum {quorum} incl. itself)")
        else:
            accept_val[b] = v
        if chosen and K(chosen[0][0]) != K(v) and b > chosen[0][1]:
            J.fine("accept-respects-chosen", "higher-ballot-other-value",
                   f"{chosen[0][0]!r} is chosen (accepted by {quorum} acceptors at ballot {chosen[0][1]}), yet {b[1]} sends "
                   f"Accept(ballot={b}, value={v!r})")
        if v is not None and K(v) != own_value.get(b[1]):
            pr["px_value_adopted_from_promise"] = 1
            if not v:
                pr["px_falsy_value_adopted_from_promise"] = 1

    def observe_acceptor(x, et):
        pb, ab = x._promised_ballot, x._accepted_ballot
        cur = [(pb.number, pb.node_id) if pb else (0, ""), (ab.number, ab.node_id) if ab else (0, "")]
        old = mono.get(x.name)
        if old is not None:
            if cur[0] < old[0]:
                J.fine("acceptor-ballots-monotone", f"promised-ballot-decreased-on-{et}",
                       f"{x.name}'s promised ballot went from {old[0]} to {cur[0]} during {et}")
            if cur[1] < old[1]:
                J.fine("acceptor-ballots-monotone", f"accepted-ballot-decreased-on-{et}",
                       f"{x.name}'s accepted ballot went from {old[1]} to {cur[1]} during {et}")
        mono[x.name] = cur
        if ab is not None:
            key = (ab.number, ab.node_id)
            tab = acc.setdefault(key, {})
            tab.setdefault(x.name, set()).add(K(x._accepted_value))
            if not chosen:
                v = x._accepted_value
                if sum(1 for vals in tab.values() if K(v) in vals) >= quorum:
                    chosen.append((v, key))

    def observe_decision(x, ev, md):
        if not x.is_decided:
            if x.name in decided:
                J.coarse("stability", "undecided-again", f"{x.name} reported {decided[x.name]!r} decided and now reports no decision")
            return
        v = x.decided_value
        if x.name in decided:
            if K(decided[x.name]) != K(v):
                J.coarse("stability", "decided-value-changed", f"{x.name} reported {decided[x.name]!r}, now reports {v!r}")
            return
        et = ev.event_type
        if et == "PaxosDecided":
            pr["px_decided_via_learn"] = 1
            if all(K(v) != K(d) for d in decided.values()):
                J.fine("learned-value-was-decided", "nobody-decided-it",
                       f"{x.name} learned decision {v!r} from a PaxosDecided message but no node had decided it")
        else:
            bn = md.get("ballot_number")
            b = (bn, x.name)
            if (x.name, bn) in retried:
                pr["px_decided_on_retried_ballot"] = 1
            table = acc.get(b, {})
            holders = sorted(a for a, vals in table.items() if K(v) in vals)
            if len(holders) < quorum:
                parts = []
                if len(table) < quorum:
                    tally = accepted_msgs.get((x.name, bn), 0) + (1 if x.name in table else 0)
                    parts.append("same-acceptor-counted-twice" if tally >= quorum else "fewer-accepted-responses-than-quorum")
                if not table or any(K(v) not in vals for vals in table.values()):
                    parts.append("value-differs-from-accepted" + ("-None" if v is None else ""))
                detail = "+".join(parts)
                shown = {a: sorted(map(repr, vs)) for a, vs in sorted(table.items())}
                J.fine("decide-needs-quorum-accepted", detail,
                       f"{x.name} decides {v!r} on {et} for ballot {b}; acceptors that accepted at that ballot: {shown}; quorum is {quorum}")
        decided[x.name] = v
        if K(v) not in proposed:
            J.coarse("validity", "None" if v is None else "unproposed",
                     f"{x.name} reports decided value {v!r}; proposed values: {sorted(map(repr, proposed))}")
        if not first:
            first.append((x.name, v))
        elif K(first[0][1]) != K(v):
            J.coarse("agreement", "two-values", f"{first[0][0]} decided {first[0][1]!r}, {x.name} decides {v!r}")

    def invariant(ev, mon):
        tgt = ev.target
        et = ev.event_type
        if tgt is net:
            if is_first_hop(ev, net):
                md = ev.context.get("metadata", {})
                if et == "PaxosPrepare":
                    b = (md["ballot_number"], md["ballot_node"])
                    ballots.add(b)
                    if len({x[1] for x in ballots}) > 1:
                        pr["px_competing_ballots"] = 1
                    if b[0] > cur_bn.get(b[1], 0):
                        cur_bn[b[1]] = b[0]
                elif et == "PaxosAccept":
                    on_accept_send(md)
            return
        if not isinstance(tgt, PaxosNode) or getattr(tgt, "_crashed", False):
            return
        md = ev.context.get("metadata", {})
        if et == "PaxosPromise":
            k = (tgt.name, md.get("ballot_number"))
            promises[k] = promises.get(k, 0) + 1
            if promises[k] + 1 > quorum:
                pr["px_promise_beyond_quorum"] = 1
                if md.get("accepted_ballot_number") is not None:
                    pr["px_late_promise_carried_accepted_value"] = 1
        elif et == "PaxosRetry":
            pr["px_retry_after_nack"] = 1
            retried.add((tgt.name, tgt._current_ballot.number))
        elif et == "PaxosAccepted":
            k = (tgt.name, md.get("ballot_number"))
            accepted_msgs[k] = accepted_msgs.get(k, 0) + 1
            if md.get("ballot_number", 0) < cur_bn.get(tgt.name, 0):
                pr["px_accepted_for_stale_ballot"] = 1
        observe_acceptor(tgt, et)
        observe_decision(tgt, ev, md)
        check_futures()

    mon = Monitor(sim, cap=60_000, invariant=invariant)
    status, payload = run_sim(sim)
    sig, msg = None, ""
    if status in ("violation", "exception"):
        sig, msg = payload.sig, payload.msg
        if status == "exception":
            sig = f"C12/{sig}"
    elif status == "ok" and klass == "px-live":
        p0 = sc["proposals"][0]
        want = p0["value"]
        und = [x.name for x in nodes if not x.is_decided]
        unres = [r[0].name for r in futures if not r[1].is_resolved]
        if und or unres or not futures:
            sig = f"C12/liveness/{CLS}/" + ("undecided-node" if und else "future-unresolved")
            msg = (f"fault-free, delays <= {max_delay(sc['profile'], sc.get('per_link')):.4f}s, single proposer n{p0['node']} "
                   f"proposed {want!r} at t={p0['t']}; at t={sc['horizon']} undecided: {und}, unresolved futures at: {unres}")
    pr["px_four_proposers"] = int(len(own_value) >= 4)
    counters = {f"probe.{k}": v for k, v in pr.items()}
    counters.update(fd.counters())
    counters["budget_exhausted"] = int(status == "budget")
    counters["deferred_fine_without_coarse"] = int(J.defer and J.first_fine is not None and sig is None)
    fired = sum(v for k, v in fd.fired.items() if not k.endswith("_end") and k != "fault.restart")

    def rank(vals):
        order = sorted(set(vals))
        return [order.index(v) for v in vals]

    prom = rank([(x._promised_ballot.number, x._promised_ballot.node_id) if x._promised_ballot else (0, "") for x in nodes])
    accr = rank([(x._accepted_ballot.number, x._accepted_ballot.node_id) if x._accepted_ballot else (0, "") for x in nodes])
    state = repr(("paxos", klass, n, sorted(zip([x.is_decided for x in nodes], prom, accr))))
    nontrivial = bool(decided) and (len(ballots) >= 2 or fired > 0 or klass == "px-live") and status != "budget"
    return result(sig=sig, msg=msg, digest=mon.digest, nontrivial=nontrivial, counters=counters,
                  sim_s=mon.last_time_ns / 1e9, deliveries=mon.seq, klass=klass, state=state)
