"""Locate the repository under test and pin interpreter-level nondeterminism.

* VERIF_REPO (default /repo) is put first on sys.path so the working tree of
  the repository is what gets imported (checks "rebuild" from the current tree
  simply by importing it fresh in a new interpreter).
* `ensure_hashseed()` re-execs the interpreter with a fixed PYTHONHASHSEED so
  that set/dict-of-str iteration order inside the repo cannot differ between
  the run that finds a violation and the run that replays it.
"""
from __future__ import annotations

import os
import sys

REPO = os.environ.get("VERIF_REPO", "/repo")
VERIF = os.path.dirname(os.path.dirname(os.path.abspath(__file__)))
GUARD = "HAPPYSIM_VERIF"


def ensure_hashseed(value: str = "0") -> None:
    if os.environ.get("PYTHONHASHSEED") is None:
        env = dict(os.environ)
        env["PYTHONHASHSEED"] = value
        env[GUARD] = "1"
        os.execve(sys.executable, [sys.executable] + sys.argv, env)


def activate() -> str:
    if REPO not in sys.path[:1]:
        sys.path.insert(0, REPO)
    if VERIF not in sys.path:
        sys.path.insert(1, VERIF)
    os.environ.setdefault(GUARD, "1")
    import logging

    # The engine logs at INFO/WARNING on hot paths; keep it quiet and cheap.
    logging.getLogger("happysimulator").setLevel(logging.ERROR)
    import happysimulator  # noqa: F401

    got = os.path.dirname(os.path.dirname(os.path.abspath(happysimulator.__file__)))
    if os.path.realpath(got) != os.path.realpath(REPO):
        raise RuntimeError(f"happysimulator imported from {got}, expected {REPO}")
    return got
