"""C12, LeaderElection and DistributedLock families (owned by the C12 check)."""
from __future__ import annotations

from happysimulator.components.consensus.distributed_lock import DistributedLock, LockGrant
from happysimulator.components.consensus.election_strategies import BullyStrategy, RandomizedStrategy, RingStrategy
from happysimulator.components.consensus.leader_election import LeaderElection
from happysimulator.core.event import Event
from happysimulator.core.sim_future import SimFuture
from happysimulator.core.simulation import Simulation
from happysimulator.core.temporal import Instant

from simkit.c12_common import NetRef, check_faults, check_profile, gen_fault_list, gen_net, gen_per_link
from simkit.chaosnet import FaultDriver, build_mesh
from simkit.rng import seed_globals
from simkit.world import InvalidScenario, Monitor, Violation, result, run_sim

STRATS = {"bully": BullyStrategy, "ring": RingStrategy, "randomized": RandomizedStrategy}


# --------------------------------------------------------------------------
# leader election
# --------------------------------------------------------------------------

def gen_election(rng):
    n = rng.choice([3, 3, 4, 5])
    scale = rng.choice([0.005, 0.02, 0.05])
    et = rng.choice([0.3, 0.5, 1.0, 2.0])
    hb = round(et * rng.choice([0.1, 0.25, 0.5, 0.9]), 4)
    prof = gen_net(rng, scale)
    faulty = rng.random() < 0.6
    horizon = round(et * rng.choice([6, 12, 25]), 4)
    return {"fam": "election", "klass": "election-faulty" if faulty else "election-nofault",
            "strategy": rng.choice(["bully", "bully", "ring", "ring", "randomized"]),
            "seed": rng.getrandbits(32), "net_seed": rng.getrandbits(32), "n": n, "election_timeout": et,
            "heartbeat_interval": hb, "include_self": rng.random() < 0.7,
            "starts": _gen_starts(rng, n, et),
            # wiring styles the API allows: one strategy object shared by all nodes, or one per node
            "shared_strategy": rng.random() < 0.5,
            "profile": prof, "per_link": gen_per_link(rng, n, prof),
            "faults": gen_fault_list(rng, n, horizon, ("partition", "crash", "pause", "loss"), 4) if faulty else [],
            "horizon": horizon}


def _gen_starts(rng, n, et):
    """Who starts (and hence times out) first: random, highest id first, lowest id first, all at once, a few at once."""
    pat = rng.choice(["random", "random", "highest-first", "lowest-first", "all-at-once", "some-at-once"])
    if pat == "random":
        return [round(rng.uniform(0, et * rng.choice([0.0, 0.2, 1.5])), 5) for _ in range(n)]
    t0 = round(rng.uniform(0, 0.2 * et), 5)
    if pat == "all-at-once":
        return [t0] * n
    gap = round(et * rng.choice([0.05, 0.3, 1.0, 2.5]), 5)
    if pat == "highest-first":
        return [round(t0 + gap * (n - 1 - i), 5) for i in range(n)]
    if pat == "lowest-first":
        return [round(t0 + gap * i, 5) for i in range(n)]
    first = set(rng.sample(range(n), rng.randint(2, n - 1) if n > 2 else 2))
    return [t0 if i in first else round(t0 + gap * (1 + rng.random()), 5) for i in range(n)]


def validate_election(sc):
    n = sc.get("n", 0)
    if not 3 <= n <= 5 or sc.get("strategy") not in STRATS or len(sc.get("starts", [])) != n:
        raise InvalidScenario("election shape")
    if not 0.01 <= sc.get("election_timeout", 0) <= 100 or not 0.001 <= sc.get("heartbeat_interval", 0) <= 100:
        raise InvalidScenario("timeouts")
    if not 0 < sc.get("horizon", 0) <= 2000 or any(s < 0 for s in sc["starts"]):
        raise InvalidScenario("horizon")
    check_profile(sc.get("profile", {}), sc.get("per_link"))
    check_faults(sc.get("faults", []), n)
    if sc.get("klass") == "election-nofault" and sc.get("faults"):
        raise InvalidScenario("fault-free class")
    return n


def run_election(sc):
    n = validate_election(sc)
    seed_globals(sc["seed"])
    ref = NetRef()
    # one strategy object shared by all nodes, or one per node (both are legal wirings of the public API)
    shared = STRATS[sc["strategy"]]() if sc.get("shared_strategy") else None
    nodes = [LeaderElection(name=f"n{i}", network=ref, strategy=shared or STRATS[sc["strategy"]](),
                            election_timeout=sc["election_timeout"], heartbeat_interval=sc["heartbeat_interval"])
             for i in range(n)]
    for a in nodes:
        for b in nodes:
            if a is not b or sc.get("include_self", True):
                a.add_member(b)
    net, links = build_mesh("net", nodes, sc["net_seed"], sc["profile"], sc.get("per_link") or None)
    ref.net = net
    sim = Simulation(entities=[net, *nodes, *links.values()], end_time=Instant.from_seconds(sc["horizon"]))
    fd = FaultDriver(net, nodes, links, sc.get("faults", []))
    sim.schedule(fd.events())

    def starter(nd):
        def fn(ev):
            return None if getattr(nd, "_crashed", False) else nd.start()
        return fn

    for i, nd in enumerate(nodes):
        sim.schedule(Event.once(time=Instant.from_seconds(sc["starts"][i]), event_type="client.start", fn=starter(nd)))
    by_term = {}       # term -> (leader, reporter)
    terms_of = {}      # leader -> set of terms it was reported for
    pr = {"el_election_completed": 0, "el_heartbeat_adopted": 0, "el_terms_differ_for_one_leader": 0, "el_victory_seen": 0}
    last = {}

    def invariant(ev, mon):
        x = ev.target
        if type(x) is not LeaderElection or getattr(x, "_crashed", False):
            return
        rep = (x.current_term, x.current_leader)
        if last.get(x.name) == rep:
            return
        last[x.name] = rep
        term, leader = rep
        if leader is None:
            return
        pr["el_election_completed"] = 1
        if ev.event_type == "LeaderHeartbeat":
            pr["el_heartbeat_adopted"] = 1
        if ev.event_type == "ElectionVictory":
            pr["el_victory_seen"] = 1
        ts = terms_of.setdefault(leader, set())
        ts.add(term)
        if len(ts) > 1:
            pr["el_terms_differ_for_one_leader"] = 1
        if term in by_term:
            if by_term[term][0] != leader:
                raise Violation(f"C12/one-leader-per-term/LeaderElection/{sc['strategy']}",
                                f"term {term}: {by_term[term][1]} reported leader {by_term[term][0]!r}, "
                                f"{x.name} reports leader {leader!r} (during {ev.event_type} at t={ev.time.to_seconds():.6f})")
        else:
            by_term[term] = (leader, x.name)

    mon = Monitor(sim, cap=120_000, invariant=invariant)
    status, payload = run_sim(sim)
    sig, msg = None, ""
    if status in ("violation", "exception"):
        sig, msg = payload.sig, payload.msg
        if status == "exception":
            sig = f"C12/{sig}"
    pr["el_shared_strategy_election_completed"] = int(bool(sc.get("shared_strategy")) and bool(by_term))
    pr["el_highest_started_first"] = int(sc["starts"][n - 1] < min(sc["starts"][:n - 1]))
    pr["el_several_started_at_once"] = int(len(set(sc["starts"])) < n)
    counters = {f"probe.{k}": v for k, v in pr.items()}
    counters.update(fd.counters())
    counters["budget_exhausted"] = int(status == "budget")
    state = repr((sc["strategy"], bool(sc.get("shared_strategy")), sorted((x.current_term, x.current_leader or "") for x in nodes)))
    return result(sig=sig, msg=msg, digest=mon.digest, nontrivial=bool(by_term) and status != "budget", counters=counters,
                  sim_s=mon.last_time_ns / 1e9, deliveries=mon.seq, klass=f"{sc['klass']}:{sc['strategy']}{'+shared' if sc.get('shared_strategy') else ''}", state=state)


# --------------------------------------------------------------------------
# distributed lock
# --------------------------------------------------------------------------

KINDS = ("acquire", "try", "release", "release_stale", "acquire_evt", "release_evt")


def gen_lock(rng):
    lease = rng.choice([0.2, 0.5, 1.0, 3.0])
    clients = rng.randint(2, 5)
    locks = rng.choice([1, 2, 2, 3])
    m = rng.randint(6, 30)
    span = lease * rng.choice([1.5, 4, 10])
    ops = []
    for _ in range(m):
        ops.append({"t": round(rng.uniform(0, span), 5), "client": rng.randrange(clients), "lock": rng.randrange(locks),
                    "kind": rng.choice(["acquire", "acquire", "acquire", "try", "release", "release", "release_stale",
                                        "acquire_evt", "release_evt"])})
    ops.sort(key=lambda o: o["t"])
    return {"fam": "lock", "klass": "lock", "seed": rng.getrandbits(32), "lease": lease,
            "max_waiters": rng.choice([0, 0, 1, 3]), "ops": ops, "horizon": round(span + 2.5 * lease, 5)}


def validate_lock(sc):
    if not 0.001 <= sc.get("lease", 0) <= 1000 or sc.get("max_waiters", 0) < 0 or not 0 < sc.get("horizon", 0) <= 5000:
        raise InvalidScenario("lock parameters")
    for o in sc.get("ops", []):
        if o.get("kind") not in KINDS or o.get("t", -1) < 0 or not 0 <= o.get("client", -1) < 8 or not 0 <= o.get("lock", -1) < 4:
            raise InvalidScenario("lock op")


def run_lock(sc):
    validate_lock(sc)
    seed_globals(sc["seed"])
    lock = DistributedLock(name="lockmgr", lease_duration=sc["lease"], max_waiters=sc["max_waiters"])
    sim = Simulation(entities=[lock], end_time=Instant.from_seconds(sc["horizon"]))
    names = sorted({f"L{o['lock']}" for o in sc["ops"]})
    last_grant_token = {}      # lock name -> highest token of any grant so far
    current = {}               # lock name -> (holder, token) as last observed
    my_tokens = {}             # (client, lock) -> tokens this client was granted (in order)
    pending = []               # [future, client, lock name, via, seen]
    pr = {"lock_expired": 0, "lock_waiter_woken": 0, "lock_reentrant": 0, "lock_stale_release_refused": 0,
          "lock_rejected_queue_full": 0, "lock_event_api_grant": 0, "lock_grants_interleaved_across_names": 0}
    grants = [0]
    last_any = []              # [(token, lock name, holder)] of the manager's latest grant
    viol = []

    def drain():
        """The lock stores the lease-expiry event of the latest grant in _pending_expiry and leaves scheduling to the
        caller (see the repo's tests/integration/consensus/test_consensus_distributed_lock.py)."""
        ev = getattr(lock, "_pending_expiry", None)
        if ev is not None:
            lock._pending_expiry = None
            return [ev]
        return []

    def observe(where):
        """Detect new grants from the public view (holder, token) of every lock name."""
        for ln in names:
            holder, token = lock.get_holder(ln), lock.get_fencing_token(ln)
            cur = (holder, token)
            old = current.get(ln, (None, None))
            if cur == old:
                continue
            current[ln] = cur
            if holder is None:
                continue
            # a change to a (holder, token) pair with a holder is a new grant; the statement speaks of the manager's
            # grants ("fencing tokens strictly increase across grants"), so the sequence is judged manager-wide
            grants[0] += 1
            hi = last_grant_token.get(ln)
            if hi is not None and token <= hi:
                detail = "token-reused" if token == hi else "token-decreased"
                raise Violation(f"C12/fencing-tokens-increase/DistributedLock/{detail}",
                                f"lock {ln}: grant to {holder} carries fencing token {token}; an earlier grant of this lock "
                                f"carried {hi} ({where})")
            last_grant_token[ln] = token
            if last_any and token <= last_any[0][0]:
                raise Violation("C12/fencing-tokens-increase/DistributedLock/manager-wide-order",
                                f"grant of {ln} to {holder} carries fencing token {token}, but the manager's previous grant "
                                f"({last_any[0][1]} to {last_any[0][2]}) carried {last_any[0][0]} ({where})")
            if last_any and last_any[0][1] != ln:
                pr["lock_grants_interleaved_across_names"] = 1
            last_any[:] = [(token, ln, holder)]

    def check_grant_obj(g, client, ln, via):
        cname = f"c{client}"
        if g is None:
            pr["lock_rejected_queue_full"] = 1
            return
        if not isinstance(g, LockGrant) or g.holder != cname or g.lock_name != ln:
            raise Violation("C12/grant-consistent/DistributedLock/wrong-holder-or-lock",
                            f"{cname} asked for {ln} via {via} and got {g!r}")
        toks = my_tokens.setdefault((client, ln), [])
        if toks and g.fencing_token == toks[-1] and lock.get_holder(ln) == cname:
            pr["lock_reentrant"] = 1
            return
        if lock.get_holder(ln) == cname and lock.get_fencing_token(ln) != g.fencing_token:
            raise Violation("C12/grant-consistent/DistributedLock/token-differs-from-lock-state",
                            f"{cname} holds {ln}; grant says token {g.fencing_token}, lock says {lock.get_fencing_token(ln)}")
        if toks and g.fencing_token <= toks[-1]:
            raise Violation("C12/fencing-tokens-increase/DistributedLock/client-sees-non-increasing-token",
                            f"{cname} was granted {ln} with token {toks[-1]} earlier and now with {g.fencing_token} via {via}")
        toks.append(g.fencing_token)

    def poll_futures():
        for rec in pending:
            fut, client, ln, via, seen = rec
            if seen or not fut.is_resolved:
                continue
            rec[4] = True
            if via != "direct-immediate":
                pr["lock_waiter_woken"] = 1
            if via == "event-api":
                pr["lock_event_api_grant"] = 1
            check_grant_obj(fut.value, client, ln, via)

    def op_fn(o):
        ln, client = f"L{o['lock']}", o["client"]
        cname = f"c{client}"

        def fn(ev):
            k = o["kind"]
            out = []
            if k == "acquire":
                fut = lock.acquire(ln, cname)
                pending.append([fut, client, ln, "direct-immediate" if fut.is_resolved else "direct-queued", False])
            elif k == "try":
                g = lock.try_acquire(ln, cname)
                if g is not None:
                    check_grant_obj(g, client, ln, "try_acquire")
            elif k in ("release", "release_stale", "release_evt"):
                toks = my_tokens.get((client, ln), [])
                if not toks:
                    return None
                tok = toks[-1] if k != "release_stale" else toks[0] - 1 if len(toks) == 1 else toks[0]
                if k == "release_evt":
                    out.append(Event(time=ev.time, event_type="LockReleaseRequest", target=lock,
                                     context={"metadata": {"lock_name": ln, "fencing_token": tok}}))
                else:
                    held = lock.get_holder(ln) == cname and lock.get_fencing_token(ln) == tok
                    ok = lock.release(ln, tok)
                    if ok and not held:
                        raise Violation("C12/grant-consistent/DistributedLock/stale-token-released-lock",
                                        f"{cname} released {ln} with token {tok} although the lock state was "
                                        f"{current.get(ln)}")
                    if not ok:
                        pr["lock_stale_release_refused"] = 1
            elif k == "acquire_evt":
                rf = SimFuture()
                pending.append([rf, client, ln, "event-api", False])
                out.append(Event(time=ev.time, event_type="LockAcquireRequest", target=lock,
                                 context={"metadata": {"lock_name": ln, "requester": cname}, "reply_future": rf}))
            observe(f"after {k} by {cname}")
            poll_futures()
            return out + drain()
        return fn

    for o in sc["ops"]:
        sim.schedule(Event.once(time=Instant.from_seconds(o["t"]), event_type="client.lock", fn=op_fn(o)))
    exp0 = [0]

    def invariant(ev, mon):
        if ev.target is lock:
            if lock.stats.total_expirations > exp0[0]:
                exp0[0] = lock.stats.total_expirations
                pr["lock_expired"] = 1
            observe(f"during {ev.event_type}")
            poll_futures()
            for e in drain():
                sim.schedule(e)

    mon = Monitor(sim, cap=20_000, invariant=invariant)
    status, payload = run_sim(sim)
    sig, msg = None, ""
    if status in ("violation", "exception"):
        sig, msg = payload.sig, payload.msg
        if status == "exception":
            sig = f"C12/{sig}"
    counters = {f"probe.{k}": v for k, v in pr.items()}
    counters["budget_exhausted"] = int(status == "budget")
    counters["lock.grants"] = grants[0]
    st = lock.stats
    state = repr(("lock", min(grants[0], 12), min(st.total_expirations, 4), min(st.total_waiters, 3), min(st.total_rejections, 2)))
    nontrivial = grants[0] >= 3 and pr["lock_waiter_woken"] == 1 and status != "budget"
    return result(sig=sig, msg=msg, digest=mon.digest, nontrivial=nontrivial, counters=counters,
                  sim_s=mon.last_time_ns / 1e9, deliveries=mon.seq, klass="lock", state=state)
