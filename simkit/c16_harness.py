"""C16 harness: client generator processes driving the repo's real cache layers
(CachedStore x 9 eviction policies x {write-through, write-back},
MultiTierCache, SoftTTLCache) inside the real engine, with reference-model
oracles evaluated after every delivery and at every operation completion.

Scenario = plain JSON (see checks/c16_caches.py: gen).  All times in the
scenario are integer microseconds; `sec()` converts them to the float the repo
API wants such that the engine's `int(s * 1e9)` quantisation lands exactly on
the microsecond grid (zone boundaries are hit exactly, not almost).
"""
from __future__ import annotations

import hashlib
import math

from simkit import repo

repo.activate()

from happysimulator.components.datastore import eviction_policies as EP  # noqa: E402
from happysimulator.components.datastore.cache_warming import CacheWarmer  # noqa: E402
from happysimulator.components.datastore.cached_store import CachedStore  # noqa: E402
from happysimulator.components.datastore.kv_store import KVStore  # noqa: E402
from happysimulator.components.datastore.multi_tier_cache import MultiTierCache  # noqa: E402
from happysimulator.components.datastore.soft_ttl_cache import SoftTTLCache  # noqa: E402
from happysimulator.core.entity import Entity  # noqa: E402
from happysimulator.core.event import Event  # noqa: E402
from happysimulator.core.simulation import Simulation  # noqa: E402
from happysimulator.core.temporal import Instant  # noqa: E402

from simkit.history import History  # noqa: E402
from simkit.world import InvalidScenario, Monitor, Violation  # noqa: E402

P = "C16"
ABSENT = None
POLICIES = ("lru", "lfu", "ttl", "fifo", "random", "slru", "sampled", "clock", "twoq")
FAMILIES = ("cs", "mtc", "sttl")
OPS = {
    "cs": ("get", "put", "delete", "inval", "inval_all", "flush"),
    "mtc": ("get", "put", "delete", "inval", "inval_all", "tget"),
    "sttl": ("get", "put", "inval", "inval_all", "xput", "xdel"),
}
WRITE_KINDS = ("put", "delete")
INITIAL_BASE = 900_000


class HKey(str):
    """A str key whose hash does not depend on PYTHONHASHSEED.

    CachedStore.flush() and RandomEviction iterate a set of keys; with plain
    str keys their order (hence the schedule) would depend on the interpreter's
    hash seed.  Keys are still genuine `str` objects ("k0", "k1", ...).
    """

    __slots__ = ()

    def __hash__(self) -> int:  # noqa: D105
        return 7919 * ord(self[-1]) + len(self)  # unique for k0..k15


def sec(us: int) -> float:
    """Float seconds s with int(s * 1e9) == us * 1000 exactly."""
    target = us * 1000
    s = us / 1e6
    for _ in range(6):
        got = int(s * 1_000_000_000)
        if got == target:
            return s
        s = math.nextafter(s, math.inf if got < target else -math.inf)
    raise AssertionError(f"cannot represent {us}us exactly")


def drive(gen, after_first=None):
    """`yield from gen`, plus a callback right after gen's first (synchronous)
    segment has run.  Only next/send are forwarded (the engine uses nothing else)."""
    try:
        y = next(gen)
    except StopIteration as e:
        if after_first is not None:
            after_first()
        return e.value
    if after_first is not None:
        after_first()
    while True:
        s = yield y
        try:
            y = gen.send(s)
        except StopIteration as e:
            return e.value


# ---------------------------------------------------------------------------
# eviction policies: construction and the per-policy "tracked keys" accessor
# ---------------------------------------------------------------------------

def make_policy(spec: dict, clock_s):
    n = spec["name"]
    if n == "lru":
        return EP.LRUEviction()
    if n == "lfu":
        return EP.LFUEviction()
    if n == "ttl":
        return EP.TTLEviction(ttl=sec(max(1, int(spec.get("ttl_us", 2000)))), clock_func=clock_s)
    if n == "fifo":
        return EP.FIFOEviction()
    if n == "random":
        return EP.RandomEviction(seed=int(spec.get("pseed", 1)))
    if n == "slru":
        return EP.SLRUEviction(protected_ratio=0.8 if not spec.get("half") else 0.5)
    if n == "sampled":
        return EP.SampledLRUEviction(sample_size=max(1, int(spec.get("sample", 2))), seed=int(spec.get("pseed", 1)))
    if n == "clock":
        return EP.ClockEviction()
    if n == "twoq":
        return EP.TwoQueueEviction(kin_ratio=0.25 if not spec.get("half") else 0.5)
    raise InvalidScenario(f"unknown policy {n}")


def tracked_keys(p) -> tuple[list, str | None]:
    """Resident keys the policy believes it tracks (+ an internal inconsistency note).

    2Q's A1out is a ghost list of *non-resident* keys by design and is not
    part of the tracked resident set (weaker reading)."""
    if isinstance(p, EP.LRUEviction):
        return list(p._order), None
    if isinstance(p, EP.LFUEviction):
        return list(p._counts), None
    if isinstance(p, EP.TTLEviction):
        return list(p._insert_times), None
    if isinstance(p, EP.FIFOEviction):
        return list(p._order), None
    if isinstance(p, EP.RandomEviction):
        return sorted(p._keys), None
    if isinstance(p, EP.SLRUEviction):
        return list(p._probationary) + list(p._protected), None
    if isinstance(p, EP.SampledLRUEviction):
        return list(p._access_times), None
    if isinstance(p, EP.ClockEviction):
        note = None if sorted(p._keys) == sorted(p._ref_bits) else "ring-ne-refbits"
        return list(p._keys), note
    if isinstance(p, EP.TwoQueueEviction):
        return list(p._a1in) + list(p._am), None
    raise AssertionError(f"no accessor for {type(p).__name__}")


# ---------------------------------------------------------------------------
# actors
# ---------------------------------------------------------------------------

class Client(Entity):
    """A scripted client: a generator process inside the real engine."""

    def __init__(self, world: "World", idx: int, spec: dict):
        super().__init__(f"client{idx}")
        self.w = world
        self.idx = idx
        self.spec = spec
        self.seg = None  # the operation record whose code ran during the current delivery

    def handle_event(self, event):
        return self._run()

    def _run(self):
        w = self.w
        for i, op in enumerate(self.spec["ops"]):
            yield sec(int(op.get("g", 0)))
            res = yield from w.perform(self, op, (self.idx + 1) * 1000 + i)
            del res
        w.live -= 1
        if w.live == 0 and w.sc.get("audit", True):
            return [Event(time=self.now + sec(w.settle_us), event_type="c16.audit", target=w.auditor)]
        return None


class Auditor(Entity):
    """After all clients are done (quiescence): one real read of every key
    through the cache API, then (write-back) a flush."""

    def __init__(self, world: "World"):
        super().__init__("auditor")
        self.w = world
        self.seg = None

    def handle_event(self, event):
        return self._run()

    def _run(self):
        w = self.w
        w.auditing = True
        # `yield 0.0` before every operation: one cache-code segment per delivery, like the clients
        for k in range(len(w.keys)):
            yield 0.0
            yield from w.perform(self, {"o": "get", "k": k}, 0)
        if w.fam == "cs":
            yield 0.0
            yield from w.perform(self, {"o": "flush"}, 0)
            for k in range(len(w.keys)):
                yield 0.0
                yield from w.perform(self, {"o": "get", "k": k}, 0)
        w.audited = True
        return None


class _WarmActor:
    name = "warmer"
    idx = 99

    def __init__(self):
        self.seg = None


class _WarmProxy:
    """What the CacheWarmer sees as "the cache": forwards get() to the real
    cache and records the read in the history like any client read."""

    def __init__(self, world: "World", actor: _WarmActor):
        self.w = world
        self.actor = actor

    def get(self, key):
        return self.w.perform(self.actor, {"o": "get", "k": self.w.keys.index(key)}, 0)


# ---------------------------------------------------------------------------
# the world: model + oracles
# ---------------------------------------------------------------------------

class World:
    def __init__(self, sc: dict, cap: int = 30_000):
        validate(sc)
        self.sc = sc
        self.fam = sc["family"]
        lat = sc["lat"]
        self.keys = [HKey(f"k{i}") for i in range(sc["n_keys"])]
        self.backing = KVStore("backing", read_latency=sec(lat["r"]), write_latency=sec(lat["w"]),
                               delete_latency=sec(lat["d"]))
        self.initial = {}
        for k in sc.get("initial", []):
            self.backing.put_sync(self.keys[k], INITIAL_BASE + k)
            self.initial[k] = INITIAL_BASE + k
        clock_s = lambda: self.backing.now.to_seconds()  # noqa: E731  (simulated clock, never the wall clock)
        self.stores: list[tuple[str, CachedStore]] = []
        self.wb = False
        if self.fam == "cs":
            self.wb = bool(sc.get("wb", False))
            self.cache = CachedStore("cache", self.backing, int(sc["cap"]), make_policy(sc["policy"], clock_s),
                                     cache_read_latency=sec(lat["c"]), write_through=not self.wb)
            self.stores = [("L1", self.cache)]
            self.cls = "CachedStore"
        elif self.fam == "mtc":
            tiers = []
            for i, t in enumerate(sc["tiers"]):
                tiers.append(CachedStore(f"L{i + 1}", self.backing, int(t["cap"]), make_policy(t["policy"], clock_s),
                                         cache_read_latency=sec(int(t.get("c", lat["c"]))), write_through=True))
            self.cache = MultiTierCache("cache", tiers, self.backing, promotion_policy=sc.get("promo", "always"))
            self.stores = [(f"L{i + 1}", t) for i, t in enumerate(tiers)]
            self.cls = "MultiTierCache"
        else:
            self.cache = SoftTTLCache("cache", self.backing, soft_ttl=sec(int(sc["soft"])), hard_ttl=sec(int(sc["hard"])),
                                      cache_capacity=sc.get("cap"), cache_read_latency=sec(lat["c"]))
            self.hard_ns = int(sc["hard"]) * 1000
            self.soft_ns = int(sc["soft"]) * 1000
            self.cls = "SoftTTLCache"
        self.clients = [Client(self, i, c) for i, c in enumerate(sc["clients"])]
        self.live = len(self.clients)
        self.auditor = Auditor(self)
        self.settle_us = 4 * max(lat["r"], lat["w"], lat["d"], lat["c"], 1) + 1
        self.auditing = False
        self.audited = False
        ents: list = [self.backing, *[s for _, s in self.stores]]
        if self.cache not in ents:
            ents.append(self.cache)
        ents += [*self.clients, self.auditor]
        self.actors: dict[int, object] = {id(c): c for c in self.clients}
        self.actors[id(self.auditor)] = self.auditor
        self.warmer = None
        wsp = sc.get("warmer")
        if wsp and self.fam == "cs":
            actor = _WarmActor()
            self.warmer = CacheWarmer("warmer", _WarmProxy(self, actor), [self.keys[k] for k in wsp["keys"]],
                                      warmup_rate=1e6 / max(1, int(wsp.get("every_us", 1000))))
            ents.append(self.warmer)
            self.actors[id(self.warmer)] = actor
        self.sim = Simulation(entities=ents)
        for c in self.clients:
            self.sim.schedule(Event(time=Instant(int(c.spec.get("t0", 0)) * 1000), event_type="c16.start", target=c))
        if self.warmer is not None:
            self.sim.schedule(self.warmer.start_warming())
        self.mon = Monitor(self.sim, cap=cap, invariant=self._hook)
        self.hist = History(self.mon)
        # model state
        self.writes: dict[int, list] = {k: [] for k in range(len(self.keys))}
        self.timeline: dict[int, list] = {k: [(-1, self.initial.get(k, ABSENT), "initial", 0)] for k in range(len(self.keys))}
        self.owed: dict[int, object] = {}
        self.prev_cache = {lbl: {} for lbl, _ in self.stores}
        self.prov = {lbl: {} for lbl, _ in self.stores}
        self.prev_evictions = {lbl: 0 for lbl, _ in self.stores}
        self.prev_writebacks = {lbl: 0 for lbl, _ in self.stores}
        self.done_queue: list = []
        self.inflight: dict[int, dict] = {}
        self.probes: dict[str, int] = {}
        self.counts: dict[str, int] = {}
        for _, st in self.stores:
            self._watch_evict(st)
        self.states: set = set()
        self.n_completed = 0
        self.overlap_any = False
        self.overlap_samekey = False
        self._evicted_now = False

    # ---- small helpers -------------------------------------------------
    def now_ns(self) -> int:
        return self.backing.now.nanoseconds

    def probe(self, name: str) -> None:
        self.probes[name] = 1

    def count(self, name: str, n: int = 1) -> None:
        self.counts[name] = self.counts.get(name, 0) + n

    def _watch_evict(self, store) -> None:
        """Observe (not alter) the real policy's evict(): how often does it answer None while the cache is full?"""
        pol = store._eviction_policy
        orig = pol.evict

        def evict():
            r = orig()
            if r is None and store.cache_size >= store.cache_capacity:
                self.count("evict_returned_none_while_full")
            return r

        pol.evict = evict

    def _latest_completed(self, k: int, inv: int):
        latest = None
        for w in self.writes[k]:
            if w["ret"] is not None and w["ret"] < inv and (latest is None or w["ret"] > latest["ret"]):
                latest = w
        return latest

    def allowed(self, k: int, inv: int, ret: int):
        """Regular-register rule (same as simkit.history.check_regular_register):
        value of the latest write completed before `inv`, of completed writes that
        overlapped that one, or of any write concurrent with [inv, ret]."""
        ws = self.writes[k]
        latest = self._latest_completed(k, inv)
        out = set()
        if latest is None:
            out.add(self.initial.get(k, ABSENT))
        else:
            out.add(_wval(latest))
            for w in ws:
                if w is latest or w["ret"] is None or w["ret"] >= inv:
                    continue
                if w["ret"] > latest["inv"]:
                    out.add(_wval(w))
        for w in ws:
            if w["inv"] < ret and (w["ret"] is None or w["ret"] > inv):
                out.add(_wval(w))
        return out, latest

    # ---- performing one operation --------------------------------------
    def perform(self, actor, op: dict, value: int):
        """Generator: run one client operation against the real cache API."""
        kind = op["o"]
        k = op.get("k")
        key = self.keys[k] if k is not None else None
        rec = self.hist.invoke(actor.name, kind, key=k, value=value if kind in ("put", "xput") else None)
        rec["t_inv"] = self.now_ns()
        rec["path"] = None
        actor.seg = rec
        for other in self.inflight.values():
            self.overlap_any = True
            if k is not None and other["key"] == k:
                self.overlap_samekey = True
                self.count("fault.same_key_operation_overlap")
                kinds = {other["kind"], kind}
                if "get" in kinds and kinds & {"put", "delete"}:
                    self.probe("probe.read_overlapped_write_same_key")
                if "flush" in kinds:
                    self.probe("probe.flush_overlapped_op")
            if other["kind"] == "flush" and kind == "put":
                self.probe("probe.put_during_flush")
        self.inflight[rec["id"]] = rec
        c = self.cache
        gen = None
        res = None
        if kind in WRITE_KINDS:
            self.writes[k].append(rec)
        if kind == "get":
            self._pre_get(rec, k, key)
            gen = c.get(key)
        elif kind == "put":
            if self.wb:
                self.owed[k] = value
            gen = c.put(key, value)
        elif kind == "delete":
            # (the owed value of k is released when the delete takes the entry out of the cache -- at invocation or at
            # completion, whichever the implementation does -- see _check_owed; until then it is still owed)
            gen = c.delete(key)
        elif kind == "flush":
            gen = c.flush()
        elif kind == "inval":
            if self.wb and key in c.get_dirty_keys():
                self.probe("probe.invalidate_dirty")
                self.count("fault.invalidate_of_dirty_entry")
            c.invalidate(key)
        elif kind == "inval_all":
            c.invalidate_all()
        elif kind == "tget":
            tier = self.stores[op["t"]][1]
            rec["path"] = "hit" if tier.contains_cached(key) else "miss"
            gen = tier.get(key)
        elif kind == "xput":
            self.count("fault.external_backing_put")
            gen = self.backing.put(key, value)
        elif kind == "xdel":
            self.count("fault.external_backing_delete")
            gen = self.backing.delete(key)
        else:
            raise InvalidScenario(f"op {kind}")
        if gen is not None:
            after = (lambda: self._after_first_sttl(rec)) if (self.fam == "sttl" and kind == "get") else None
            res = yield from drive(gen, after)
        rec["t_ret"] = self.now_ns()
        self.hist.complete(rec, res)
        del self.inflight[rec["id"]]
        self.done_queue.append(rec)
        self.n_completed += 1
        return res

    def _pre_get(self, rec, k, key):
        if self.fam == "cs":
            if self.cache.contains_cached(key):
                rec["path"] = "hit"
                rec["src"] = self.prov["L1"].get(k, (None, "unknown"))[1]
            else:
                rec["path"] = "miss"
                rec["src"] = "backing"
        elif self.fam == "mtc":
            rec["path"], rec["src"] = "miss", "backing"
            for i, (lbl, t) in enumerate(self.stores):
                if t.contains_cached(key):
                    rec["path"] = f"hit{i}"
                    pv = self.prov[lbl].get(k, (None, "unknown", None))
                    rec["src"] = f"{'L1' if i == 0 else 'Ln'}-{pv[1]}"
                    rec["src_op"] = pv[2]
                    if i > 0:
                        self.probe("probe.lower_tier_hit")
                        for o in self.inflight.values():
                            if o is not rec and o["key"] == k and o["kind"] in WRITE_KINDS:
                                self.probe("probe.lower_tier_hit_while_write_in_flight")
                                if o["kind"] == "put" and t._cache.get(key) != o["value"] and any(
                                        e[1] == o["value"] for e in self.timeline[k]):
                                    # cannot happen while put() drops the key from every tier when its backing write lands
                                    self.count("lower_tier_hit_after_put_backing_write_landed")
                    break
        else:
            st = self.cache.stats
            rec["_st0"] = (st.fresh_hits, st.stale_hits, st.hard_misses, st.coalesced_requests)
            e = self.cache._cache.get(key)
            rec["_e0"] = e
            if e is not None:
                age = rec["t_inv"] - e.cached_at.nanoseconds
                if age == self.soft_ns:
                    self.probe("probe.read_exactly_at_soft_ttl")
                if age == self.hard_ns:
                    self.probe("probe.read_exactly_at_hard_ttl")
                if abs(age - self.hard_ns) == 1000 or abs(age - self.soft_ns) == 1000:
                    self.probe("probe.read_1us_from_zone_boundary")

    def _after_first_sttl(self, rec):
        st = self.cache.stats
        a = rec.pop("_st0")
        d = (st.fresh_hits - a[0], st.stale_hits - a[1], st.hard_misses - a[2], st.coalesced_requests - a[3])
        path = "coalesced" if d[3] else "miss" if d[2] else "stale" if d[1] else "fresh" if d[0] else "unknown"
        rec["path"] = rec["src"] = path
        self.probe(f"probe.sttl_{path}")
        e0 = rec.get("_e0")
        if path in ("miss", "coalesced") and e0 is not None:
            self.probe("probe.sttl_read_of_expired_entry")
            self.count("fault.read_of_hard_ttl_expired_entry")
            if path == "coalesced":
                self.probe("probe.sttl_coalesced_on_expired_entry")

    # ---- after every delivery ------------------------------------------
    def _hook(self, ev, mon) -> None:
        actor = self.actors.get(id(ev.target))
        seg = getattr(actor, "seg", None) if actor is not None else None
        kind = seg["kind"] if seg is not None else ("refresh" if ev.event_type == "_sttl_refresh" else "other")
        self._observe_backing(kind)
        if self.fam == "sttl":
            self._check_sttl_structure()
        for lbl, store in self.stores:
            self._check_store(lbl, store, seg, kind)
        if self.wb:
            self._check_owed(kind, seg)
        if self.done_queue:
            q, self.done_queue = self.done_queue, []
            for rec in q:
                self._judge(rec)
        if len(self.states) < 96:
            self.states.add(self._abstract_state())

    def _observe_backing(self, kind):
        get = self.backing.get_sync
        t = self.now_ns()
        for k, key in enumerate(self.keys):
            v = get(key)
            tl = self.timeline[k]
            if tl[-1][1] != v:
                tl.append((t, v, kind, self.hist._stamp))

    def _entry_rank(self, k, entry) -> int:
        """Invocation stamp of the cache-API write whose effect a backing-store timeline entry is (-1: initial/unknown)."""
        t, v, _kind, _stamp = entry
        if v is not None:
            for w in self.writes[k]:
                if w["kind"] == "put" and w["value"] == v:
                    return self._effect_rank(w)
            return -1
        ranks = [self._effect_rank(w) for w in self.writes[k] if w["kind"] == "delete" and w.get("t_ret") == t]
        return max(ranks) if ranks else -1

    def _effect_rank(self, w) -> int:
        """Stamp at which a cache-API write takes effect: a write-back put when it is invoked (cache update), anything
        that goes to the backing store when it returns.  Only used to *name* causes, never to judge."""
        if w["kind"] == "put" and self.wb:
            return w["inv"]
        return w["ret"] if w["ret"] is not None else 1 << 60

    def _backing_src(self, k, value) -> str:
        """Name how `value` (a stale value read from the backing store) got there: `backing-written-by-<op kind>`, or
        `backing-regressed-by-<op kind>` when the store had already held the effect of a *later* write before
        this value was (re-)applied -- e.g. a flush write that was in flight for one write latency and landed
        after a delete or an eviction write-back of a newer value."""
        tl = self.timeline[k]
        j = None
        for i in range(len(tl) - 1, -1, -1):
            if tl[i][1] == value:
                j = i
                break
        if j is None:
            return "backing-written-by-nobody"
        kind = tl[j][2]
        if value is not None and j > 0:
            mine = self._entry_rank(k, tl[j])
            landed = tl[j][3]
            if any(self._entry_rank(k, tl[i]) > mine for i in range(j)) or any(
                    w["kind"] == "delete" and w["ret"] is not None and mine < w["ret"] <= landed
                    for w in self.writes[k]):  # (a delete of a key the store did not hold leaves no timeline entry)
                return f"backing-regressed-by-{kind}"
        return f"backing-written-by-{kind}"

    def _writer_of(self, k, value) -> str:
        """Kind of the operation during which `value` was last applied to the backing store."""
        for _, v, kind, _s in reversed(self.timeline[k]):
            if v == value:
                return kind
        return "nobody"

    def _check_store(self, lbl, store, seg, kind):
        pol = store._eviction_policy
        pname = type(pol).__name__
        tracked, note = tracked_keys(pol)
        cached = store.get_cached_keys()
        if note:
            raise Violation(f"{P}/policy-tracks-cached/{pname}/{note}", f"{lbl}: policy structures disagree: {note}")
        if len(set(tracked)) != len(tracked):
            raise Violation(f"{P}/policy-tracks-cached/{pname}/duplicate-tracked-key",
                            f"{lbl}: policy tracks {tracked} (duplicates) for cached {cached} after {kind}")
        if sorted(tracked) != sorted(cached):
            st, sc_ = set(tracked), set(cached)
            what = "cached-but-untracked" if sc_ - st else "tracked-but-not-cached"
            raise Violation(f"{P}/policy-tracks-cached/{pname}/{what}",
                            f"{lbl}: policy tracks {sorted(tracked)} but cache holds {sorted(cached)} after {kind}")
        if store.cache_size > store.cache_capacity:
            raise Violation(f"{P}/capacity/CachedStore/size-gt-capacity",
                            f"{lbl} ({pname}): cache_size={store.cache_size} > capacity={store.cache_capacity} after {kind}")
        # provenance of cached values (who installed what) -- used only to name the cause of a bad read
        prev, prov = self.prev_cache[lbl], self.prov[lbl]
        cur = store._cache
        how = kind
        if seg is not None and kind == "get":
            p = seg.get("path")
            how = "fill" if p == "miss" else ("promote" if p and p.startswith("hit") and p != "hit0" and p != "hit" else "get")
        elif kind == "tget":
            how = "tierfill"
        for k, key in enumerate(self.keys):
            v = cur.get(key, ABSENT)
            if prev.get(k, ABSENT) != v:
                if v is ABSENT:
                    prev.pop(k, None)
                    prov.pop(k, None)
                else:
                    prev[k] = v
                    prov[k] = (v, how, seg)
                    if how == "promote":
                        self.probe("probe.promotion")
        wbk = store.stats.writebacks
        if wbk != self.prev_writebacks[lbl]:
            if kind != "flush" and store.stats.evictions != self.prev_evictions[lbl]:
                self.probe("probe.dirty_eviction_written_back")
            self.prev_writebacks[lbl] = wbk
        ev_now = store.stats.evictions
        if ev_now != self.prev_evictions[lbl]:
            self.probe("probe.eviction")
            self.count("fault.capacity_eviction", ev_now - self.prev_evictions[lbl])
            self._evicted_now = True
            self.prev_evictions[lbl] = ev_now
        else:
            self._evicted_now = False
        if store.cache_size == store.cache_capacity:
            self.probe("probe.cache_full")

    def _check_owed(self, kind, seg):
        """Write-back: every value accepted by put() and not yet seen in the
        backing store must still be cached *and* marked dirty."""
        c = self.cache
        dirty = None
        for k in list(self.owed):
            v = self.owed[k]
            key = self.keys[k]
            if self.backing.get_sync(key) == v:
                del self.owed[k]
                self.probe("probe.writeback_reached_store")
                continue
            if dirty is None:
                dirty = set(c.get_dirty_keys())
            if not c.contains_cached(key):
                if kind == "delete" and seg is not None and seg["key"] == k:
                    # a delete(k) ran in this delivery (its first or its last step): it may discard the value of any
                    # put(k) that preceded or overlapped it, whichever moment the implementation applies it at
                    del self.owed[k]
                    continue
                if kind in ("inval", "inval_all"):
                    cause = "invalidated"
                elif self._evicted_now:
                    cause = "evicted"
                else:
                    cause = f"gone-during-{kind}"
                raise Violation(f"{P}/writeback-lost/CachedStore/{cause}",
                                f"write-back value {v} of {key} is neither in the backing store "
                                f"({self.backing.get_sync(key)!r}) nor in the cache any more ({cause}, during {kind})")
            if c._cache[key] != v:
                cause = "overwritten-by-miss-fill" if kind == "get" else f"overwritten-during-{kind}"
                raise Violation(f"{P}/writeback-lost/CachedStore/{cause}",
                                f"dirty value {v} of {key} was replaced in the cache by {c._cache[key]!r} "
                                f"before reaching the backing store ({self.backing.get_sync(key)!r}), during {kind}")
            if key not in dirty:
                cause = f"dirty-flag-cleared-during-{kind}"
                if kind == "flush":
                    # narrow: was the key re-written by a put() invoked while the flush's write of this key was in flight?
                    # (the flush's backing write that just landed was started one write latency ago)
                    started = self.now_ns() - self.sc["lat"]["w"] * 1000
                    owed_put = [w for w in self.writes[k] if w["kind"] == "put" and w["value"] == v]
                    if owed_put and owed_put[-1]["inv"] > seg["inv"] and owed_put[-1]["t_inv"] >= started:
                        cause = "dirty-flag-cleared-by-flush-after-concurrent-put"
                    elif owed_put and self.timeline[k][-1][0] == self.now_ns():
                        cause = "dirty-flag-cleared-by-flush-that-wrote-superseded-value"
                    else:
                        cause = "dirty-flag-cleared-by-flush-without-writing-value"
                raise Violation(f"{P}/writeback-lost/CachedStore/{cause}",
                                f"value {v} of {key} is cached but no longer dirty while the backing store still holds "
                                f"{self.backing.get_sync(key)!r} (during {kind}); no later flush will write it")
        if self.owed:
            self.probe("probe.dirty_pending")
            if kind == "flush":
                now = self.now_ns()
                for k in self.owed:
                    tl = self.timeline[k]
                    if tl[-1][0] == now and tl[-1][2] == "flush" and tl[-1][1] != self.owed[k]:
                        # a flush write of an older value just landed and the newer value is still cached and dirty
                        self.probe("probe.flush_kept_redirtied_key")

    def _check_sttl_structure(self):
        c = self.cache
        cached = c.get_cached_keys()
        order = list(c._access_order)
        if sorted(order) != sorted(cached):
            what = "duplicate-tracked-key" if len(set(order)) != len(order) else (
                "cached-but-untracked" if set(cached) - set(order) else "tracked-but-not-cached")
            raise Violation(f"{P}/policy-tracks-cached/SoftTTLCache/{what}",
                            f"LRU order {order} vs cached {cached}")
        if c.cache_capacity is not None and c.cache_size > c.cache_capacity:
            raise Violation(f"{P}/capacity/SoftTTLCache/size-gt-capacity",
                            f"cache_size={c.cache_size} > capacity={c.cache_capacity}")
        if c.cache_capacity is not None and c.cache_size == c.cache_capacity:
            self.probe("probe.cache_full")
        ev_now = c.stats.evictions
        if ev_now:
            self.probe("probe.eviction")
            self.counts["fault.capacity_eviction"] = ev_now

    # ---- judging a completed operation -----------------------------------
    def _judge(self, rec):
        kind = rec["kind"]
        if kind == "get":
            if self.fam == "sttl":
                self._judge_sttl_read(rec)
            else:
                self._judge_read(rec)
        elif kind == "flush" and self.fam == "cs":
            self._judge_flush(rec)

    def _judge_read(self, rec):
        k = rec["key"]
        allowed, latest = self.allowed(k, rec["inv"], rec["ret"])
        got = rec["result"]
        if got in allowed:
            if rec["path"] == "miss" and got is not None:
                self.probe("probe.miss_fill")
                if self.fam == "cs" and self.cache._cache.get(self.keys[k], got) != got:
                    self.probe("probe.fill_skipped_newer_entry")
                elif self.fam == "cs" and self.wb and "regressed" in self._backing_src(k, got):
                    # a (legitimately concurrent) slow read has just cached a value that an in-flight flush write
                    # had put back into the store over a later write: later hits will serve it
                    self.probe("probe.fill_cached_regressed_backing_value")
            return
        known = {_wval(w) for w in self.writes[k]} | {self.initial.get(k, ABSENT)}
        what = "never-written" if got not in known else ("lost-write" if got is None else "stale-read")
        after = latest["kind"] if latest is not None else "initial"
        if self.fam == "mtc" and rec.get("src") == "L1-promote" and latest is not None and rec.get("src_op") is not None:
            # The stale L1 entry was promoted from a lower-tier hit.  Had the write it is older than already landed in the
            # backing store when that lower-tier read *started*?  (put()/delete() are supposed to drop the key from every
            # tier in the step in which their backing-store write lands: a tier read starting later must not find it.)
            if latest["kind"] == "put":
                landed = next((e[3] for e in self.timeline[k] if e[1] == latest["value"]), None)
            else:
                landed = latest["ret"]
            if landed is not None and rec["src_op"]["inv"] > landed:
                rec["src"] = "L1-promote-from-tier-not-invalidated-when-backing-write-landed"
        if rec.get("src") == "fill" and self.fam == "cs":
            bs = self._backing_src(k, got)
            if "regressed" in bs:
                # the cache only mirrors the store here: name the store-level cause
                rec["src"] = f"fill-of-{bs}"
        if rec.get("src") == "backing":
            rec["src"] = self._backing_src(k, got)
            if any(w["kind"] == "delete" and w["inv"] < rec["ret"] and (w["ret"] is None or w["ret"] > rec["inv"])
                   for w in self.writes[k]):
                after += "+concurrent-delete"
        raise Violation(
            f"{P}/read-after-write/{self.cls}/{what}/{rec.get('src', '?')}-after-{after}",
            f"{rec['client']} get({self.keys[k]}) invoked at t={rec['t_inv']}ns returned {got!r}; the latest write "
            f"completed before it is {_fmt(latest)}; allowed {sorted(map(repr, allowed))} "
            f"(read path {rec['path']}, value source {rec.get('src')}, backing now {self.backing.get_sync(self.keys[k])!r})")

    def _judge_flush(self, rec):
        """After flush() the backing store holds, for every key, the latest value
        written before the flush was invoked (or one written concurrently/later)."""
        for k, key in enumerate(self.keys):
            if any(w["kind"] == "delete" and w["inv"] < rec["ret"] and (w["ret"] is None or w["ret"] > rec["inv"])
                   for w in self.writes[k]):
                # a delete concurrent with the flush legitimately drops the dirty value from the cache before its
                # own backing-store delete lands; the backing store may then still show an older value (weaker reading)
                continue
            allowed, latest = self.allowed(k, rec["inv"], rec["ret"])
            got = self.backing.get_sync(key)
            if got not in allowed:
                dirty = key in self.cache.get_dirty_keys()
                detail = "still-dirty" if dirty else ("not-cached" if not self.cache.contains_cached(key) else "clean-in-cache")
                detail += "-" + self._backing_src(k, got)
                raise Violation(
                    f"{P}/flush-incomplete/CachedStore/{detail}",
                    f"after flush() (invoked t={rec['t_inv']}ns, returned {rec['result']}) backing[{key}]={got!r} but the "
                    f"latest completed write is {_fmt(latest)}; allowed {sorted(map(repr, allowed))}; cache={self.cache._cache.get(key)!r} {detail}")
        if rec["result"]:
            self.probe("probe.flush_wrote")

    def _judge_sttl_read(self, rec):
        k = rec["key"]
        key = self.keys[k]
        got = rec["result"]
        path = rec["path"]
        # (1) hard TTL, judged at the instant the read was invoked (weaker reading)
        if path in ("fresh", "stale"):
            e = rec.get("_e0")
            age = rec["t_inv"] - e.cached_at.nanoseconds
            if age > self.hard_ns:
                raise Violation(f"{P}/hard-ttl/SoftTTLCache/served-{path}-hit-older-than-hard-ttl",
                                f"get({key}) at t={rec['t_inv']}ns served an entry cached at {e.cached_at.nanoseconds}ns "
                                f"(age {age}ns > hard_ttl {self.hard_ns}ns)")
            if path == "stale" and self.cache.is_refreshing(key):
                self.probe("probe.sttl_refresh_in_flight")
        if path == "coalesced" and rec["t_ret"] - rec["t_inv"] > self.sc["lat"]["r"] * 1000:
            self.probe("probe.sttl_coalesced_reader_refetched")
        if path == "coalesced" and got is not None:
            e = self.cache._cache.get(key)
            if e is not None and e.value == got:
                age = rec["t_inv"] - e.cached_at.nanoseconds
                refetched = rec["t_ret"] - rec["t_inv"] > self.sc["lat"]["r"] * 1000
                age_wake = rec["t_ret"] - e.cached_at.nanoseconds
                if not refetched and age_wake > self.hard_ns + self.sc["lat"]["c"] * 1000:
                    # the reader picked this entry when it woke up (it returned in that same instant, one cache-read
                    # latency of slack granted): at that instant the entry was already older than the hard TTL
                    raise Violation(f"{P}/hard-ttl/SoftTTLCache/coalesced-reader-served-entry-expired-at-wakeup",
                                    f"get({key}) invoked at t={rec['t_inv']}ns joined an in-flight refresh, woke at "
                                    f"t={rec['t_ret']}ns and was served the entry cached at {e.cached_at.nanoseconds}ns "
                                    f"(age at wake-up {age_wake}ns > hard_ttl {self.hard_ns}ns)")
                if not refetched and age_wake > self.hard_ns // 2:
                    self.probe("probe.sttl_coalesced_served_entry_past_half_hard_ttl")
                if age > self.hard_ns:
                    raise Violation(f"{P}/hard-ttl/SoftTTLCache/coalesced-reader-served-expired-entry",
                                    f"get({key}) invoked at t={rec['t_inv']}ns joined an in-flight refresh and was served "
                                    f"the entry cached at {e.cached_at.nanoseconds}ns (age {age}ns > hard_ttl {self.hard_ns}ns); "
                                    f"backing store now has {self.backing.get_sync(key)!r}")
        # (2) read-after-write / bounded staleness against the backing store's applied history
        tl = self.timeline[k]
        lo = 0
        w = self._latest_completed(k, rec["inv"])
        if w is not None:
            for i, (_, v, _k, _s) in enumerate(tl):
                if v == w["value"]:
                    lo = i
                    break
            else:
                raise Violation(f"{P}/read-after-write/SoftTTLCache/put-never-reached-backing-store",
                                f"{_fmt(w)} on {key} completed but its value never appeared in the backing store")
        i_put = lo
        floor = rec["t_inv"] - self.hard_ns
        i_ttl = len(tl) - 1
        for i in range(len(tl) - 1):
            if tl[i + 1][0] >= floor:
                i_ttl = i
                break
        lo = max(lo, i_ttl)
        allowed = {v for _, v, _k, _s in tl[lo:]}
        if got not in allowed:
            what = "lost-write" if got is None else "stale-read"
            bound = "after-put" if (w is not None and i_put >= i_ttl) else "beyond-hard-ttl"
            raise Violation(
                f"{P}/read-after-write/SoftTTLCache/{what}/{path}-{bound}",
                f"get({key}) invoked at t={rec['t_inv']}ns returned {got!r} via {path}; values the backing store held since "
                f"max(latest completed put {_fmt(w)}, invoke-hard_ttl) are {sorted(map(repr, allowed))}")

    # ---- end of run --------------------------------------------------------
    def final_checks(self):
        """Quiescent post-conditions once the auditor has finished."""
        if self.fam == "cs" and self.wb and self.owed:
            k = sorted(self.owed)[0]
            raise Violation(f"{P}/flush-incomplete/CachedStore/owed-after-final-flush",
                            f"after the final flush the backing store still lacks {self.owed[k]} of {self.keys[k]}")

    def _abstract_state(self) -> str:
        kinds = ",".join(sorted(r["kind"] for r in self.inflight.values()))
        if self.fam == "sttl":
            c = self.cache
            return f"{c.cache_size}|r{len(c._refreshing_keys)}|{kinds}"
        sizes = "/".join(str(s.cache_size) for _, s in self.stores)
        nd = len(self.cache.get_dirty_keys()) if self.fam == "cs" else 0
        return f"{sizes}|d{nd}|o{len(self.owed)}|{kinds}"

    def history_digest(self) -> str:
        h = hashlib.blake2b(digest_size=12)
        for o in self.hist.ops:
            h.update(repr((o["client"], o["kind"], o["key"], o["value"], o["inv"], o["ret"], o["result"],
                           o.get("t_inv"), o.get("t_ret"))).encode())
        h.update(self.mon.digest.encode())
        return h.hexdigest()


def _wval(w):
    return None if w["kind"] == "delete" else w["value"]


def _fmt(w) -> str:
    if w is None:
        return "none (initial state)"
    return f"{w['client']}.{w['kind']}({'' if w['value'] is None else w['value']})@[{w.get('t_inv')},{w.get('t_ret')}]ns"


# ---------------------------------------------------------------------------
# scenario validation (the shrinker produces arbitrary sub-structures)
# ---------------------------------------------------------------------------

def _need(cond, why):
    if not cond:
        raise InvalidScenario(why)


def _is_int(x, lo=None, hi=None):
    return isinstance(x, int) and not isinstance(x, bool) and (lo is None or x >= lo) and (hi is None or x <= hi)


def validate(sc: dict) -> None:
    _need(isinstance(sc, dict) and sc.get("family") in FAMILIES, "family")
    fam = sc["family"]
    _need(_is_int(sc.get("n_keys"), 1, 16), "n_keys")
    nk = sc["n_keys"]
    lat = sc.get("lat")
    _need(isinstance(lat, dict) and all(_is_int(lat.get(x), 0, 10**7) for x in "rwdc"), "lat")
    _need(lat["r"] > 0 and lat["w"] > 0 and lat["d"] > 0, "backing latency must be > 0")
    _need(isinstance(sc.get("initial", []), list) and all(_is_int(k, 0, nk - 1) for k in sc.get("initial", [])), "initial")
    _need(len(set(sc.get("initial", []))) == len(sc.get("initial", [])), "initial dup")

    def pol(p):
        _need(isinstance(p, dict) and p.get("name") in POLICIES, "policy")
        _need(_is_int(p.get("ttl_us", 1), 1), "ttl_us")
        _need(_is_int(p.get("sample", 1), 1), "sample")

    if fam == "cs":
        _need(_is_int(sc.get("cap"), 1, 64), "cap")
        pol(sc.get("policy"))
        w = sc.get("warmer")
        if w is not None:
            _need(isinstance(w, dict) and isinstance(w.get("keys"), list) and all(_is_int(k, 0, nk - 1) for k in w["keys"]), "warmer")
            _need(_is_int(w.get("every_us", 1), 1), "warmer rate")
    elif fam == "mtc":
        t = sc.get("tiers")
        _need(isinstance(t, list) and 1 <= len(t) <= 4, "tiers")
        for x in t:
            _need(isinstance(x, dict) and _is_int(x.get("cap"), 1, 64) and _is_int(x.get("c", 0), 0), "tier")
            pol(x.get("policy"))
        _need(sc.get("promo", "always") in ("always", "on_second_access", "never"), "promo")
    else:
        _need(_is_int(sc.get("soft"), 0) and _is_int(sc.get("hard"), 0) and sc["soft"] <= sc["hard"], "ttls")
        _need(sc.get("cap") is None or _is_int(sc.get("cap"), 1, 64), "cap")
    cl = sc.get("clients")
    _need(isinstance(cl, list) and 1 <= len(cl) <= 8, "clients")
    for c in cl:
        _need(isinstance(c, dict) and isinstance(c.get("ops"), list) and _is_int(c.get("t0", 0), 0), "client")
        for op in c["ops"]:
            _need(isinstance(op, dict) and op.get("o") in OPS[fam], "op kind")
            _need(_is_int(op.get("g", 0), 0, 10**8), "gap")
            if op["o"] not in ("inval_all", "flush"):
                _need(_is_int(op.get("k"), 0, nk - 1), "op key")
            if op["o"] == "tget":
                _need(_is_int(op.get("t"), 1, len(sc["tiers"]) - 1), "tget tier")
