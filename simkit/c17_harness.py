"""C17 helpers: recording KVStore, reply futures, message observer, model builders.

Everything here is harness-side.  The replication components, the Network,
the NetworkLinks, the KVStore behaviour, SimFuture and the engine are the
repository's real code; this module only records what they do.
"""
from __future__ import annotations

from collections import Counter, defaultdict

from simkit import repo

repo.activate()

from happysimulator.components.datastore.kv_store import KVStore  # noqa: E402
from happysimulator.components.datastore.replicated_store import ConsistencyLevel, ReplicatedStore  # noqa: E402
from happysimulator.components.replication.chain_replication import build_chain  # noqa: E402
from happysimulator.components.replication.conflict_resolver import (  # noqa: E402
    CustomResolver,
    LastWriterWins,
    VectorClockMerge,
)
from happysimulator.components.replication.multi_leader import LeaderNode  # noqa: E402
from happysimulator.components.replication.primary_backup import BackupNode, PrimaryNode, ReplicationMode  # noqa: E402
from happysimulator.core.entity import Entity  # noqa: E402
from happysimulator.core.event import Event, ProcessContinuation  # noqa: E402
from happysimulator.core.sim_future import SimFuture  # noqa: E402
from happysimulator.core.temporal import Instant  # noqa: E402

from simkit.chaosnet import build_mesh  # noqa: E402


class Tape:
    """Strictly increasing stamp shared by all recorders of one run.  The
    simulation is single-threaded, so call order is real-time order."""

    def __init__(self):
        self.n = 0

    def stamp(self) -> int:
        self.n += 1
        return self.n


class RecStore(KVStore):
    """The repo KVStore (behaviour inherited unchanged) plus a put/delete log.

    log entries: (stamp, key, value) appended at the instant the inherited
    put() has stored the value (i.e. after its write latency).  `inflight[key]`
    counts puts that have started and not finished (probe support only).
    """

    def __init__(self, name: str, tape: Tape, **kw):
        super().__init__(name, **kw)
        self.tape = tape
        self.log: list[tuple[int, str, object]] = []
        self.by_key: dict[str, list[tuple[int, object]]] = defaultdict(list)
        self.inflight: Counter = Counter()
        self.n_inflight = 0
        self.overlapped_puts = 0  # a put for key k started while another put for k was in flight

    def put(self, key, value):
        if self.inflight[key] > 0:
            self.overlapped_puts += 1
        self.inflight[key] += 1
        self.n_inflight += 1
        try:
            yield from super().put(key, value)
        finally:
            self.inflight[key] -= 1
            self.n_inflight -= 1
        st = self.tape.stamp()
        self.log.append((st, key, value))
        self.by_key[key].append((st, value, self.now.nanoseconds))

    def delete(self, key):
        self.n_inflight += 1
        try:
            r = yield from super().delete(key)
        finally:
            self.n_inflight -= 1
        st = self.tape.stamp()
        self.log.append((st, key, DELETED))
        self.by_key[key].append((st, DELETED, self.now.nanoseconds))
        return r

    def applied_values(self, key, upto_ns: int | None = None) -> list:
        """Values applied for `key` in apply order (optionally only those applied at simulated time <= upto_ns)."""
        return [v for (_, v, t) in self.by_key.get(key, ()) if upto_ns is None or t <= upto_ns]

    def stamp_of(self, key, value, upto_ns: int | None = None) -> int | None:
        for st, v, t in self.by_key.get(key, ()):
            if v == value and (upto_ns is None or t <= upto_ns):
                return st
        return None

    def snapshot(self) -> dict:
        return dict(self._data)


DELETED = "<deleted>"


class ReplyFuture(SimFuture):
    """A client's reply future.  Nobody parks on it; the harness observes the
    instant at which the component resolves it (the oracle runs inside the
    delivery that resolves the future, before any other event)."""

    def __init__(self, op: dict, on_resolve):
        super().__init__()
        self.op = op
        self._cb = on_resolve

    def resolve(self, value=None):
        first = not self.is_resolved
        super().resolve(value)
        if first:
            self._cb(self.op, value)


TRACKED = ("Replicate", "Propagate", "WriteAck", "CommitNotify", "ReplicationAck", "Read",
           "AntiEntropyRequest", "AntiEntropyResponse")


class NetObserver:
    """Watches deliveries (from the Monitor hook, i.e. after the handler ran):
    message sends entering the Network, arrivals at nodes, same-key overtaking
    on one link, commit/ack notifications per (node, key)."""

    def __init__(self, net, tape: Tape):
        self.net = net
        self.tape = tape
        self.sent_idx: Counter = Counter()
        self.msgs: dict[int, tuple] = {}
        self.inflight: Counter = Counter()
        self.sent: Counter = Counter()
        self.arrived: Counter = Counter()
        self.max_arrived: dict = {}
        self.overtaken_same_key = 0
        self.overtaken_any = 0
        self.max_arrived_link: dict = {}
        # (node name, key) -> list of (stamp, event_type, seq) for WriteAck / CommitNotify arrivals
        self.cleans: dict = defaultdict(list)
        # ordered pair -> list of send times (ns) of AntiEntropyRequest messages that have arrived
        self.ae_req_arrived: dict = defaultdict(list)
        self.read_forwarded = 0
        self.commit_left_key_dirty = 0

    def on_event(self, ev, mon=None) -> None:
        if isinstance(ev, ProcessContinuation):
            return
        et = ev.event_type
        if et not in TRACKED:
            return
        md = ev.context.get("metadata")
        if md is None:
            return
        if et == "Read" and ev.target is not self.net:
            fut = md.get("reply_future")
            if isinstance(fut, ReplyFuture):
                nd = ev.target
                dirty = (md.get("key") in nd.dirty_keys) if hasattr(nd, "dirty_keys") else None
                fut.op.setdefault("starts", []).append((self.tape.stamp(), nd.name, dirty))
        if ev.target is self.net:
            link = (md.get("source"), md.get("destination"))
            idx = self.sent_idx[link]
            self.sent_idx[link] += 1
            self.msgs[id(md)] = (md, idx, ev.time.nanoseconds)
            self.inflight[et] += 1
            self.sent[et] += 1
            if et == "Read":
                self.read_forwarded += 1
            return
        rec = self.msgs.pop(id(md), None)
        if rec is None or rec[0] is not md:
            return
        _, idx, t_sent = rec
        self.inflight[et] -= 1
        self.arrived[et] += 1
        link = (md.get("source"), md.get("destination"))
        if et in ("Replicate", "Propagate"):
            k2 = (link, et)
            if idx < self.max_arrived_link.get(k2, -1):
                self.overtaken_any += 1
            else:
                self.max_arrived_link[k2] = idx
            k3 = (link, et, md.get("key"))
            if idx < self.max_arrived.get(k3, -1):
                self.overtaken_same_key += 1
            else:
                self.max_arrived[k3] = idx
        elif et in ("WriteAck", "CommitNotify"):
            self.cleans[(md.get("destination"), md.get("key"))].append((self.tape.stamp(), et, md.get("seq")))
            if et == "CommitNotify" and md.get("key") in getattr(ev.target, "dirty_keys", ()):
                self.commit_left_key_dirty += 1  # an older version's commit did not clean a key with a newer uncommitted write
        elif et == "AntiEntropyRequest":
            self.ae_req_arrived[link].append(t_sent)

    def in_flight_total(self, kinds=None) -> int:
        if kinds is None:
            return sum(self.inflight.values())
        return sum(self.inflight[k] for k in kinds)


class Conductor(Entity):
    """Keeps a multi-leader run alive (anti-entropy timers are daemon events)
    until anti-entropy 'has run': see c17_replication.ASSUMPTIONS."""

    def __init__(self, name, decide, interval: float, max_ticks: int):
        super().__init__(name)
        self.decide = decide
        self.interval = interval
        self.max_ticks = max_ticks
        self.ticks = 0
        self.gave_up = False
        self.stopped_at = None

    def first(self, t: float) -> Event:
        return Event(time=Instant.from_seconds(t), event_type="c17.tick", target=self)

    def handle_event(self, event):
        self.ticks += 1
        if self.decide(self.now.to_seconds()):
            self.stopped_at = self.now.to_seconds()
            return None
        if self.ticks >= self.max_ticks:
            self.gave_up = True
            return None
        return Event(time=Instant.from_seconds(self.now.to_seconds() + self.interval), event_type="c17.tick", target=self)


class RSClient(Entity):
    """Harness client process for ReplicatedStore (which is a direct-call API,
    not a message protocol): runs one put/delete/get as a generator."""

    def __init__(self, name, rs, tape, done):
        super().__init__(name)
        self.rs = rs
        self.tape = tape
        self.done = done

    def handle_event(self, event):
        op = event.context["op"]
        op["inv"] = self.tape.stamp()
        if op["op"] == "w":
            r = yield from self.rs.put(op["k"], op["v"])
        elif op["op"] == "d":
            r = yield from self.rs.delete(op["k"])
        else:
            r = yield from self.rs.get(op["k"])
        op["ret"] = self.tape.stamp()
        op["result"] = r
        self.done(op)
        return None


def _resolver(kind: str):
    if kind == "lww":
        return LastWriterWins()
    if kind == "vcm":
        return VectorClockMerge()
    if kind == "vcm_fn":
        # symmetric, deterministic merge function: the larger (timestamp, writer, value) wins
        return VectorClockMerge(merge_fn=lambda key, a, b: max((a, b), key=lambda v: (v.timestamp, v.writer_id, str(v.value))))
    if kind == "vcm_union":
        # sibling merge as in Riak: symmetric, associative, idempotent; merged clock = pointwise maximum
        from happysimulator.components.replication.conflict_resolver import VersionedValue

        def union(key, a, b):
            toks = sorted(set(str(a.value).split("+")) | set(str(b.value).split("+")))
            va, vb = a.vector_clock or {}, b.vector_clock or {}
            vc = {k: max(va.get(k, 0), vb.get(k, 0)) for k in sorted(set(va) | set(vb))}
            return VersionedValue(value="+".join(toks), timestamp=max(a.timestamp, b.timestamp),
                                  writer_id=max(a.writer_id, b.writer_id), vector_clock=vc)

        return VectorClockMerge(merge_fn=union)
    if kind == "custom":
        return CustomResolver(lambda key, versions: max(versions, key=lambda v: (v.timestamp, v.writer_id, str(v.value))))
    raise ValueError(kind)


def _lat(sc, field, i, default):
    arr = sc.get(field) or [default]
    return float(arr[i % len(arr)])


def build(sc: dict, tape: Tape):
    """Returns dict(nodes, stores, net, links, entities, scheme-specific handles)."""
    scheme = sc["scheme"]
    n = sc["n"]
    out = {"scheme": scheme}
    if scheme == "rs":
        stores = [RecStore(f"r{i}", tape, write_latency=_lat(sc, "wlat", i, 0.005), read_latency=_lat(sc, "rlat", i, 0.001),
                           delete_latency=(_lat(sc, "dlat", i, 0.005) if sc.get("dlat") else None)) for i in range(n)]
        rs = ReplicatedStore("rs", replicas=stores,
                             read_consistency=ConsistencyLevel[sc.get("rcl", "QUORUM")],
                             write_consistency=ConsistencyLevel[sc.get("wcl", "QUORUM")],
                             read_timeout=float(sc.get("rto", 1.0)), write_timeout=float(sc.get("wto", 2.0)))
        out.update(stores=stores, nodes=[], rs=rs, net=None, links={}, entities=[rs, *stores])
        return out

    if scheme == "pb":
        names = ["p"] + [f"b{i}" for i in range(1, n + 1)]
    elif scheme == "chain":
        names = [f"c{i}" for i in range(n)]
    else:
        names = [f"l{i}" for i in range(n)]
    stores = [RecStore(f"{nm}_store", tape, write_latency=_lat(sc, "wlat", i, 0.005), read_latency=_lat(sc, "rlat", i, 0.001))
              for i, nm in enumerate(names)]

    class _N:  # name carrier so that build_mesh can create the Network before the nodes exist
        def __init__(self, name):
            self.name = name

    net, links = build_mesh("net", [_N(nm) for nm in names], sc["net_seed"], sc["profile"], sc.get("per_link"))

    if scheme == "pb":
        primary = PrimaryNode("p", store=stores[0], backups=[], network=net, mode=ReplicationMode[sc["mode"]])
        backups = [BackupNode(names[i], store=stores[i], network=net, primary=primary,
                              serve_reads=True) for i in range(1, n + 1)]
        # wiring as in the repo's own example (examples/distributed/primary_backup_replication.py)
        primary._backups = backups
        primary._backup_lag = {b.name: 0 for b in backups}
        nodes = [primary, *backups]
    elif scheme == "chain":
        it = iter(stores)
        nodes = build_chain(names, net, lambda nm: next(it), craq_enabled=bool(sc.get("craq")))
    else:
        nodes = [LeaderNode(names[i], store=stores[i], network=net, conflict_resolver=_resolver(sc.get("resolver", "lww")),
                            anti_entropy_interval=float(sc.get("ae_interval", 0.0))) for i in range(n)]
        for nd in nodes:
            nd.add_peers([x for x in nodes if x is not nd])
    # point every real NetworkLink of the mesh at the real node (public Network.add_link)
    for (a, b), link in links.items():
        net.add_link(_by_name(nodes, a), _by_name(nodes, b), link)
    out.update(stores=stores, nodes=nodes, net=net, links=links, entities=[*nodes, net, *stores])
    return out


def _by_name(nodes, name):
    for x in nodes:
        if x.name == name:
            return x
    raise KeyError(name)


def beats(resolver, new, old) -> bool:
    """Does version `new` win against `old` under (vector-clock dominance, else resolver)?"""
    a, b = new.vector_clock or {}, old.vector_clock or {}
    if vc_dom(a, b):
        return True
    if vc_dom(b, a):
        return False
    if a == b and new.value == old.value:
        return True
    return resolver.resolve("?", [old, new]) is new


def vc_dom(a: dict, b: dict) -> bool:
    """Reference vector-clock dominance (harness side): a >= b everywhere and a != b."""
    keys = sorted(set(a) | set(b))
    return all(a.get(k, 0) >= b.get(k, 0) for k in keys) and any(a.get(k, 0) > b.get(k, 0) for k in keys)
