"""Shared pieces of the C12 check (owned by the C12 check; not a shared kit module)."""
from __future__ import annotations

from happysimulator.core.event import Event

from simkit.chaosnet import gen_faults, gen_latency_profile
from simkit.world import Violation


class NetRef:
    """Late-bound network handle: nodes are constructed before build_mesh creates the Network.
    The components only ever call network.send(**kwargs)."""

    net = None

    def send(self, **kw):
        return self.net.send(**kw)


class Judge:
    """Fine invariants before coarse ones.  Normal mode: the first broken invariant ends the run.
    Deferred mode (scenario["defer_fine"]): fine violations are only remembered (the first one) and the run goes on
    until the statement itself breaks; the coarse signature then carries `/after:<fine id>:<detail>`
    (nothing is appended when no fine invariant broke before)."""

    def __init__(self, defer: bool, cls: str):
        self.defer = bool(defer)
        self.cls = cls
        self.first_fine = None

    def fine(self, inv: str, detail: str, msg: str) -> None:
        if not self.defer:
            raise Violation(f"C12/{inv}/{self.cls}/{detail}", msg)
        if self.first_fine is None:
            self.first_fine = (inv, detail, msg)

    def coarse(self, inv: str, detail: str, msg: str) -> None:
        sig = f"C12/{inv}/{self.cls}/{detail}"
        if self.defer:
            if self.first_fine:
                sig += f"/after:{self.first_fine[0]}:{self.first_fine[1]}"
                msg += f"  [first fine violation earlier in this run: {self.first_fine[2]}]"
            # no fine invariant broke before: same signature as in a normal run
        raise Violation(sig, msg)


def is_first_hop(ev, net) -> bool:
    """A message as handed to the Network by its sender (not the link continuation, not the delivery)."""
    return ev.target is net and type(ev) is Event


def max_delay(profile: dict, per_link: dict | None = None) -> float:
    def one(p):
        return (p.get("base", 0.001) + p.get("jitter", 0.0) + p.get("straggler", 0.0) * 1.5) * p.get("slow_mult", 1.0)
    out = one(profile)
    for v in (per_link or {}).values():
        q = dict(profile)
        q.update(v)
        out = max(out, one(q))
    return out


def gen_net(rng, scale: float, *, bounded: bool = False, fifo: bool = False):
    """(profile, per_link-maker) — bounded: no stragglers; fifo: constant latency per link (no reordering on a link)."""
    if fifo:
        prof = {"base": round(scale * rng.choice([0.2, 1.0, 3.0]), 6), "jitter": 0.0}
    elif bounded:
        prof = {"base": round(scale * rng.choice([0.1, 0.5, 1.0]), 6), "jitter": round(scale * rng.choice([0.0, 0.5, 2.0]), 6)}
    else:
        prof = {k: (round(v, 6) if isinstance(v, float) else v) for k, v in gen_latency_profile(rng, scale).items()}
    return prof


def gen_per_link(rng, n: int, prof: dict, *, fifo: bool = False, p: float = 0.4) -> dict:
    per = {}
    if rng.random() < p:
        for _ in range(rng.randint(1, 3)):
            a, b = rng.sample(range(n), 2)
            mult = rng.choice([0.1, 5.0, 20.0])
            per[f"n{a}->n{b}"] = {"base": round(prof["base"] * mult, 6)} if fifo else {"slow_mult": mult}
    return per


def gen_fault_list(rng, n, horizon, kinds, max_faults=4):
    fs = gen_faults(rng, n, horizon, kinds=kinds, max_faults=max_faults, min_len=horizon * 0.02, max_len_frac=0.35)
    for f in fs:  # keep JSON tidy
        for k in ("start", "end"):
            if f.get(k) is not None:
                f[k] = round(f[k], 4)
    return fs


def check_faults(faults, n):
    from simkit.world import InvalidScenario

    for f in faults:
        k = f.get("kind")
        if k not in ("partition", "crash", "pause", "loss", "latency"):
            raise InvalidScenario("fault kind")
        if f.get("start", -1) < 0 or (f.get("end") is not None and f["end"] < f["start"]):
            raise InvalidScenario("fault window")
        if k == "partition":
            if not f.get("a") or not f.get("b") or any(not 0 <= i < n for i in f["a"] + f["b"]):
                raise InvalidScenario("partition groups")
            if set(f["a"]) & set(f["b"]):
                raise InvalidScenario("partition groups overlap")
        elif k in ("crash", "pause"):
            if not 0 <= f.get("node", -1) < n:
                raise InvalidScenario("fault node")
            if k == "pause" and f.get("end") is None:
                raise InvalidScenario("pause without end")
        else:
            if not (0 <= f.get("src", -1) < n and 0 <= f.get("dst", -1) < n):
                raise InvalidScenario("fault link")
            if k == "loss" and not 0 <= f.get("rate", -1) <= 1:
                raise InvalidScenario("loss rate")
            if k == "latency" and f.get("extra", -1) < 0:
                raise InvalidScenario("latency extra")


def check_profile(prof, per_link=None):
    from simkit.world import InvalidScenario

    ps = [prof] + list((per_link or {}).values())
    if "base" not in prof:
        raise InvalidScenario("profile.base missing")
    for p in ps:
        for k, v in p.items():
            if k not in ("base", "jitter", "straggler_p", "straggler", "slow_mult"):
                raise InvalidScenario("profile key")
            if not isinstance(v, (int, float)) or v < 0:
                raise InvalidScenario("profile value")
        if p.get("slow_mult", 1.0) <= 0:
            raise InvalidScenario("slow_mult")
