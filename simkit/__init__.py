"""simkit — deterministic-simulation kit for checking happy-simulator properties.

See /verif/DESIGN.md section 2.  Import order matters: `simkit.repo` must be
imported before anything from `happysimulator`.
"""
