"""Operation histories stamped with the global event sequence number, and the
regular-register ("latest completed write or a concurrent one") checker used
by the storage / cache properties."""
from __future__ import annotations


class History:
    def __init__(self, monitor=None):
        self.ops: list[dict] = []
        self.monitor = monitor
        self._stamp = 0

    def _now(self) -> int:
        # strictly increasing stamp; ties inside one delivery are ordered by call order
        # the simulation is single-threaded: call order *is* real-time order
        self._stamp += 1
        return self._stamp

    def invoke(self, client, kind: str, key=None, value=None, **extra) -> dict:
        op = {"id": len(self.ops), "client": client, "kind": kind, "key": key, "value": value,
              "inv": self._now(), "ret": None, "result": None, "ok": None,
              "inv_seq": self.monitor.seq if self.monitor is not None else None}
        op.update(extra)
        self.ops.append(op)
        return op

    def complete(self, op: dict, result=None, ok: bool = True) -> None:
        op["ret"] = self._now()
        op["result"] = result
        op["ok"] = ok


ABSENT = None


def check_regular_register(ops: list[dict], *, initial: dict | None = None,
                           write_kinds=("put", "delete"), read_kinds=("get",)) -> tuple[str, str] | None:
    """Each completed read must return the value of the latest write to its key
    that completed before the read was invoked, or of any write overlapping the
    read.  `delete` writes the value None.  Writes that never completed count
    as concurrent with everything after their invocation.  Values must be unique
    per write.  Returns (kind, message) for the first bad read, else None.
    """
    initial = initial or {}
    writes_by_key: dict = {}
    for op in ops:
        if op["kind"] in write_kinds:
            writes_by_key.setdefault(op["key"], []).append(op)
    for rd in ops:
        if rd["kind"] not in read_kinds or rd["ret"] is None:
            continue
        key = rd["key"]
        ws = writes_by_key.get(key, [])
        allowed = set()
        latest = None
        for w in ws:
            if w["ret"] is not None and w["ret"] < rd["inv"]:
                if latest is None or w["ret"] > latest["ret"]:
                    latest = w
        # any write completed before the read began but overlapping `latest` (concurrent writes
        # with each other) may legitimately be the surviving one
        if latest is None:
            allowed.add(initial.get(key, ABSENT))
        else:
            allowed.add(_wval(latest))
            for w in ws:
                if w is latest or w["ret"] is None or w["ret"] >= rd["inv"]:
                    continue
                if w["ret"] > latest["inv"]:  # overlapped the latest completed write
                    allowed.add(_wval(w))
        for w in ws:
            if w["inv"] < rd["ret"] and (w["ret"] is None or w["ret"] > rd["inv"]):
                allowed.add(_wval(w))  # concurrent with the read
        got = rd["result"]
        if got not in allowed:
            known = {_wval(w) for w in ws} | {initial.get(key, ABSENT)}
            if got not in known:
                return ("read-never-written", f"read op {rd['id']} key={key} returned {got!r}, which nobody wrote")
            kind = "stale-read" if got is not None else "lost-write"
            return (kind, f"read op {rd['id']} key={key} returned {got!r}; allowed {sorted(map(repr, allowed))}")
    return None


def _wval(w):
    return None if w["kind"] == "delete" else w["value"]
