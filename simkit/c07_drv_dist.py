"""C07 drivers, part 3: networked protocols (network, consensus, membership,
replication, CRDT store), deployment controllers, behaviour/advertising models
and sketching collectors.  Networks are simkit.chaosnet meshes (keyed delays,
stragglers) with generated partition / crash / loss windows.
"""
from __future__ import annotations

from simkit import chaosnet
from simkit.c07_zoo import InvalidScenario, arrivals, check_arr, check_num, lat, lossy, ns, rel
from simkit.c07_drv_flow import flow_cfg, horizon, svc_times, feed
from simkit.c07_drv_state import ops_cfg, spawn

from happysimulator.components.advertising import AdPlatform, Advertiser, AudienceTier
from happysimulator.components.behavior.agent import Agent
from happysimulator.components.behavior.decision import Choice
from happysimulator.components.behavior.environment import Environment
from happysimulator.components.consensus.distributed_lock import DistributedLock
from happysimulator.components.consensus.election_strategies import BullyStrategy, RandomizedStrategy, RingStrategy
from happysimulator.components.consensus.flexible_paxos import FlexiblePaxosNode
from happysimulator.components.consensus.leader_election import LeaderElection
from happysimulator.components.consensus.membership import MembershipProtocol
from happysimulator.components.consensus.multi_paxos import MultiPaxosNode
from happysimulator.components.consensus.paxos import PaxosNode
from happysimulator.components.consensus.raft import RaftNode
from happysimulator.components.crdt.crdt_store import CRDTStore
from happysimulator.components.crdt.g_counter import GCounter
from happysimulator.components.crdt.lww_register import LWWRegister
from happysimulator.components.crdt.or_set import ORSet
from happysimulator.components.crdt.pn_counter import PNCounter
from happysimulator.components.datastore.kv_store import KVStore
from happysimulator.components.deployment.auto_scaler import AutoScaler, QueueDepthScaling, StepScaling, TargetUtilization
from happysimulator.components.deployment.canary_deployer import CanaryDeployer, CanaryStage
from happysimulator.components.deployment.rolling_deployer import RollingDeployer
from happysimulator.components.load_balancer.load_balancer import LoadBalancer
from happysimulator.components.network.link import NetworkLink
from happysimulator.components.network.network import Network
from happysimulator.components.replication.chain_replication import ChainNode, ChainNodeRole
from happysimulator.components.replication.conflict_resolver import LastWriterWins, VectorClockMerge
from happysimulator.components.replication.multi_leader import LeaderNode
from happysimulator.components.replication.primary_backup import BackupNode, PrimaryNode, ReplicationMode
from happysimulator.components.server.server import Server
from happysimulator.components.sketching.quantile_estimator import QuantileEstimator
from happysimulator.components.sketching.sketch_collector import SketchCollector
from happysimulator.components.sketching.topk_collector import TopKCollector
from happysimulator.core.sim_future import SimFuture
from happysimulator.distributions.constant import ConstantLatency

DRIVERS: dict = {}


def driver(name, classes):
    def deco(pair):
        gen, build = pair()
        DRIVERS[name] = {"name": name, "classes": list(classes), "gen": gen, "build": build}
        return pair
    return deco


# --------------------------------------------------------------------------
# chaos network helpers
# --------------------------------------------------------------------------

class _N:
    def __init__(self, name):
        self.name = name


class SignedJitter(chaosnet.LatencyDistribution):
    """Symmetric +/- jitter (a user LatencyDistribution whose samples can be negative), keyed per sample."""

    def __init__(self, seed, link, amplitude_s):
        super().__init__(0.0)
        self.seed, self.link, self.amp, self.k = seed, link, amplitude_s, 0

    def get_latency(self, current_time):
        from simkit.rng import unit
        from happysimulator.core.temporal import Duration
        u = unit(self.seed, "jitter", self.link, self.k)
        self.k += 1
        return Duration(int((2.0 * u - 1.0) * self.amp * 1e9))

    def __deepcopy__(self, memo):
        c = SignedJitter(self.seed, self.link, self.amp)
        c.k = self.k
        return c


def gen_net(rng, n, horizon_s, scale=0.01, kinds=("partition", "crash", "pause", "loss", "latency")):
    return {"profile": chaosnet.gen_latency_profile(rng, scale), "n": n,
            # +/- jitter smaller or larger than the base latency (larger: the sum can be negative and must be clamped)
            "jitter": rng.choice([None, None, round(scale * rng.choice([0.5, 1.5, 4.0]), 6)]),
            "faults": chaosnet.gen_faults(rng, n, horizon_s, kinds=kinds, max_faults=rng.choice([0, 2, 4]),
                                          min_len=horizon_s * 0.05, max_len_frac=0.3) if n >= 2 else []}


def check_net(netc):
    p = netc.get("profile") or {}
    for k in ("base", "jitter", "straggler", "straggler_p", "slow_mult"):
        if k in p:
            check_num(p[k], 0, 100)
    for f in netc.get("faults", []):
        check_num(f.get("start", -1), 0, 1e4)
        if f.get("end") is not None:
            check_num(f["end"], 0, 1e4)
        if f.get("kind") not in ("partition", "crash", "pause", "loss", "latency"):
            raise InvalidScenario("fault kind")
        if f["kind"] == "partition" and (not f.get("a") or not f.get("b")):
            raise InvalidScenario("partition groups")


def shift_faults(z, faults):
    """Fault windows are given relative to the start of the simulation; FaultDriver wants absolute seconds."""
    if not z.t0_ns:
        return faults
    out = []
    for f in faults:
        g = dict(f)
        g["start"] = z.abs_s(f["start"])
        if f.get("end") is not None:
            g["end"] = z.abs_s(f["end"])
        out.append(g)
    return out


def mesh(z, names, netc, factory):
    """Real Network + one chaos NetworkLink per directed pair; factory(name, net) -> node."""
    check_net(netc)
    net, links = chaosnet.build_mesh("net", [_N(nm) for nm in names], int(z.sc.get("net_seed", 1)), netc["profile"])
    nodes = [factory(nm, net) for nm in names]
    by = {x.name: x for x in nodes}
    for (a, b), link in links.items():
        net.add_link(by[a], by[b], link)
    z.add(net, *nodes)
    for l in links.values():
        z.add(l)
    if netc.get("jitter"):
        for key, l in links.items():
            l.jitter = SignedJitter(int(z.sc.get("net_seed", 1)), f"{key[0]}->{key[1]}", check_num(netc["jitter"], 0, 10))
        z.probe("probe.signed_jitter")
    faults = shift_faults(z, [f for f in netc.get("faults", [])
                              if all(i < len(nodes) for i in (f.get("a", []) + f.get("b", []) + [f.get("node", 0), f.get("src", 0), f.get("dst", 0)]))])
    fd = chaosnet.FaultDriver(net, nodes, links, faults)
    z.after_init(lambda: z.mark_harness(fd.events()))
    z.fault_driver = fd
    z.links = links
    return net, nodes, links


def finish_net(z):
    """Called at the end of a run (registered by drivers with z.at_end)."""
    fd = getattr(z, "fault_driver", None)
    if fd is not None:
        for k, v in fd.counters().items():
            if v:
                z.probe(k, v)
    if any(l.packets_sent for l in getattr(z, "links", {}).values()):
        z.touch("NetworkLink")


# --------------------------------------------------------------------------
# network
# --------------------------------------------------------------------------

@driver("Network", ["Network", "NetworkLink"])
def _network():
    def gen(rng):
        n = rng.randint(2, 4)
        c = flow_cfg(rng)
        c.update(net=gen_net(rng, n, 2.0, kinds=("partition", "loss", "latency")), bw=rng.choice([None, 1e4, 1e6]),
                 direct=rng.random() < 0.5, dlat=lat(rng, hi=0.05), loss=rng.choice([0.0, 0.2]))
        c["djitter"] = rng.choice([None, rel(rng, max(c["dlat"], 0.001), (0.5, 2.0, 5.0))])
        return c

    def build(z, c):
        n = int(c["net"]["n"])
        if not 2 <= n <= 6:
            raise InvalidScenario("n")
        sinks = []
        net, nodes, links = mesh(z, [f"n{i}" for i in range(n)], c["net"], lambda nm, net: z.sink(nm))
        for l in links.values():
            l.bandwidth_bps = c.get("bw")
        # a stand-alone link used as a pipeline stage (events addressed to the link itself)
        tail = z.sink("tail")
        dj = c.get("djitter")
        dl = z.add(NetworkLink("direct_link", latency=ConstantLatency(check_num(c["dlat"])), packet_loss_rate=check_num(c["loss"], 0, 1),
                               jitter=SignedJitter(int(z.sc.get("net_seed", 1)), "direct", check_num(dj, 0, 10)) if dj else None,
                               egress=tail))
        act = z.actor()

        def send(i):
            z.touch(net)
            a, b = nodes[i % n], nodes[(i * 7 + 1) % n]
            if a is b:
                b = nodes[(i + 1) % n]
            return [net.send(a, b, "msg", {"i": i, "payload_size": 100 * (i % 5)})]
        for i, t in enumerate(check_arr(c["arr"])):
            if c["direct"] and i % 3 == 0:
                z.at(t, dl, "pkt", {"metadata": {"i": i, "size": 64}})
            else:
                z.run_at(t, act, send, i)
        for tag in c.get("tags", []):
            z.probe(f"probe.arr_{tag}")
        z.at_end = lambda: finish_net(z)
        z.horizon_ns = horizon(c, 5)
    return gen, build


# --------------------------------------------------------------------------
# consensus
# --------------------------------------------------------------------------

def consensus_cfg(rng, nmin=3, nmax=5, horizon_s=2.5):
    n = rng.randint(nmin, nmax)
    c = flow_cfg(rng, n=rng.randint(3, 14), span=horizon_s / 2)
    c.update(net=gen_net(rng, n, horizon_s, scale=rng.choice([0.002, 0.01, 0.03])), horizon=horizon_s)
    return c


def submit_script(z, nodes, how):
    def script(i):
        node = nodes[i % len(nodes)]
        for x in nodes:
            if getattr(x, "is_leader", False) and not getattr(x, "_crashed", False):
                node = x
                break
        z.touch(node)
        out = how(node, i)
        return out
    return script


@driver("RaftNode", ["RaftNode"])
def _raft():
    def gen(rng):
        c = consensus_cfg(rng)
        et = rng.choice([0.05, 0.15, 0.3])
        c.update(et_min=et, et_max=round(et * rng.choice([1.0, 1.5, 2.0]), 6), hb=round(et * rng.choice([0.1, 0.3, 1.0]), 6))
        c["arr"], c["tags"] = arrivals(rng, len(c["arr"]), 1.2, [c["hb"], c["et_min"]])
        return c

    def build(z, c):
        n = int(c["net"]["n"])
        if not 1 <= n <= 7:
            raise InvalidScenario("n")
        net, nodes, _ = mesh(z, [f"r{i}" for i in range(n)], c["net"],
                             lambda nm, net: RaftNode(nm, net, election_timeout_min=check_num(c["et_min"], 1e-4),
                                                      election_timeout_max=check_num(c["et_max"], 1e-4),
                                                      heartbeat_interval=check_num(c["hb"], 1e-4)))
        for nd in nodes:
            nd.set_peers([x for x in nodes if x is not nd])
            z.after_init(lambda nd=nd: nd.start())
        act = z.actor()
        sc = submit_script(z, nodes, lambda node, i: (node.submit({"op": "set", "key": f"k{i}", "value": i}), None)[1])
        for i, t in enumerate(check_arr(c["arr"])):
            z.run_at(t, act, sc, i)
        z.at_end = lambda: finish_net(z)
        z.horizon_ns = ns(check_num(c["horizon"], 0.01, 100))
    return gen, build


@driver("PaxosNode", ["PaxosNode"])
def _paxos():
    def gen(rng):
        c = consensus_cfg(rng, horizon_s=2.0)
        c.update(retry=rng.choice([0.0, 0.01, 0.1, 0.5]))
        c["arr"], c["tags"] = arrivals(rng, rng.randint(1, 6), 1.0, [c["retry"]])
        return c

    def build(z, c):
        n = int(c["net"]["n"])
        if not 1 <= n <= 7:
            raise InvalidScenario("n")
        net, nodes, _ = mesh(z, [f"p{i}" for i in range(n)], c["net"],
                             lambda nm, net: PaxosNode(nm, net, retry_delay=check_num(c["retry"])))
        for nd in nodes:
            nd.set_peers([x for x in nodes if x is not nd])
        act = z.actor()

        def propose(i):
            nd = nodes[i % n]
            z.touch(nd)
            nd.propose(f"v{i}")
            return nd.start_phase1()
        for i, t in enumerate(check_arr(c["arr"])):
            z.run_at(t, act, propose, i)
        z.at_end = lambda: finish_net(z)
        z.horizon_ns = ns(check_num(c["horizon"], 0.01, 100))
    return gen, build


def _mp_build(cls, prefix, extra_kw):
    def build(z, c):
        n = int(c["net"]["n"])
        if not 1 <= n <= 7:
            raise InvalidScenario("n")
        kw = extra_kw(c, n)
        net, nodes, _ = mesh(z, [f"{prefix}{i}" for i in range(n)], c["net"], lambda nm, net: cls(nm, net, **kw))
        for nd in nodes:
            nd.set_peers([x for x in nodes if x is not nd])
        starters = [int(x) % n for x in c["starters"]]
        for k, s in enumerate(starters):
            act0 = z.actor(f"starter{k}")
            z.run_at(int(c["start_at"][k % len(c["start_at"])]), act0, lambda s=s: (z.touch(nodes[s]), nodes[s].start())[1])
        act = z.actor()
        sc = submit_script(z, nodes, lambda node, i: (node.submit({"op": "set", "key": f"k{i}", "value": i}), None)[1])
        for i, t in enumerate(check_arr(c["arr"])):
            z.run_at(t, act, sc, i)
        z.at_end = lambda: finish_net(z)
        z.horizon_ns = ns(check_num(c["horizon"], 0.01, 100))
    return build


@driver("MultiPaxosNode", ["MultiPaxosNode"])
def _multipaxos():
    def gen(rng):
        c = consensus_cfg(rng)
        hb = rng.choice([0.02, 0.1, 0.3])
        c.update(hb=hb, lease=round(hb * rng.choice([1.0, 2.5, 5.0]), 6), starters=[rng.randrange(5) for _ in range(rng.randint(1, 2))],
                 start_at=[0, rng.randrange(0, 10**8)])
        c["arr"], c["tags"] = arrivals(rng, len(c["arr"]), 1.2, [hb, c["lease"]])
        return c
    build = _mp_build(MultiPaxosNode, "m", lambda c, n: {"leader_lease_timeout": check_num(c["lease"], 1e-4),
                                                        "heartbeat_interval": check_num(c["hb"], 1e-4)})
    return gen, build


@driver("FlexiblePaxosNode", ["FlexiblePaxosNode"])
def _flexpaxos():
    def gen(rng):
        c = consensus_cfg(rng)
        hb = rng.choice([0.02, 0.1, 0.3])
        n = c["net"]["n"]
        q1 = rng.randint(1, n)
        c.update(hb=hb, q1=q1, q2=n + 1 - q1, starters=[rng.randrange(5) for _ in range(rng.randint(1, 2))],
                 start_at=[0, rng.randrange(0, 10**8)])
        c["arr"], c["tags"] = arrivals(rng, len(c["arr"]), 1.2, [hb])
        return c
    build = _mp_build(FlexiblePaxosNode, "f", lambda c, n: {"phase1_quorum": int(c["q1"]), "phase2_quorum": int(c["q2"]),
                                                          "heartbeat_interval": check_num(c["hb"], 1e-4)})
    return gen, build


@driver("LeaderElection", ["LeaderElection"])
def _election():
    def gen(rng):
        c = consensus_cfg(rng, nmin=2)
        et = rng.choice([0.05, 0.2, 0.5])
        c.update(strategy=rng.choice(["bully", "ring", "randomized"]), et=et, hb=round(et * rng.choice([0.1, 0.25, 1.0]), 6))
        c["arr"] = []
        return c

    def build(z, c):
        n = int(c["net"]["n"])
        if not 1 <= n <= 7:
            raise InvalidScenario("n")
        strat = {"bully": BullyStrategy, "ring": RingStrategy, "randomized": RandomizedStrategy}[c["strategy"]]
        net, nodes, _ = mesh(z, [f"e{i}" for i in range(n)], c["net"],
                             lambda nm, net: LeaderElection(nm, net, strategy=strat(), election_timeout=check_num(c["et"], 1e-4),
                                                            heartbeat_interval=check_num(c["hb"], 1e-4)))
        for nd in nodes:
            for x in nodes:
                nd.add_member(x)
            z.after_init(lambda nd=nd: nd.start())
        z.at_end = lambda: finish_net(z)
        z.horizon_ns = ns(check_num(c["horizon"], 0.01, 100))
    return gen, build


@driver("MembershipProtocol", ["MembershipProtocol"])
def _membership():
    def gen(rng):
        c = consensus_cfg(rng, nmin=2)
        pi = rng.choice([0.05, 0.1, 0.3])
        # suspicion timeout shorter / longer than the ack wait (half a probe interval) and than the probe interval
        c.update(pi=pi, st=round(pi * rng.choice([0.1, 0.25, 0.4, 0.5, 2.0, 5.0]), 6), k=rng.randint(0, 3), phi=rng.choice([1.0, 8.0]))
        c["arr"] = []
        n = c["net"]["n"]
        if n >= 3 and rng.random() < 0.6:
            # a member that stops answering probes for good (crash) or for a while (pause / partition from everybody)
            victim = rng.randrange(n)
            start = round(rng.uniform(0.0, 0.8), 4)
            kind = rng.choice(["crash", "crash", "pause"])
            c["net"]["faults"] = c["net"]["faults"] + [{"kind": kind, "node": victim, "start": start,
                                                        "end": None if kind == "crash" else round(start + 1.0, 4)}]
            c["k"] = rng.randint(1, 3)
            c["tags"] = ["dead_member"]
        return c

    def build(z, c):
        n = int(c["net"]["n"])
        if not 1 <= n <= 7:
            raise InvalidScenario("n")
        net, nodes, _ = mesh(z, [f"s{i}" for i in range(n)], c["net"],
                             lambda nm, net: MembershipProtocol(nm, net, probe_interval=check_num(c["pi"], 1e-4),
                                                                suspicion_timeout=check_num(c["st"], 1e-4),
                                                                indirect_probe_count=int(c["k"]), phi_threshold=check_num(c["phi"], 0.01)))
        for nd in nodes:
            for x in nodes:
                nd.add_member(x)
            z.after_init(lambda nd=nd: nd.start())
        z.at_end = lambda: finish_net(z)
        z.horizon_ns = ns(check_num(c["horizon"], 0.01, 100))
    return gen, build


@driver("DistributedLock", ["DistributedLock"])
def _dlock():
    def gen(rng):
        lease = rng.choice([lat(rng, zero_p=0.0, hi=0.3), 0.01, 0.02, lossy(rng, 0.01, 0.2)])
        c = ops_cfg(rng, ["acq", "acq", "try", "evt", "stale"], marks=[lease], nkeys=rng.randint(1, 2))
        c.update(lease=lease, maxw=rng.choice([0, 1, 3]))
        return c

    def build(z, c):
        lk = z.add(DistributedLock("lockmgr", lease_duration=check_num(c["lease"], 1e-6), max_waiters=int(c["maxw"])))

        def drain():
            ev = getattr(lk, "_pending_expiry", None)
            if ev is not None:
                lk._pending_expiry = None
                return [ev]
            return []

        def script(i, kind, k, hold):
            z.touch(lk)
            me, name = f"c{i % 4}", f"L{k}"
            if kind == "try":
                g = lk.try_acquire(name, me)
                out = drain()
                if g is not None and hold > 0:
                    yield hold, out
                    out = []
                if g is not None:
                    lk.release(name, g.fencing_token)
                return out + drain()
            if kind == "evt":
                fut = SimFuture()
                yield 0.0, [z.ev(lk, "LockAcquireRequest", {"metadata": {"lock_name": name, "requester": me}, "reply_future": fut})]
                g = yield fut
                out = drain()
                if g is not None:
                    out.append(z.ev(lk, "LockReleaseRequest", {"metadata": {"lock_name": name, "fencing_token": g.fencing_token}},
                                    delay_ns=ns(hold)))
                return out
            fut = lk.acquire(name, me)
            pre = drain()
            if pre:
                yield 0.0, pre
            g = yield fut
            out = drain()
            if g is None:
                return out
            if hold > 0:
                yield hold, out
                out = []
            if kind != "stale":
                lk.release(name, g.fencing_token)
            return out + drain()
        spawn(z, c, script)
        z.horizon_ns = horizon(c, 3 + c["lease"] * 4)
    return gen, build


# --------------------------------------------------------------------------
# replication / CRDT
# --------------------------------------------------------------------------

def repl_cfg(rng, nmin=2, nmax=4):
    n = rng.randint(nmin, nmax)
    c = ops_cfg(rng, ["w", "w", "r"], n=rng.randint(5, 24), nkeys=rng.randint(1, 4))
    c.update(net=gen_net(rng, n, 3.0, scale=rng.choice([0.002, 0.01]), kinds=("partition", "loss", "latency", "pause")),
             wlat=lat(rng, hi=0.01), rlat=lat(rng, hi=0.005),
             # per-node store write latencies (replicas that acknowledge at different instants)
             wlats=rng.choice([None, [lat(rng, hi=0.02) for _ in range(n)]]))
    return c


def _wl(c, i):
    w = c.get("wlats")
    return check_num(w[i % len(w)]) if w else check_num(c["wlat"])


def repl_feed(z, c, nodes, pick):
    arr = check_arr(c["arr"])
    for i, a in enumerate(arr):
        if not isinstance(a, list) or len(a) != 4:
            raise InvalidScenario("op")
        t, kind, k, _ = a
        md = {"key": f"k{k}", "reply_future": SimFuture()}
        if kind == "w":
            md["value"] = i
        z.at(t, pick(i, kind), "Write" if kind == "w" else "Read", {"metadata": md})
    for tag in c.get("tags", []):
        z.probe(f"probe.arr_{tag}")
    z.at_end = lambda: finish_net(z)
    z.horizon_ns = horizon(c, 2.5)


@driver("PrimaryBackup", ["PrimaryNode", "BackupNode"])
def _pb():
    def gen(rng):
        c = repl_cfg(rng, nmin=2, nmax=4)
        c.update(mode=rng.choice(["ASYNC", "SEMI_SYNC", "SYNC", "SYNC"]))
        if c["mode"] == "SYNC" and rng.random() < 0.7:
            # at least two backups that acknowledge at different instants
            c["net"]["n"] = max(c["net"]["n"], 3)
            c["wlats"] = [0.001 * (1 + 2 * i) for i in range(c["net"]["n"])]
        return c

    def build(z, c):
        n = int(c["net"]["n"])
        if not 2 <= n <= 6:
            raise InvalidScenario("n")
        names = ["primary"] + [f"backup{i}" for i in range(1, n)]
        stores = [z.add(KVStore(f"{nm}_store", read_latency=check_num(c["rlat"]), write_latency=_wl(c, i))) for i, nm in enumerate(names)]
        holder = {}

        def factory(nm, net):
            i = names.index(nm)
            if i == 0:
                holder["p"] = PrimaryNode(nm, store=stores[0], backups=[], network=net, mode=ReplicationMode[c["mode"]])
                return holder["p"]
            return BackupNode(nm, store=stores[i], network=net, primary=holder["p"], serve_reads=True)
        net, nodes, _ = mesh(z, names, c["net"], factory)
        primary, backups = nodes[0], nodes[1:]
        primary._backups = list(backups)            # wiring as in the repo's examples/distributed/primary_backup_replication.py
        primary._backup_lag = {b.name: 0 for b in backups}
        repl_feed(z, c, nodes, lambda i, kind: primary if kind == "w" or i % 2 else backups[i % len(backups)])
    return gen, build


@driver("ChainNode", ["ChainNode"])
def _chain():
    def gen(rng):
        c = repl_cfg(rng)
        c.update(craq=rng.random() < 0.5)
        return c

    def build(z, c):
        from happysimulator.components.replication.chain_replication import build_chain
        n = int(c["net"]["n"])
        if not 2 <= n <= 6:
            raise InvalidScenario("n")
        names = [f"c{i}" for i in range(n)]
        stores = [z.add(KVStore(f"{nm}_store", read_latency=check_num(c["rlat"]), write_latency=_wl(c, i))) for i, nm in enumerate(names)]
        check_net(c["net"])
        net, links = chaosnet.build_mesh("net", [_N(nm) for nm in names], int(z.sc.get("net_seed", 1)), c["net"]["profile"])
        it = iter(stores)
        nodes = build_chain(names, net, lambda nm: next(it), craq_enabled=bool(c["craq"]))
        by = {x.name: x for x in nodes}
        for (a, b), link in links.items():
            net.add_link(by[a], by[b], link)
            z.add(link)
        z.add(net, *nodes)
        fd = chaosnet.FaultDriver(net, nodes, links, shift_faults(z, [f for f in c["net"].get("faults", [])
                                                      if all(i < n for i in (f.get("a", []) + f.get("b", []) + [f.get("node", 0), f.get("src", 0), f.get("dst", 0)]))]))
        z.after_init(lambda: z.mark_harness(fd.events()))
        z.fault_driver, z.links = fd, links
        repl_feed(z, c, nodes, lambda i, kind: nodes[0] if kind == "w" else (nodes[i % n] if c["craq"] else nodes[-1]))
    return gen, build


@driver("LeaderNode", ["LeaderNode"])
def _ml():
    def gen(rng):
        c = repl_cfg(rng)
        c.update(resolver=rng.choice(["lww", "vc"]), ae=rng.choice([0.0, 0.05, 0.3, 1.01]), manual_tick=rng.random() < 0.5)
        return c

    def build(z, c):
        n = int(c["net"]["n"])
        if not 2 <= n <= 6:
            raise InvalidScenario("n")
        names = [f"l{i}" for i in range(n)]
        stores = [z.add(KVStore(f"{nm}_store", read_latency=check_num(c["rlat"]), write_latency=_wl(c, i))) for i, nm in enumerate(names)]
        res = {"lww": LastWriterWins, "vc": VectorClockMerge}[c["resolver"]]
        net, nodes, _ = mesh(z, names, c["net"],
                             lambda nm, net: LeaderNode(nm, store=stores[names.index(nm)], network=net, conflict_resolver=res(),
                                                        anti_entropy_interval=check_num(c["ae"])))
        for nd in nodes:
            nd.add_peers([x for x in nodes if x is not nd])
            z.after_init(lambda nd=nd: nd.get_anti_entropy_event())
        if c.get("manual_tick") and c["arr"]:
            # anti_entropy_interval: "0 to disable"; a one-off round triggered by hand
            z.at(c["arr"][len(c["arr"]) // 2][0], nodes[0], "AntiEntropy", {"metadata": {}}, daemon=True)
            z.probe("probe.manual_tick")
            if c["ae"] == 0:
                z.detail = "anti-entropy-disabled"
        repl_feed(z, c, nodes, lambda i, kind: nodes[i % n])
    return gen, build


@driver("CRDTStore", ["CRDTStore"])
def _crdt():
    def gen(rng):
        c = repl_cfg(rng)
        # gossip_interval: "0 to disable"; a user may still trigger a one-off round by sending a GossipTick
        c.update(kind=rng.choice(["g", "pn", "orset"]), gi=rng.choice([0.0, 0.05, 0.3, 1.01]), manual_tick=rng.random() < 0.5)
        return c

    def build(z, c):
        n = int(c["net"]["n"])
        if not 2 <= n <= 6:
            raise InvalidScenario("n")
        fac = {"g": GCounter, "pn": PNCounter, "lww": LWWRegister, "orset": ORSet}[c["kind"]]
        op = {"g": "increment", "pn": "increment", "lww": "set", "orset": "add"}[c["kind"]]
        names = [f"crdt{i}" for i in range(n)]
        net, nodes, _ = mesh(z, names, c["net"],
                             lambda nm, net: CRDTStore(nm, net, crdt_factory=lambda node_id: fac(node_id),
                                                       gossip_interval=check_num(c["gi"])))
        for nd in nodes:
            nd.add_peers([x for x in nodes if x is not nd])
            z.after_init(lambda nd=nd: nd.get_gossip_event())
        for i, a in enumerate(check_arr(c["arr"])):
            t, kind, k, _ = a
            md = {"key": f"k{k}", "reply_future": SimFuture()}
            if kind == "w":
                md.update(value=(1 + i % 3) if op == "increment" else f"v{i}", operation=op)
            z.at(t, nodes[i % n], "Write" if kind == "w" else "Read", {"metadata": md})
        if c.get("manual_tick") and c["arr"]:
            z.at(c["arr"][len(c["arr"]) // 2][0], nodes[0], "GossipTick", {"metadata": {}}, daemon=True)
            z.probe("probe.manual_tick")
            if c["gi"] == 0:
                z.detail = "gossip-disabled"
        z.at_end = lambda: finish_net(z)
        z.horizon_ns = horizon(c, 2.5)
    return gen, build


# --------------------------------------------------------------------------
# deployment
# --------------------------------------------------------------------------

def deploy_base(z, c):
    svc = c["svc"]
    k = [0]

    def factory(name):
        k[0] += 1
        if c.get("real"):
            s = Server(name, concurrency=1, service_time=ConstantLatency(check_num(max(svc))))
        else:
            from simkit.c07_zoo import Svc
            s = Svc(name, svc[k[0] % len(svc):] + svc[: k[0] % len(svc)], z)
        return s
    backends = [z.add(factory(f"old{i}")) for i in range(int(c["nb"]))]
    lb = z.add(LoadBalancer("lb", backends=backends))
    feed(z, c, lb)
    return lb, factory


@driver("AutoScaler", ["AutoScaler"])
def _autoscaler():
    def gen(rng):
        ei = lat(rng, zero_p=0.0, hi=0.3)
        c = flow_cfg(rng, marks=[ei], n=rng.randint(10, 40))
        def cooldown():
            return rng.choice([0.0, ei, round(ei * 3, 6), rel(rng, ei), lossy(rng, 0.01, 1.5), lossy(rng, 0.01, 0.3)])
        c.update(ei=ei, oc=cooldown(), ic=cooldown(),
                 policy=rng.choice(["target", "step", "queue"]), mn=rng.randint(1, 2), mx=rng.randint(2, 6), nb=rng.randint(1, 3),
                 svc=svc_times(rng), real=True)
        if rng.random() < 0.6:
            # sustained overload: the control loop keeps wanting to scale out (and is held back by the cooldown)
            st = rng.choice([0.2, 0.5, 1.0])
            c["svc"] = [st]
            c["arr"], c["tags"] = arrivals(rng, rng.randint(30, 40), rng.choice([0.5, 1.5]), [ei, c["oc"]])
            c["tags"] = c["tags"] + ["overload"]
            c["mx"] = rng.randint(4, 8)
        return c

    def build(z, c):
        lb, factory = deploy_base(z, c)
        pol = {"target": lambda: TargetUtilization(target=0.5), "step": lambda: StepScaling([(0.8, 2), (0.3, 1), (0.0, -1)]),
               "queue": lambda: QueueDepthScaling(scale_out_threshold=2, scale_in_threshold=0)}[c["policy"]]()
        a = z.add(AutoScaler("autoscaler", load_balancer=lb, server_factory=factory, policy=pol, min_instances=int(c["mn"]),
                             max_instances=max(int(c["mx"]), int(c["mn"])), evaluation_interval=check_num(c["ei"], 1e-6),
                             scale_out_cooldown=check_num(c["oc"]), scale_in_cooldown=check_num(c["ic"])))
        z.after_init(lambda: a.start())
        z.horizon_ns = horizon(c, 3 + c["ei"] * 5)
    return gen, build


@driver("RollingDeployer", ["RollingDeployer"])
def _rolling():
    def gen(rng):
        hi = lat(rng, zero_p=0.0, hi=0.2)
        c = flow_cfg(rng, marks=[hi])
        c.update(hi=hi, batch=rng.randint(1, 3), ht=rng.randint(1, 3), mf=rng.randint(0, 2), nb=rng.randint(1, 4),
                 svc=svc_times(rng, slow=hi), real=rng.random() < 0.3, at=rng.randrange(0, 10**9))
        return c

    def build(z, c):
        lb, factory = deploy_base(z, c)
        d = z.add(RollingDeployer("rolling", load_balancer=lb, server_factory=factory, batch_size=int(c["batch"]),
                                  health_check_interval=check_num(c["hi"], 1e-6), healthy_threshold=int(c["ht"]),
                                  max_failures=int(c["mf"])))
        act = z.actor()
        z.run_at(int(c["at"]), act, lambda: (z.touch(d), [d.deploy()])[1])
        z.horizon_ns = max(horizon(c, 3), int(c["at"]) + ns(c["hi"] * 40 + 2))
    return gen, build


@driver("CanaryDeployer", ["CanaryDeployer"])
def _canary():
    def gen(rng):
        ei = lat(rng, zero_p=0.0, hi=0.2)
        c = flow_cfg(rng, marks=[ei])
        c.update(ei=ei, stages=[[rng.choice([1.0, 10.0, 50.0, 100.0]), round(ei * rng.choice([0.5, 1.0, 3.0]), 6)]
                                for _ in range(rng.randint(1, 3))], nb=rng.randint(1, 3), svc=svc_times(rng), real=rng.random() < 0.5,
                 at=rng.randrange(0, 10**9), evaluator=rng.choice([None, "error", "latency"]))
        return c

    def build(z, c):
        lb, factory = deploy_base(z, c)
        stages = [CanaryStage(traffic_percentage=check_num(p, 0, 100), evaluation_period=check_num(e, 1e-6)) for p, e in c["stages"]]
        from happysimulator.components.deployment.canary_deployer import ErrorRateEvaluator, LatencyEvaluator
        ev_ = {None: lambda: None, "error": ErrorRateEvaluator, "latency": lambda: LatencyEvaluator(max_latency=0.05)}[c.get("evaluator")]()
        d = z.add(CanaryDeployer("canary", load_balancer=lb, server_factory=factory, stages=stages, metric_evaluator=ev_,
                                 evaluation_interval=check_num(c["ei"], 1e-6)))
        act = z.actor()
        z.run_at(int(c["at"]), act, lambda: (z.touch(d), [d.deploy()])[1])
        z.horizon_ns = max(horizon(c, 3), int(c["at"]) + ns(sum(e for _, e in c["stages"]) * 3 + c["ei"] * 10 + 2))
    return gen, build


# --------------------------------------------------------------------------
# behaviour / advertising / sketching
# --------------------------------------------------------------------------

class _PickFirst:
    def decide(self, ctx, rng):
        return ctx.choices[rng.randrange(len(ctx.choices))] if ctx.choices else None


@driver("Agent", ["Agent", "Environment"])
def _agents():
    def gen(rng):
        hb = rng.choice([0.0, lat(rng, zero_p=0.0, hi=0.2)])
        ad = lat(rng, hi=0.05)
        c = flow_cfg(rng, marks=[hb, ad])
        c.update(n=rng.randint(1, 4), hb=hb, ad=ad)
        return c

    def build(z, c):
        n = int(c["n"])
        if not 1 <= n <= 8:
            raise InvalidScenario("n")
        sink = z.sink()
        agents = []
        for i in range(n):
            a = Agent(f"agent{i}", decision_model=_PickFirst(), seed=i + 1, heartbeat_interval=check_num(c["hb"]),
                      action_delay=check_num(c["ad"]))
            a.on_action("buy", lambda ag, ch, ev: z.ev(sink, "Purchase", {"metadata": {"by": ag.name}}))
            a.on_action("tell", lambda ag, ch, ev: [z.ev(env, "InfluencePropagation", {"metadata": {"topic": "t"}})])
            agents.append(z.add(a))
        env = z.add(Environment("env", agents=agents, seed=7))
        for i in range(n - 1):
            try:
                env.social_graph.add_edge(f"agent{i}", f"agent{i + 1}")
            except Exception as e:  # noqa: BLE001
                raise InvalidScenario(str(e)) from e
        for a in agents:
            z.after_init(lambda a=a: a.schedule_first_heartbeat(z.now))
        kinds = ["BroadcastStimulus", "TargetedStimulus", "InfluencePropagation", "StateChange", "direct"]
        for i, t in enumerate(check_arr(c["arr"])):
            k = kinds[i % len(kinds)]
            md = {"stimulus_type": "Offer", "choices": ["buy", "tell", "ignore"], "valence": 0.5, "targets": [f"agent{i % n}"],
                  "topic": "t", "key": "price", "value": i}
            if k == "direct":
                z.at(t, agents[i % n], "Offer", {"metadata": md})
            else:
                z.at(t, env, k, {"metadata": md})
        for tag in c.get("tags", []):
            z.probe(f"probe.arr_{tag}")
        z.horizon_ns = horizon(c, 3 + c["hb"] * 3)
    return gen, build


@driver("Advertiser", ["Advertiser", "AdPlatform"])
def _ads():
    def gen(rng):
        ei = lat(rng, zero_p=0.0, hi=0.3)
        c = flow_cfg(rng, marks=[ei], n=rng.randint(2, 10))
        c.update(ei=ei, n=rng.randint(1, 3))
        return c

    def build(z, c):
        plat = z.add(AdPlatform("platform"))
        tiers = [AudienceTier("core", 100, 5.0), AudienceTier("broad", 1000, 20.0)]
        advs = [z.add(Advertiser(f"adv{i}", product_price=50.0, production_cost=20.0, tiers=tiers, platform=plat,
                                 evaluation_interval=check_num(c["ei"], 1e-6))) for i in range(int(c["n"]))]
        for a in advs:
            z.after_init(lambda a=a: a.start_events())
        for i, t in enumerate(check_arr(c["arr"])):
            z.at(t, advs[i % len(advs)], "SentimentChange", {"metadata": {"sentiment": (i % 5) / 4.0}})
        z.horizon_ns = horizon(c, 1 + c["ei"] * 6)
    return gen, build


@driver("Sketches", ["SketchCollector", "TopKCollector", "QuantileEstimator"])
def _sketches():
    def gen(rng):
        c = flow_cfg(rng)
        c.update(st=lat(rng, hi=0.02))
        return c

    def build(z, c):
        from happysimulator.sketching import CountMinSketch
        q = z.add(QuantileEstimator("quantiles", value_extractor=lambda e: float((e.context.get("metadata") or {}).get("i", 0)), seed=1))
        tk = z.add(TopKCollector("topk", k=3, value_extractor=lambda e: (e.context.get("metadata") or {}).get("i", 0) % 4, seed=1))
        try:
            sk = CountMinSketch(width=32, depth=3, seed=1)
        except TypeError:
            sk = CountMinSketch()
        sc_ = z.add(SketchCollector("cms", sketch=sk, value_extractor=lambda e: (e.context.get("metadata") or {}).get("i", 0) % 4))
        outs = [q, tk, sc_]
        servers = [z.add(Server(f"srv{i}", concurrency=1, service_time=ConstantLatency(check_num(c["st"])), downstream=o))
                   for i, o in enumerate(outs)]
        for i, t in enumerate(check_arr(c["arr"])):
            z.at(t, servers[i % 3], "req", {"metadata": {"i": i}})
        for tag in c.get("tags", []):
            z.probe(f"probe.arr_{tag}")
        z.horizon_ns = horizon(c, 3 + c["st"] * len(c["arr"]))
    return gen, build


# --------------------------------------------------------------------------
# random pipelines: repo components composed with each other
# --------------------------------------------------------------------------

STAGES = ["null", "rl", "inductor", "conveyor", "gate", "batch", "inspect", "pooled", "server", "bulkhead", "cb", "timeout",
          "hedge", "fallback", "lb", "router", "cond", "idem", "sidecar", "gateway", "link", "client", "queue", "shifted",
          "splitmerge", "drl"]


@driver("Pipeline", ["Server"])
def _pipeline():
    def gen(rng):
        k = rng.randint(2, 5)
        c = flow_cfg(rng, n=rng.randint(6, 30))
        c.update(stages=[{"kind": rng.choice(STAGES), "t": lat(rng, hi=0.05), "t2": lat(rng, zero_p=0.0, hi=0.08), "n": rng.randint(1, 3)}
                         for _ in range(k)], svc=svc_times(rng))
        return c

    def build(z, c):
        from simkit.c10_model import build_policy
        from simkit import c07_drv_flow as F
        stages = c["stages"]
        if not 1 <= len(stages) <= 8:
            raise InvalidScenario("stages")
        nxt = z.svc("tail_svc", c["svc"], forward=z.sink())
        for i, s in reversed(list(enumerate(stages))):
            kind, t, t2, n = s["kind"], check_num(s["t"]), check_num(s["t2"], 1e-6), int(s["n"])
            nm = f"st{i}_{kind}"
            if kind == "null":
                e = F.NullRateLimiter(nm, downstream=nxt)
            elif kind == "rl":
                e = F.RateLimitedEntity(nm, downstream=nxt, policy=build_policy({"type": "token", "capacity": float(n), "rate": 1.0 / t2})[0],
                                        queue_capacity=10)
            elif kind == "inductor":
                e = F.Inductor(nm, downstream=nxt, time_constant=t)
            elif kind == "conveyor":
                e = F.ConveyorBelt(nm, downstream=nxt, transit_time=t, capacity=0)
            elif kind == "gate":
                e = F.GateController(nm, downstream=nxt, schedule=[(z.abs_s(t2), z.abs_s(t2 * 3)), (z.abs_s(t2 * 5), z.abs_s(t2 * 6))], initially_open=bool(n % 2))
                z.after_init(lambda e=e: e.start_events())
            elif kind == "batch":
                e = F.BatchProcessor(nm, downstream=nxt, batch_size=n, process_time=t, timeout_s=t2)
            elif kind == "inspect":
                e = F.InspectionStation(nm, pass_target=nxt, fail_target=nxt, inspection_time=t, pass_rate=0.5)
            elif kind == "pooled":
                e = F.PooledCycleResource(nm, pool_size=n, cycle_time=t, downstream=nxt)
            elif kind == "server":
                e = Server(nm, concurrency=n, service_time=ConstantLatency(t), downstream=nxt)
            elif kind == "bulkhead":
                e = F.Bulkhead(nm, target=nxt, max_concurrent=n, max_wait_queue=5, max_wait_time=t2)
            elif kind == "cb":
                e = F.CircuitBreaker(nm, target=nxt, failure_threshold=n, timeout=t2)
            elif kind == "timeout":
                e = F.TimeoutWrapper(nm, target=nxt, timeout=t2)
            elif kind == "hedge":
                e = F.Hedge(nm, target=nxt, hedge_delay=t2, max_hedges=n)
            elif kind == "fallback":
                e = F.Fallback(nm, primary=nxt, fallback=nxt, timeout=t2)
            elif kind == "lb":
                e = LoadBalancer(nm, backends=[nxt])
            elif kind == "router":
                e = F.RandomRouter(nm, targets=[nxt])
            elif kind == "cond":
                e = F.ConditionalRouter(nm, routes=[(lambda ev: True, nxt)])
            elif kind == "idem":
                e = F.IdempotencyStore(nm, target=nxt, key_extractor=lambda ev: str((ev.context.get("metadata") or {}).get("i", 0) % 4),
                                       ttl=t2, cleanup_interval=t2)
            elif kind == "sidecar":
                e = F.Sidecar(nm, target=nxt, request_timeout=t2, max_retries=n, retry_base_delay=t)
            elif kind == "gateway":
                e = F.APIGateway(nm, routes={"a": F.RouteConfig(name="a", backends=[nxt], timeout=t2)}, auth_latency=t,
                                 route_extractor=lambda ev: "a")
            elif kind == "link":
                e = NetworkLink(nm, latency=chaosnet.KeyedLatency(int(z.sc.get("net_seed", 1)), nm, {"base": t, "jitter": t2}), egress=nxt)
            elif kind == "client":
                e = F.Client(nm, target=nxt, timeout=t2, retry_policy=F.FixedRetry(max_attempts=n, delay=t))
            elif kind == "queue":
                q = F.Queue(name=nm, egress=None, policy=F.FIFOQueue())
                d = F.QueueDriver(name=nm + "_drv", queue=q, target=nxt)
                q.egress = d
                z.add(d)
                e = q
            elif kind == "shifted":
                e = F.ShiftedServer(nm, schedule=F.ShiftSchedule([F.Shift(z.abs_s(0.0), z.abs_s(1.0), n), F.Shift(z.abs_s(1.0), z.abs_s(64.0), 1)], default_capacity=1),
                                    service_time=t, downstream=nxt)
            elif kind == "splitmerge":
                e = F.SplitMerge(nm, targets=[z.svc(nm + "_a", [t]), z.svc(nm + "_b", [t2])], downstream=nxt)
            elif kind == "drl":
                store = z.add(KVStore(nm + "_store", read_latency=t, write_latency=t))
                e = F.DistributedRateLimiter(nm, downstream=nxt, backing_store=store, global_limit=5 * n, window_size=t2)
            else:
                raise InvalidScenario("stage kind")
            z.add(e)
            nxt = e
        z.touch("Server")
        feed(z, c, nxt)
        z.horizon_ns = horizon(c, 8 + sum(s["t"] + s["t2"] * 6 for s in stages) * 3)
    return gen, build
