#!/venv/bin/python
"""CLI: vcheck.py <PROPERTY> [--tier quick|thorough] [--replay FILE] [--seed N]"""
import os
import sys

sys.path.insert(0, os.path.dirname(os.path.abspath(__file__)))
from simkit import runner  # noqa: E402

if __name__ == "__main__":
    sys.exit(runner.main())
