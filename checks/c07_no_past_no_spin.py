"""C07 — no library component emits an event into the past or spins at a frozen clock.

A *component zoo* (DESIGN.md section 5, C07): one small driver per Entity class
found by walking happysimulator.components (importlib/inspect), each with a
generated constructor configuration (decimal and zero latencies, small
capacities, timeouts, retry policies incl. zero back-off) and a generated
arrival pattern (same-instant bursts, idle gaps, nanosecond-resolution trickle,
arrivals placed exactly on the component's own timer expiries, contention for
locks / pools / connections).  Networked components sit on simkit.chaosnet
meshes with generated partition / crash / loss / latency windows.

Oracles are global monitors (simkit/c07_zoo.py): the heap-push wrapper
(event.time < clock.now at emission), the engine's "Time travel detected"
log line, and the frozen-clock / clock-creep spin detector.
"""
from __future__ import annotations

from simkit import repo

repo.activate()

from simkit import c07_zoo as zoo  # noqa: E402
from simkit.c07_drv_dist import DRIVERS as _D3  # noqa: E402
from simkit.c07_drv_flow import DRIVERS as _D1  # noqa: E402
from simkit.c07_drv_state import DRIVERS as _D2  # noqa: E402
from simkit.world import InvalidScenario, result  # noqa: E402

PROPERTY = "C07"

DRIVERS: dict = {}
for _d in (_D1, _D2, _D3):
    for _k, _v in _d.items():
        if _k in DRIVERS:
            raise RuntimeError(f"duplicate driver {_k}")
        DRIVERS[_k] = _v
NAMES = sorted(DRIVERS)

# Entity classes of the component library that no driver exercises, with the reason.
# (Empty today: every class found by the walk has a driver.  The two abstract bases
# QueuedResource and RenegingQueuedResource are driven through a minimal concrete
# harness subclass; their queue/driver/adapter/patience logic is the repo's.)
NOT_DRIVEN: dict[str, str] = {}

DRIVEN_CLASSES = sorted({c for d in DRIVERS.values() for c in d["classes"]})

_ALL = zoo.enumerate_entity_classes()
_missing = sorted(set(_ALL) - set(DRIVEN_CLASSES) - set(NOT_DRIVEN))
_stale = sorted((set(DRIVEN_CLASSES) | set(NOT_DRIVEN)) - set(_ALL))
if _missing or _stale:
    # a class was added to / removed from the library: the zoo must be told (harness error, exit 2)
    raise RuntimeError(f"C07 zoo out of date: classes without driver or NOT_DRIVEN entry {_missing}; unknown classes {_stale}")

RUNS = {"quick": 45 * len(NAMES), "thorough": 400_000}       # 45 seeds per driver on average (>= 20 each, see runs.<Driver>)
WALL = {"quick": 58, "thorough": 1500}
BATCH = {"quick": 25, "thorough": 150}
SELFTEST_RUNS = 24
SHRINK_BUDGET_S = {"quick": 12.0, "thorough": 60.0}
SHRINK_SKIP = ("driver", "tags", "t0_ns", "bv")

RULE = (
    "each case = one driver of the component zoo (chosen uniformly among %d drivers covering %d Entity classes) with a "
    "generated constructor configuration and arrival program, run on the real engine under the three C07 monitors; "
    "non-trivial = the driver's subject class received a delivery or had its generator API called AND >= 5 deliveries; "
    "distinct = distinct delivery digests"
    % (len(DRIVERS), len(DRIVEN_CLASSES))
)
STATE_MEASURE = ("distinct (driver, bucket of the largest same-instant delivery run, saw a repo timer in the future, "
                 "#distinct emitting repo classes bucket) tuples")
REAL = ["every Entity class under happysimulator.components listed as driven.<Class> in the counters (%d classes)" % len(DRIVEN_CLASSES),
        "happysimulator.core.simulation.Simulation (instrumented loop), EventHeap, Event/ProcessContinuation, SimFuture",
        "happysimulator.components.network.Network/NetworkLink under simkit.chaosnet.KeyedLatency delays",
        "queue policies, retry policies, rate-limiter policies, eviction policies, LB strategies, election strategies, "
        "compaction strategies, sync policies, GC strategies, congestion controls (as configured by the drivers)"]
STUBS = ["Collector sinks, Svc backends (generated service times), Actor client processes and Callback consumers (harness)",
         "_EchoResource / _RenegingServer: minimal concrete subclasses of the abstract QueuedResource / RenegingQueuedResource",
         "chaosnet.FaultDriver (partition / crash / pause / loss / latency windows)"]
ASSUMPTIONS = [
    "an emission is judged only when it is made by repository code: events created by the harness are registered by id and a "
    "past first-push of one of them raises a harness error instead of a verdict",
    "the emitter named in a signature is the class of the target of the event being processed; for repo generator APIs running "
    "inside a harness client process it is the repo class owning the innermost suspended generator frame, else the (repo) class "
    "the pushed event is addressed to, else the driver's subject class",
    "boundary values: in 35 % of the runs 1-2 numeric parameters are replaced by 0 or the smallest positive value; the repo "
    "constructor decides whether that is legal (ValueError -> the run uses the unmodified configuration). A periodic timer with a "
    "zero period that the constructor accepts and the docstring does not exclude is judged like any other configuration "
    "(signatures of such runs carry /bv:<param>=<value>)",
    "events a component hands out for scheduling (start(), warmup(), start_warming(), prime_poll(), schedule_redelivery(), "
    "release()) count as emitted by it at the instant user code schedules them; calling such an API while the simulation runs "
    "is taken to be within contract (nothing in the docstrings restricts them to time zero)",
    "exceptions raised by repository code (e.g. PageCache re-entrancy, LWWRegister.set via CRDTStore) end the run without a C07 "
    "verdict; they are counted as repo_exception.* and listed in the report",
    "Simulation(start_time=...) is generated (epoch in 4 of 7 runs, else 1 s + 7 ns, 1 h + 1 ns, 1 day + 123 456 789 ns); harness "
    "times and absolute-time configuration (shift boundaries, gate schedules, appointments, fault windows) are given relative to "
    "the start and converted to absolute floats that quantise to the intended nanosecond; start events handed out by components "
    "are judged against the start instant when they are scheduled (the push monitor is installed before sim.schedule)",
    "spin thresholds: > %d consecutive deliveries at one timestamp (workloads have <= 40 arrivals), or the delivery cap %d reached "
    "while the clock advanced < %d ns per delivery over the last %d deliveries" % (zoo.SPIN_CAP, zoo.DELIVERY_CAP,
                                                                                 zoo.CREEP_NS_PER_DELIVERY, zoo.CREEP_WINDOW),
]
EXPECTED_PROBES = ([f"driven.{c}" for c in DRIVEN_CLASSES] +
                   ["probe.arr_burst", "probe.arr_idle_gap", "probe.arr_ns_step", "probe.arr_at_timer_expiry", "probe.arr_steady", "probe.arr_decimal_step", "probe.nonzero_start_time", "probe.arr_retry_storm", "probe.arr_overload", "probe.signed_jitter", "probe.boundary_value_accepted",
                    "probe.boundary_value_refused", "probe.manual_tick", "probe.arr_eviction_contention", "probe.arr_pool_exhaustion", "probe.arr_burst_above_rate", "probe.arr_straggler_during_batch",
                    "probe.zero_delay_config", "probe.same_instant_10plus", "probe.repo_timer_in_future",
                    "probe.process_parked_on_future", "fault.partition", "fault.crash", "fault.pause", "fault.loss",
                    "fault.latency", "fault.stragglers", "fault.msgs_dropped_by_partition"])


T0_CHOICES = [0, 0, 0, 0, 1_000_000_007, 3_600_000_000_001, 86_400_123_456_789]


def gen(rng, tier):
    name = rng.choice(NAMES)
    sc = {"driver": name, "seed": rng.randrange(1, 2**31), "net_seed": rng.randrange(1, 2**31),
          "cfg": DRIVERS[name]["gen"](rng)}
    # Simulation(start_time=...): mostly the epoch, sometimes 1 s + 7 ns, 1 h + 1 ns, 1 day + 123 456 789 ns
    sc["t0_ns"] = rng.choice(T0_CHOICES)
    # boundary values: in a third of the runs 1-2 numeric parameters (timings, sizes, counts) are replaced by 0 or by the
    # smallest positive value (1 microsecond / 1); constructor validation decides whether the value is legal (run())
    sc["bv"] = []
    if rng.random() < 0.35:
        cands = zoo.bv_candidates(sc["cfg"])
        for _ in range(rng.choice([1, 1, 2])):
            if cands:
                path, old = cands.pop(rng.randrange(len(cands)))
                if isinstance(old, float):
                    sc["bv"].append([path, rng.choice([0.0, 0.0, 0.000001])])
                else:
                    sc["bv"].append([path, rng.choice([0, 0, 1])])
    return sc


def _has_zero(x) -> bool:
    if isinstance(x, float):
        return x == 0.0
    if isinstance(x, dict):
        return any(_has_zero(v) for k, v in x.items() if k not in ("arr", "tags", "net"))
    if isinstance(x, list):
        return any(_has_zero(v) for v in x)
    return False


def run(sc):
    d = DRIVERS.get(sc.get("driver"))
    if d is None or not isinstance(sc.get("cfg"), dict):
        raise InvalidScenario("driver")
    zoo.check_cfg_floats(sc["cfg"])
    bv = sc.get("bv") or []
    if not isinstance(bv, list) or len(bv) > 4:
        raise InvalidScenario("bv")
    bv_state = None
    z = out = None
    if bv:
        cfg = zoo.bv_apply(sc["cfg"], bv)
        zoo.check_cfg_floats(cfg)
        zoo.LENIENT[0] = True
        try:
            z = zoo.Zoo(sc, subject=d["classes"][0], classes=d["classes"])
            out = z.execute(d["build"], cfg)
            bv_state = "accepted"
        except InvalidScenario:
            # the constructor (or the driver's own structural validation) refuses the boundary value: not a legal
            # configuration - run the unmodified configuration instead
            bv_state = "refused"
            z = out = None
        finally:
            zoo.LENIENT[0] = False
    if out is None:
        z = zoo.Zoo(sc, subject=d["classes"][0], classes=d["classes"])
        try:
            out = z.execute(d["build"], sc["cfg"])
        except InvalidScenario:
            if bv_state != "refused":
                raise
            # a minimised replay whose boundary value is refused by the (since fixed) constructor and whose shrunk base
            # configuration is not runnable on its own: nothing to judge
            return result(sig=None, msg="boundary value refused by the constructor; base configuration not runnable",
                          digest="refused", nontrivial=False, counters={"probe.boundary_value_refused": 1},
                          klass=d["name"], extra={"all_sigs": [], "status": "refused", "max_same_t": 0})
    if z.detail and z.violations:
        z.violations = [(f"{s_}/{z.detail}", m_) for s_, m_ in z.violations]
    if bv_state == "accepted" and z.violations:
        # boundary-value runs carry the replaced parameters in the signature, so that e.g. a zero heartbeat interval
        # (a configuration matter) and a heartbeat re-armed at now+0 by the code never share a signature
        tag = "/bv:" + ",".join(sorted(f"{next((p for p in reversed(path) if isinstance(p, str)), '?')}={value}" for path, value in bv))
        z.violations = [(s_ + tag, m_ + f" [boundary values {bv}]") for s_, m_ in z.violations]
    sig, msg = zoo.pick_signature(z.violations)
    counters = {k: v for k, v in z.probes.items()}
    driven_subject = False
    for cls in d["classes"]:
        if z.delivered.get(cls) or cls in z.touched:
            counters[f"driven.{cls}"] = 1
            driven_subject = driven_subject or cls == d["classes"][0]
    counters[f"runs.{d['name']}"] = 1
    if bv_state:
        counters[f"probe.boundary_value_{bv_state}"] = 1
    if sc.get("t0_ns"):
        counters["probe.nonzero_start_time"] = 1
    if out["status"] == "budget":
        counters[f"budget.{d['name']}"] = 1
    if out["status"] == "repo-exception":
        counters[f"repo_exception.{d['name']}.{out['payload']}"] = 1
    counters["past_pushes_observed"] = z.past_pushes
    counters["engine_time_travel_discards"] = out["discards"]
    counters["pushes_by_repo_emitters"] = z.repo_pushes
    if _has_zero(sc["cfg"]):
        counters["probe.zero_delay_config"] = 1
    if out["max_same_t"] >= 10:
        counters["probe.same_instant_10plus"] = 1
    if z.future_timers:
        counters["probe.repo_timer_in_future"] = 1
    if z.parked:
        counters["probe.process_parked_on_future"] = 1
    for s, _ in z.violations:
        counters["sig_seen." + s] = 1
    n_em = len(z.emitters)
    state = f"{d['name']}:{min(out['max_same_t'], 60) // 6}:{int(bool(z.future_timers))}:{min(n_em, 4)}"
    return result(sig=sig, msg=msg, digest=out["digest"],
                  nontrivial=driven_subject and out["deliveries"] >= 5,
                  counters=counters, sim_s=out["last_ns"] / 1e9, deliveries=out["deliveries"], klass=d["name"],
                  state=state, extra={"all_sigs": [s for s, _ in z.violations], "status": out["status"],
                                      "max_same_t": out["max_same_t"]})
