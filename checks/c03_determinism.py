"""C03 — the same model and seeds give the same run, every time and in every process.

A zoo of 39 small models (simkit/c03_zoo.py) covers every component family of the property's quantifier.  One scenario =
{model, params, user seed, other models that run earlier in the same interpreter, perturbation plan}.  `run(sc)` executes
the model under the perturbations and compares one canonical digest = delivery log (time_ns, event_type, target name)
recorded through the engine's own `sim.control.on_event` seam + the model's list of public statistics:

  ref           first run in a fresh interpreter with PYTHONHASHSEED=0
  repeat        the same build+run once more in that interpreter                                         (a)
  after-sibling a fresh interpreter that first runs the same model with the same structure and other seeds     (b)
  after-others  ... once more after a seeded selection of other zoo models was built and run there        (b)
                (advances the process-global event counter, leaves `random`/`numpy.random` dirty; the model
                re-seeds with its own user seed the way a user does: random.seed(seed) before building)
  wall-*        ... with time.time/time.monotonic/time.perf_counter replaced (shifted / fast / frozen)     (d)
  hashseed      fresh interpreters with PYTHONHASHSEED=1 and 4242                                         (c)
  fresh-spawn   (sampled) literal `python c03_child.py --oneshot` subprocesses with PYTHONHASHSEED 0/4242 (c)
  uuid.uuid4 is never replaced (only counted)                                                              (e)

"Fresh interpreter" for ref/hashseed is a fork of a per-hash-seed zygote that has only imported the library
(simkit/c03_child.py); literal subprocesses are used on a sample of runs and to confirm every difference.  The worker process
that calls run() never executes a model itself, so the verdict does not depend on the worker's own hash seed or history.

Two schedules.  thorough: one subject per scenario with the full table above (0-3 preceding models, all clocks, one or both
other hash seeds).  quick (cheap, process creation is what costs): a *cohort* of 8 different models per scenario, all judged,
in two interpreters — A (hash seed 0): every member once (the first member is the first thing a fresh interpreter does), then
every member again, now after all the others ran there and under its fake wall clock; B (hash seed 4242): the members in
rotated order (another member is first).  10 % of the cohorts also run in a literal subprocess with hash seed 1 (reversed
order).  A member that differs anywhere is then judged alone with the single-subject schedule in literal subprocesses with
full logs, which yields the same signatures as the thorough schedule; of several differing members the first one whose
signature is not a recorded finding is reported.

Any digest difference is a violation  C03/<model>:<variant>/<first differing thing>/<perturbation kind>.
"""
from __future__ import annotations

import json
import os
import re
import subprocess
import sys

from simkit import repo

repo.activate()

from simkit.c03_zoo import VARIANT, ZOO  # noqa: E402
from simkit.world import InvalidScenario, result  # noqa: E402

PROPERTY = "C03"
COHORT = 8            # models judged per quick-tier scenario
RUNS = {"quick": 36, "thorough": 60_000}
WALL = {"quick": 60, "thorough": 1500}
BATCH = {"quick": 6, "thorough": 10}     # few, long worker tasks: every worker pays for its own zygotes
SELFTEST_RUNS = 2
SHRINK_BUDGET_S = {"quick": 30.0, "thorough": 60.0}
SHRINK_SKIP = ("params", "model")
RULE = (
    "quick: each case = a cohort of 8 different zoo models out of 39 (all judged; 36 cohorts = 288 model/seed pairs, every model >= 3 "
    "seeds), two interpreters per cohort + sampled literal subprocesses; thorough: each case = one of 34 zoo models (sources->servers, all queue policies incl. RED/CoDel/Balking, lossy/jittered Network, "
    "Raft, Paxos, Multi-/Flexible-Paxos, leader-election strategies, SWIM, LSM+WAL, BTree, CachedStore x 10 eviction "
    "configurations, SoftTTL, MultiTier, sharded/replicated store, primary-backup, chain, multi-leader, CRDTStore gossip, "
    "MessageQueue+DLQ, Topic, EventLog+ConsumerGroup, rate limiters, load-balancer strategies, sketch collectors fed strings, "
    "industrial line, behaviour agents, pre-built events, retrying client, disk/router) with generated parameters and user "
    "seed, 0-3 other zoo models that run earlier in the same interpreter, and a perturbation plan; non-trivial = the "
    "reference run delivered >= 30 events (cohort: >= 300 in total) and >= 3 (cohort: >= 2 per member) perturbed runs were compared "
    "with it; distinct = distinct reference digests"
)
STATE_MEASURE = "distinct (model, variant = categorical parameters selecting the code path, deliveries bucket) tuples"
REAL = ["every happysimulator component named in simkit/c03_zoo.py (34 model builders): core.Simulation/Event/Source, "
        "components.server/queue_policies/industrial/network/consensus/storage/datastore/replication/crdt/messaging/"
        "streaming/rate_limiter/load_balancer/sketching/behavior/client/infrastructure, sketching.*, distributions.*"]
STUBS = ["zoo glue entities: Proc (function handler), KVClient / RWClient (scripted clients drawing think times and keys from "
         "module random), consumers/producers of the messaging models", "simkit.world.Monitor (delivery log)",
         "fake wall clocks (shifted / fast / frozen) installed on the time module for the wall-* perturbations"]
ASSUMPTIONS = [
    "'the same seeds' = random.seed(s) and numpy.random.seed(s) before building (Source.poisson draws from numpy's global "
    "generator although the guides only mention random.seed; not judged) plus every seed= parameter a component offers, "
    "passed explicitly; a component left with seed=None seeds itself from OS entropy by design and is outside the statement",
    "a zygote fork (interpreter that imported the library and ran nothing) counts as a fresh process with that hash seed; "
    "checked against literal subprocesses on a sample of runs and on every difference",
    "wall_clock_seconds is wall time by definition and is excluded from the digest; events_per_second is simulated-time based "
    "and included",
    "dict-valued statistics are compared by key (dict equality ignores order); list-valued statistics positionally; sets sorted",
    "models build events before Simulation(...) exactly where the repo's own examples do (Event.once kick-offs)",
    "an exception escaping sim.run() from repo code is part of the behaviour being compared (same exception everywhere = "
    "deterministic), not a C03 violation by itself",
]
EXPECTED_PROBES = ["fault.after_others", "fault.after_sibling", "fault.earlier_simulation_died", "probe.boundary_seed_everywhere", "fault.wall_offset", "fault.wall_fast", "fault.wall_frozen",
                   "fault.hashseed_4242", "fault.fresh_spawn", "probe.event_counter_dirty",
                   "probe.module_random_drawn", "probe.numpy_random_drawn", "probe.uuid4_called_by_model",
                   "probe.wall_clock_read_by_model", "obs.random_seed_only_runs"]
# rare-branch probes of the models themselves (did the randomised / faulty path of the component actually run?)
ZOO_PROBES = (
    "balked behaviour_decisions behaviour_influence_rounds btree_split cache_eviction cache_eviction_random_policy "
    "cache_writeback_flush client_retry_with_jitter client_timeout codel_drop crdt_gossip_random_peer crdt_keys_merged "
    "election_leader_known election_randomized_ballot group_leave group_rebalanced_more_than_once industrial_breakdown "
    "industrial_inspection_failed industrial_no_show lb_backend_marked_unhealthy limiter_queued_or_dropped link_packet_lost "
    "log_records_expired lsm_bloom_save lsm_compaction lsm_flush mq_dead_lettered mq_redelivered mq_refused_at_capacity "
    "multileader_anti_entropy_random_peer multileader_conflict multipaxos_committed multitier_l1_eviction multitier_promotion "
    "partition_dropped_messages paxos_decided paxos_nack_retry pb_replicated raft_command_committed raft_leader_elected "
    "raft_second_election red_probabilistic_drop replicated_quorum_write rpc_retry softttl_stale_hit_refresh swim_indirect_probe "
    "swim_suspected_or_dead topic_replay topic_unsubscribe ttl_server_expired_entry_miss writeback_policy_flush"
).split()
EXPECTED_PROBES += [f"probe.zoo.{n}" for n in ZOO_PROBES] + ["probe.zoo.sketch_number_items", "probe.zoo.provider_shared_distribution", "probe.zoo.provider_static_field_shadows_distribution",
     "probe.zoo.cache_invalidated_then_evicted_again", "probe.zoo.seeded_policy_cleared_mid_run", "probe.zoo.sketch_cleared_mid_run",
     "probe.zoo.prepared_events_tied_with_runtime_events", "probe.zoo.parallel_cross_partition_loss",
     "probe.zoo.parallel_several_senders_per_window", "probe.zoo.random_partition_dropped_messages", "probe.spec_bundle_reused"]

HASHSEEDS = (0, 1, 4242)
WALL_MODES = ("offset", "fast", "frozen")
CHILD = os.path.join(repo.VERIF, "simkit", "c03_child.py")
MODELS = sorted(ZOO)


class ChildError(Exception):
    pass


# ---------------------------------------------------------------------------
# generation
# ---------------------------------------------------------------------------

# thorough tier: models with many categorical variants are drawn more often (swarm over code paths, not over model names)
WEIGHT = {"cached_store": 4, "multi_tier_cache": 2, "queue_policies": 2, "load_balancer": 2, "rate_limiters": 3,
          "event_log_group": 2, "leader_election": 2, "lsm_wal": 2}
_PICK = [m for m in MODELS for _ in range(WEIGHT.get(m, 1))]


def _gen_job(rng, name=None, weighted=True):
    if name is None:
        name = _PICK[rng.randrange(len(_PICK))] if weighted else MODELS[rng.randrange(len(MODELS))]
    job = {"model": name, "params": ZOO[name]["gen"](rng), "seed": rng.randrange(1, 2**31 - 1), "seed_mode": "derived"}
    u = rng.random()
    if u < 0.3:
        # boundary user seeds, handed unchanged to every seed= parameter of the model (0 is a legal seed, not "no seed")
        job["seed"] = rng.choice(BOUNDARY_SEEDS)
        job["seed_mode"] = "same"
    elif u < 0.4:
        job["seed_mode"] = "same"
    # the user defines the declarative spec objects of the scenario (fault specs, node lists, strategies, ...) once per
    # interpreter and builds the model again from the same objects
    job["reuse_specs"] = rng.random() < 0.6
    return job


BOUNDARY_SEEDS = [0, 0, 0, 1, 2**31 - 1, 2**32]    # non-negative: several seed= parameters are packed as unsigned integers


def _sibling(job: dict) -> dict:
    """The same model with the same structural parameters and different seeds (a user's second experiment)."""
    s = job["seed"]
    t = (s * 48271 + 11) % (2**31 - 1) if s not in (1,) else 2
    if t % 5 == s % 5:          # zoo models pick seed-dependent variants (e.g. the numeric type of sketch items) by seed % 5
        t += 1
    return {**job, "seed": t}


def gen(rng, tier):
    """quick: a *cohort* of COHORT different models that are all judged, two interpreters per scenario (cheap perturbations:
    re-run in the same interpreter after the other members, one fake wall clock per member (offset twice as often as
    fast/frozen), hash seed 4242 with the members in rotated order so that another member is the first thing a fresh
    interpreter runs); hash seed 1 and literal subprocesses on a small sample.
    thorough: 80 % one subject, 0-3 preceding models, every perturbation (the schedule of the original design); 20 % cohorts."""
    if tier == "quick" or rng.random() < 0.2:        # thorough: one scenario in five is a quick-style cohort
        names = rng.sample(MODELS, COHORT)
        jobs = [_gen_job(rng, n) for n in names]
        sc = jobs[0]
        sc["others"] = jobs[1:]
        sc["plan"] = {
            "cohort": True,
            "rotate": rng.randrange(1, COHORT),
            "wall": [rng.choice(["offset", "offset", "fast", "frozen"]) for _ in jobs],
            "hs": [4242],
            "fresh": rng.random() < 0.1,
            "obs_numpy": rng.random() < 0.3,
            "crash": rng.choice(CRASH_KINDS + (None,)),
            "crash_first_in_b": rng.random() < 0.5,
        }
        # the dying simulation runs right before one member's second run: an engine-family member if there is one
        eng = [i for i, n in enumerate(names) if ZOO[n]["family"] == "engine" and n != "dying_run"]
        sc["plan"]["crash_before"] = eng[0] if eng else rng.randrange(COHORT)
        return sc
    sc = _gen_job(rng)
    n_others = rng.choice([0, 1, 1, 2, 3])
    sc["others"] = [_gen_job(rng, weighted=False) for _ in range(n_others)]
    wall = [m for m in WALL_MODES if rng.random() < 0.5]
    sc["plan"] = {
        "repeat": rng.random() < 0.85,
        "sibling": rng.random() < 0.7,
        "after_others": n_others > 0,
        "wall": wall,
        # one or both alternative hash seeds (each costs one more interpreter)
        "hs": list(HASHSEEDS[1:]) if rng.random() < 0.3 else [HASHSEEDS[1:][rng.randrange(2)]],
        "fresh": rng.random() < 0.02,
        "obs_numpy": rng.random() < 0.25,
        "crash": rng.choice(CRASH_KINDS + (None, None)),
    }
    return sc


def _validate(sc):
    def job_ok(j):
        return isinstance(j, dict) and j.get("model") in ZOO and isinstance(j.get("params"), dict) \
            and isinstance(j.get("seed"), int) and not isinstance(j.get("seed"), bool) and j["seed"] >= 0

    if not job_ok(sc):
        raise InvalidScenario("subject job")
    if not isinstance(sc.get("others", []), list) or not all(job_ok(j) for j in sc.get("others", [])):
        raise InvalidScenario("others")
    plan = sc.get("plan")
    if not isinstance(plan, dict):
        raise InvalidScenario("plan")
    if any(m not in WALL_MODES for m in plan.get("wall", [])) or any(h not in HASHSEEDS[1:] for h in plan.get("hs", [])):
        raise InvalidScenario("plan values")
    if not isinstance(plan.get("rotate", 1), int) or plan.get("rotate", 1) < 0:
        raise InvalidScenario("rotate")
    if plan.get("crash") not in CRASH_KINDS + (None, False, 0, ""):
        raise InvalidScenario("crash")


# ---------------------------------------------------------------------------
# child interpreters
# ---------------------------------------------------------------------------

_Z: dict[int, subprocess.Popen] = {}


def _env(hs: int) -> dict:
    env = dict(os.environ)
    env["PYTHONHASHSEED"] = str(hs)
    return env


def _kill(hs: int) -> None:
    p = _Z.pop(hs, None)
    if p is not None:
        try:
            p.kill()
            p.wait(timeout=5)
        except Exception:  # noqa: BLE001
            pass
        for f in (p.stdin, p.stdout):
            try:
                f.close()
            except Exception:  # noqa: BLE001
                pass


def _ensure_zygotes(hss) -> None:
    """Start the missing zygotes together (interpreter start-up + library import is the expensive part), then wait for all."""
    started = []
    for hs in dict.fromkeys(hss):
        p = _Z.get(hs)
        if p is not None and p.poll() is None:
            continue
        _Z.pop(hs, None)
        started.append((hs, subprocess.Popen([sys.executable, CHILD, "--zygote"], stdin=subprocess.PIPE, stdout=subprocess.PIPE,
                                             stderr=subprocess.DEVNULL, env=_env(hs), text=True, bufsize=1)))
    for hs, p in started:
        _Z[hs] = p
    for hs, p in started:
        ready = p.stdout.readline()
        if '"ready"' not in ready:
            _kill(hs)
            raise ChildError(f"zygote for PYTHONHASHSEED={hs} did not start: {ready!r}")


def _zygote(hs: int) -> subprocess.Popen:
    _ensure_zygotes([hs])
    return _Z[hs]


def _decode(line: str, what: str) -> list:
    if not line:
        raise ChildError(f"{what}: no answer")
    resp = json.loads(line)
    if "error" in resp:
        raise ChildError(f"{what}: {resp['error']}")
    return resp["results"]


def _start(hs: int, how: str, jobs: list, full: bool):
    """Hand `jobs` (run in order inside one interpreter) to a pristine forked copy of the hash-seed-`hs` zygote (how='fork')
    or to a literal fresh subprocess started with PYTHONHASHSEED=hs (how='spawn'); returns a handle for _finish."""
    req = json.dumps({"jobs": jobs, "full": full}) + "\n"
    if how == "spawn":
        p = subprocess.Popen([sys.executable, CHILD, "--oneshot"], stdin=subprocess.PIPE, stdout=subprocess.PIPE,
                             stderr=subprocess.DEVNULL, env=_env(hs), text=True)
        p.stdin.write(req)
        p.stdin.close()
        return ("spawn", hs, p)
    z = _zygote(hs)
    z.stdin.write(req)
    z.stdin.flush()
    return ("fork", hs, z)


def _finish(handle) -> list:
    how, hs, p = handle
    if how == "spawn":
        out = p.stdout.read()
        p.stdout.close()
        rc = p.wait()
        lines = out.strip().splitlines()
        return _decode(lines[-1] if lines else "", f"spawn hs={hs} rc={rc}")
    line = p.stdout.readline()
    if not line:
        _kill(hs)
    return _decode(line, f"zygote hs={hs}")


def _abort(handles) -> None:
    for how, hs, p in handles:
        if how == "spawn":
            try:
                p.kill()
                p.wait(timeout=5)
            except Exception:  # noqa: BLE001
                pass
    for hs in list(_Z):
        _kill(hs)


def call_fork(hs: int, jobs: list, full: bool = False) -> list:
    h = _start(hs, "fork", jobs, full)
    try:
        return _finish(h)
    except BaseException:
        _abort([h])
        raise


def call_spawn(hs: int, jobs: list, full: bool = False) -> list:
    h = _start(hs, "spawn", jobs, full)
    try:
        return _finish(h)
    except BaseException:
        _abort([h])
        raise


# ---------------------------------------------------------------------------
# comparison
# ---------------------------------------------------------------------------

def _norm(s: str) -> str:
    return re.sub(r"\d+", "#", str(s)).replace("/", "|").replace("*", "x")[:60]


def first_difference(ref: dict, other: dict) -> tuple[str, str]:
    """(thing, human message) for the first differing delivery, else the first differing statistic (sorted by name)."""
    la, lb = ref.get("log"), other.get("log")
    if la is not None and lb is not None:
        for i, (a, b) in enumerate(zip(la, lb)):
            if a[:3] != b[:3]:
                if a[1:3] == b[1:3]:
                    thing = f"delivery-time:{_norm(a[1])}->{a[3]}"
                else:
                    thing = f"delivery-order:{_norm(a[1])}->{a[3]}"
                return thing, f"delivery #{i}: reference {a[:3]} vs {b[:3]}"
        if len(la) != len(lb):
            longer = la if len(la) > len(lb) else lb
            x = longer[min(len(la), len(lb))]
            return (f"delivery-count:{_norm(x[1])}->{x[3]}",
                    f"logs agree for {min(len(la), len(lb))} deliveries, then reference has {len(la)} and the other run {len(lb)}")
    elif ref["log_digest"] != other["log_digest"]:
        return "delivery-log", f"delivery logs differ ({ref['n']} vs {other['n']} deliveries)"
    sa, sb = ref["stats"], other["stats"]
    for k in sorted(set(sa) | set(sb)):
        if sa.get(k) != sb.get(k):
            return f"stat:{_norm(k)}", f"statistic {k}: reference {str(sa.get(k))[:160]} vs {str(sb.get(k))[:160]}"
    return "digest", "digests differ although logs and statistics compare equal"   # cannot happen


def _job(d):
    return {"model": d["model"], "params": d["params"], "seed": d["seed"], "seed_mode": d.get("seed_mode", "derived"),
            "reuse_specs": bool(d.get("reuse_specs", False)), **({"pool_seed": d["pool_seed"]} if "pool_seed" in d else {})}


def _subject(sc):
    return _job(sc)


def _others(sc):
    return [_job(j) for j in sc.get("others", [])]


def _program(sc) -> list:
    """The fixed list of (kind, hash seed, launcher, jobs, index of the compared job) for a scenario."""
    plan = sc["plan"]
    subj, others = _subject(sc), _others(sc)
    jobs0, marks = [subj], [("ref", 0)]
    if ZOO[subj["model"]]["family"] == "parallel":
        # same interpreter, same everything, the worker threads' completion order drawn from another seed
        for ps in (3, 5):
            jobs0.append({**subj, "pool_seed": ps})
            marks.append(("completion-order", len(jobs0) - 1))
    if plan.get("repeat"):
        jobs0.append(subj)
        marks.append(("repeat", len(jobs0) - 1))
    crash = _crash_job(plan)
    if (plan.get("after_others") and others) or crash is not None:
        jobs0.extend(others if plan.get("after_others") else [])
        if crash is not None:
            jobs0.append(crash)        # immediately before the subject: a later complete run may overwrite what a dead run left behind
        jobs0.append(subj)
        marks.append(("after-others", len(jobs0) - 1))
    for m in plan.get("wall", []):
        jobs0.append({**subj, "wall": m})
        marks.append((f"wall-{m}", len(jobs0) - 1))
    if plan.get("obs_numpy"):
        # observation only (never judged): the guides' recipe taken literally, random.seed(s) without numpy.random.seed(s)
        jobs0.append({**subj, "numpy_seed": False})
        marks.append(("obs-random-seed-only", len(jobs0) - 1))
    prog = [{"hs": 0, "how": "fork", "jobs": jobs0, "marks": marks}]
    if plan.get("sibling"):
        # its own fresh interpreter: the sibling (same model, same structure, other seeds) must run *before the subject's first
        # run there* — state memoised per structure by the subject's own first run would hide a leak from the sibling
        prog.append({"hs": 0, "how": "fork", "jobs": [_sibling(subj), subj], "marks": [("after-sibling", 1)]})
    for h in plan.get("hs", []):
        prog.append({"hs": h, "how": "fork", "jobs": [subj], "marks": [("hashseed", 0)]})
    if plan.get("fresh"):
        prog.append({"hs": 0, "how": "spawn", "jobs": [subj], "marks": [("fresh-spawn", 0)]})
        prog.append({"hs": 4242, "how": "spawn", "jobs": others + [subj], "marks": [("fresh-spawn-hashseed", len(others))]})
    return prog


def _execute(prog: list, full: bool, spawn_all: bool = False, only=None) -> list:
    """-> [(kind, hash seed, result, step index)] in program order; the first entry is the reference.  The steps run in
    different interpreters, so they are started together and collected in order.  `only`: step indices to run."""
    steps = [(i, st) for i, st in enumerate(prog) if only is None or i in only]
    handles = []
    try:
        _ensure_zygotes([st["hs"] for _, st in steps if not (spawn_all or st["how"] == "spawn")])
        for _, step in steps:
            handles.append(_start(step["hs"], "spawn" if (spawn_all or step["how"] == "spawn") else "fork", step["jobs"], full))
        results = [_finish(h) for h in handles]
    except BaseException:
        _abort(handles)
        raise
    out = []
    for (i, step), res in zip(steps, results):
        for kind, idx in step["marks"]:
            name = kind[0] if isinstance(kind, tuple) else kind
            if not name.startswith("obs-") or not full:
                out.append((kind, step["hs"], res[idx], i))
    return out


KIND_SIG = {"wall-offset": "wall-clock", "wall-fast": "wall-clock", "wall-frozen": "wall-clock",
            "fresh-spawn-hashseed": "hashseed"}


def _confirm(sc, prog, fast_ref_digest, first_bad, only_first=None):
    """A difference was seen: re-execute in literal fresh subprocesses with full logs — first only the reference step and the
    step of the first difference (program order), then every step — and derive the signature from that.  -> (sig, msg)"""
    model, variant = sc["model"], VARIANT[sc["model"]](sc["params"])

    def judge(full_runs):
        fref = full_runs[0][2]
        for kind, hs, r, _ in full_runs[1:]:
            if r["digest"] != fref["digest"]:
                thing, why = first_difference(fref, r)
                k = KIND_SIG.get(kind, kind)
                return (f"C03/{model}:{variant}/{thing}/{k}",
                        f"model {model} ({variant}) seed {sc['seed']}: run '{kind}'"
                        + (f" (PYTHONHASHSEED={hs})" if k == "hashseed" else "") + f" differs from the reference run: {why}")
        return None

    verdict = None
    if only_first is not None:
        verdict = judge(_execute(prog, full=True, spawn_all=True, only={0, only_first}))
    if verdict is None:
        full = _execute(prog, full=True, spawn_all=True)
        verdict = judge(full)
        if verdict is None:
            k, kind, hs = first_bad
            if fast_ref_digest is not None and full[0][2]["digest"] != fast_ref_digest:
                thing, why, k = "unstable", "the reference itself changed between the forked and the spawned interpreter", "fresh-process"
            else:
                thing, why = "unstable", "difference seen once, not reproduced in fresh subprocesses"
            verdict = (f"C03/{model}:{variant}/{thing}/{k}",
                       f"model {model} ({variant}) seed {sc['seed']}: run '{kind}' differed from the reference run; {why}")
    return verdict


def _run_single(sc):
    prog = _program(sc)
    runs = _execute(prog, full=False)
    ref = runs[0][2]
    obs_runs = [x for x in runs if x[0].startswith("obs-")]
    runs = [x for x in runs if not x[0].startswith("obs-")]
    model, variant = sc["model"], VARIANT[sc["model"]](sc["params"])
    counters = {f"model.{model}": 1}
    after = None
    for kind, hs, r, _ in runs[1:]:
        key = {"hashseed": f"fault.hashseed_{hs}", "fresh-spawn": "fault.fresh_spawn",
               "fresh-spawn-hashseed": "fault.fresh_spawn"}.get(kind, "fault." + kind.replace("-", "_"))
        counters[key] = counters.get(key, 0) + 1
        if kind == "after-others":
            after = r
    counters["fault.others_run"] = len(sc.get("others", [])) if after is not None else 0
    counters["fault.earlier_simulation_died"] = int(_crash_job(sc["plan"]) is not None and after is not None)
    subj = _subject(sc)
    counters["probe.spec_bundle_reused"] = int(subj["reuse_specs"])
    counters["probe.boundary_seed_everywhere"] = int(subj["seed_mode"] == "same" and subj["seed"] in BOUNDARY_SEEDS)
    counters["probe.seed_zero_everywhere"] = int(subj["seed_mode"] == "same" and subj["seed"] == 0)
    obs = ref["obs"]
    counters["probe.module_random_drawn"] = int(obs["drew_random"])
    counters["probe.numpy_random_drawn"] = int(obs["drew_numpy"])
    counters["probe.uuid4_called_by_model"] = int(obs["uuid4_calls"] > 1)        # 1 = the monitor's own hook id
    counters["probe.wall_clock_read_by_model"] = int(obs["wall_reads"] > 2)      # 2 = Simulation's own wall_clock_seconds
    counters["probe.event_counter_dirty"] = int(after is not None and after["obs"]["event_counter_before"] > 0)
    for _, _, r, _ in obs_runs:
        counters["obs.random_seed_only_runs"] = counters.get("obs.random_seed_only_runs", 0) + 1
        counters["obs.random_seed_only_changes_run"] = counters.get("obs.random_seed_only_changes_run", 0) + int(r["digest"] != ref["digest"])
    for name, fired in (ref.get("probes") or {}).items():
        counters[f"probe.zoo.{name}"] = int(fired)
    counters["probe.budget_hit"] = int(ref["status"] == "budget")
    counters["probe.repo_exception_in_run"] = int(ref["status"] not in ("ok", "budget"))

    sig = msg = None
    bad = [(k, hs, i) for k, hs, r, i in runs[1:] if r["digest"] != ref["digest"]]
    if bad:
        counters["probe.difference_confirmed_in_subprocess"] = 1
        kind, hs, step = bad[0]
        sig, msg = _confirm(sc, prog, ref["digest"], (KIND_SIG.get(kind, kind), kind, hs), only_first=step)
    n_cmp = len(runs) - 1
    bucket = min(ref["n"] // 500, 9)
    return result(sig=sig, msg=msg or "", digest=ref["digest"], nontrivial=ref["n"] >= 30 and n_cmp >= 3, counters=counters,
                  sim_s=ref["sim_s"], deliveries=ref["n"], klass=ZOO[model]["family"], state=f"{model}:{variant}:{bucket}",
                  extra={"compared": [k for k, _, _, _ in runs[1:]]})


_KNOWN = None


def _is_known(sig: str) -> bool:
    """Is `sig` a recorded finding?  Only used to choose *which* of several differing cohort members is reported."""
    global _KNOWN
    if _KNOWN is None:
        from simkit import runner as _runner

        _KNOWN = _runner.load_known()
    import fnmatch

    return any(k.get("property") == PROPERTY and fnmatch.fnmatchcase(sig, k["signature"]) for k in _KNOWN)


CRASH_KINDS = ("handler", "generator", "base")


def _crash_job(plan):
    """The 'earlier simulation that died' of a plan: a dying_run job (handler raise / raise inside a generator after a yield /
    BaseException), or None."""
    how = plan.get("crash")
    if how not in CRASH_KINDS:
        return None
    return {"model": "dying_run", "params": {"how": how, "after": 5, "rate": 100.0}, "seed": 7, "seed_mode": "derived", "reuse_specs": False}


def _cohort_program(sc):
    """Members m0..mK-1 are all judged.  Interpreter A (hash seed 0): every member once (m0 is the first thing a fresh
    interpreter does), every member a second time (each now runs after all the others, and under its fake wall clock),
    observation runs.  Interpreter B (other hash seed): the members in rotated order (another member is first)."""
    plan = sc["plan"]
    members = [_subject(sc)] + _others(sc)
    k = len(members)
    # second pass: every member again — now after all the others ran in this interpreter — and under its fake wall clock
    # (one execution screens for both perturbations; the confirmation step separates them)
    wall = plan.get("wall", [])
    jobs0 = list(members)
    marks = [(("ref", j), j) for j in range(k)]
    crash = _crash_job(plan)
    cb = plan.get("crash_before", 0) % k
    for j, m in enumerate(members):
        if crash is not None and j == cb:
            # an earlier experiment in this interpreter died with an exception the caller caught — immediately before this
            # member's second run (state a dead run leaves behind can be overwritten by the next complete run)
            jobs0.append(crash)
        w = wall[j] if j < len(wall) else None
        jobs0.append({**m, "pool_seed": 1, **({"wall": w} if w else {})})   # pool_seed: other completion order of worker threads
        marks.append(((("after-others" if k > 1 else "repeat") + (f"+wall-{w}" if w else ""), j), len(jobs0) - 1))
    if plan.get("obs_numpy"):
        for j, m in enumerate(members):
            jobs0.append({**m, "numpy_seed": False})
            marks.append((("obs-random-seed-only", j), len(jobs0) - 1))
    prog = [{"hs": 0, "how": "fork", "jobs": jobs0, "marks": marks}]
    r = plan.get("rotate", 1) % k
    order = list(range(k))[r:] + list(range(k))[:r]
    for h in plan.get("hs", []):
        # each member right after its sibling (same model and structure, other seeds) ran in that interpreter
        jobsb, marksb = [], []
        for j in order:
            jobsb.append(_sibling(members[j]))
            if crash is not None and plan.get("crash_first_in_b") and j == cb:
                jobsb.append(crash)
            jobsb.append({**members[j], "pool_seed": 2})
            marksb.append((("hashseed+after-sibling", j), len(jobsb) - 1))
        prog.append({"hs": h, "how": "fork", "jobs": jobsb, "marks": marksb})
    if plan.get("fresh"):
        rev = order[::-1]
        prog.append({"hs": 1, "how": "spawn", "jobs": [members[j] for j in rev],
                     "marks": [(("fresh-spawn-hashseed", j), pos) for pos, j in enumerate(rev)]})
    return prog, members


def _run_cohort(sc):
    prog, members = _cohort_program(sc)
    flat = _execute(prog, full=False)                     # [((kind, member), hs, result, step)]
    k = len(members)
    refs = [None] * k
    for (kind, j), hs, r, _ in flat:
        if kind == "ref":
            refs[j] = r
    counters = {"fault.others_run": (k - 1) * k if k > 1 else 0,
                "fault.earlier_simulation_died": int(_crash_job(sc["plan"]) is not None)}
    bad = []
    n_cmp = 0
    for (kind, j), hs, r, step in flat:
        if kind == "ref":
            continue
        if kind.startswith("obs-"):
            counters["obs.random_seed_only_runs"] = counters.get("obs.random_seed_only_runs", 0) + 1
            counters["obs.random_seed_only_changes_run"] = counters.get("obs.random_seed_only_changes_run", 0) + int(r["digest"] != refs[j]["digest"])
            continue
        for part in kind.split("+"):
            key = {"hashseed": f"fault.hashseed_{hs}", "fresh-spawn-hashseed": "fault.fresh_spawn"}.get(part, "fault." + part.replace("-", "_"))
            counters[key] = counters.get(key, 0) + 1
        n_cmp += 1
        if kind.startswith("after-others"):
            counters["probe.event_counter_dirty"] = counters.get("probe.event_counter_dirty", 0) | int(r["obs"]["event_counter_before"] > 0)
        if r["digest"] != refs[j]["digest"]:
            bad.append((j, kind, hs, step))
    counters.setdefault("probe.event_counter_dirty", 0)
    states, deliveries, sim_s = [], 0, 0.0
    counters["probe.spec_bundle_reused"] = sum(1 for m in members if m.get("reuse_specs"))
    counters["probe.boundary_seed_everywhere"] = sum(1 for m in members if m["seed_mode"] == "same" and m["seed"] in BOUNDARY_SEEDS)
    counters["probe.seed_zero_everywhere"] = sum(1 for m in members if m["seed_mode"] == "same" and m["seed"] == 0)
    for j, (m, ref) in enumerate(zip(members, refs)):
        counters[f"model.{m['model']}"] = counters.get(f"model.{m['model']}", 0) + 1
        obs = ref["obs"]
        for name, v in (("probe.module_random_drawn", obs["drew_random"]), ("probe.numpy_random_drawn", obs["drew_numpy"]),
                        ("probe.uuid4_called_by_model", obs["uuid4_calls"] > 1), ("probe.wall_clock_read_by_model", obs["wall_reads"] > 2),
                        ("probe.budget_hit", ref["status"] == "budget"),
                        ("probe.repo_exception_in_run", ref["status"] not in ("ok", "budget"))):
            counters[name] = counters.get(name, 0) | int(bool(v))
        for name, fired in (ref.get("probes") or {}).items():
            counters[f"probe.zoo.{name}"] = counters.get(f"probe.zoo.{name}", 0) | int(fired)
        states.append(f"{m['model']}:{VARIANT[m['model']](m['params'])}:{min(ref['n'] // 500, 9)}")
        deliveries += ref["n"]
        sim_s += ref["sim_s"]
    sig = msg = None
    if bad:
        # members that differed somewhere are judged alone with the single-subject program (reference = first thing in a
        # fresh interpreter, repeat, after the other members, its wall clock, the other hash seed), every step in a literal
        # fresh subprocess with full logs -> the signature is the one the single-subject schedule gives.  All differing
        # members are judged; the first signature that is not a recorded finding is reported (so that a recorded finding in
        # one member cannot hide a new one in another member of the same cohort), else the first one.
        counters["probe.difference_confirmed_in_subprocess"] = 1
        verdicts, seen = [], set()
        for j, kind, hs, step in bad:
            if j in seen:
                continue
            seen.add(j)
            single = dict(members[j])
            cj = _crash_job(sc["plan"])
            single["others"] = [m for i, m in enumerate(members) if i != j] + ([cj] if cj is not None else [])
            wall = sc["plan"].get("wall", [])
            alt = sorted(set(sc["plan"].get("hs", [])) | ({hs} if hs in HASHSEEDS[1:] else set()))
            single["plan"] = {"repeat": True, "sibling": True, "after_others": bool(single["others"]),
                              "wall": [wall[j]] if j < len(wall) else [], "hs": alt}
            first = kind.split("+")[-1]
            fb = (KIND_SIG.get(first, first), kind, hs)
            verdict = _confirm(single, _program(single), None, fb)
            if verdict[0].split("/")[-2] == "unstable":
                # the single-subject schedule does not show it: the difference needs the exact sequence of this cohort
                # (e.g. index ranges left behind by the members that ran in between).  Re-execute the cohort's own two steps
                # in literal subprocesses with full logs and report against that.
                again = _execute(prog, full=True, spawn_all=True, only={0, step})
                ref_j = next(r for (kd, jj), _, r, _ in again if kd == "ref" and jj == j)
                run_j = next((r for (kd, jj), _, r, st in again if kd == kind and jj == j and st == step), None)
                if run_j is not None and run_j["digest"] != ref_j["digest"]:
                    thing, why = first_difference(ref_j, run_j)
                    where = "second-pass" if step == 0 else "other-interpreter"
                    mv = f"{members[j]['model']}:{VARIANT[members[j]['model']](members[j]['params'])}"
                    verdict = (f"C03/{mv}/{thing}/cohort-{where}",
                               f"model {mv} seed {members[j]['seed']}: its run '{kind}' inside this cohort differs from its reference run "
                               f"(reproduced in literal subprocesses; not reproduced by the single-subject schedule, the cohort's exact "
                               f"sequence of earlier simulations is needed): {why}")
            verdicts.append((j, verdict))
            if not _is_known(verdict[0]):
                break
        j, (sig, msg) = next(((j, v) for j, v in verdicts if not _is_known(v[0])), verdicts[0])
        msg = f"[cohort member {j} of {k}] " + msg
    import hashlib

    digest = hashlib.blake2b("|".join(r["digest"] for r in refs).encode(), digest_size=12).hexdigest()
    return result(sig=sig, msg=msg or "", digest=digest, nontrivial=deliveries >= 300 and n_cmp >= 2 * k,
                  counters=counters, sim_s=sim_s, deliveries=deliveries, klass=f"cohort-of-{k}", state=states,
                  extra={"members": [m["model"] for m in members], "bad": [list(b[:3]) for b in bad]})


def run(sc):
    _validate(sc)
    if sc["plan"].get("cohort"):
        return _run_cohort(sc)
    return _run_single(sc)
